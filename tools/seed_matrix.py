#!/usr/bin/env python3
"""Which checks catch which seeded changes (the full matrix).

  vp run --with-repo --timeout 10h -- bash -c 'VP_NO_FUZZ=1 python3 tools/seed_matrix.py --repo "$VP_RUN_REPO" [--only C01,C02b,...]'

Works on a COPY of the repository (never /repo), like tools/automutate.py: the
harness' Cargo.toml files of the snapshot are pointed at the copy. For every
stored seeded change the patch is applied to the copy, every quick check is
run (no early stop), the copy is restored. One JSON line per seed is appended
to seed_matrix.jsonl in the snapshot directory.
"""
import json
import os
import subprocess
import sys
import time

VERIF = os.path.dirname(os.path.dirname(os.path.abspath(__file__)))
ALL = ["C%02d" % i for i in range(1, 21)]


def sh(cmd, **kw):
    return subprocess.run(cmd, stdout=subprocess.PIPE, stderr=subprocess.STDOUT, text=True, **kw)


def main():
    args = sys.argv[1:]
    repo = args[args.index("--repo") + 1]
    assert os.path.abspath(repo) != "/repo", "never patch /repo itself"
    only = args[args.index("--only") + 1].split(",") if "--only" in args else None
    tier = args[args.index("--tier") + 1] if "--tier" in args else "quick"
    for rel in ("harness/Cargo.toml", "c09/Cargo.toml"):
        p = os.path.join(VERIF, rel)
        t = open(p).read()
        if "/repo/" in t:
            open(p, "w").write(t.replace('"/repo/', '"%s/' % repo.rstrip("/")))
    # the seeded patches were written against different commits of /repo: bring the copy to HEAD of the snapshot's time
    env = dict(os.environ, CARGO_NET_OFFLINE="true", VERIF_DIR=VERIF)
    out_path = os.path.join(VERIF, "seed_matrix.jsonl")
    seeds = sorted(d for d in os.listdir(os.path.join(VERIF, "seeded")) if os.path.isdir(os.path.join(VERIF, "seeded", d)))
    for sid in seeds:
        if only and sid not in only:
            continue
        patch = os.path.join(VERIF, "seeded", sid, "patch.diff")
        a = sh(["git", "-C", repo, "apply", patch])
        if a.returncode != 0:
            print(sid, "patch does not apply:", a.stdout[:200], flush=True)
            continue
        rec = {"id": sid, "caught_by": [], "inconclusive": [], "wall_s": {}}
        try:
            for p in ([sid[:3]] if "--own-only" in args else ALL):
                t0 = time.time()
                try:
                    r = sh([os.path.join(VERIF, "check"), p, "--tier", tier, "--seed", "9"], cwd=VERIF, env=env, timeout=7200 if tier == "thorough" else 1800)
                    code = r.returncode
                except subprocess.TimeoutExpired:
                    code = 2
                rec["wall_s"][p] = round(time.time() - t0, 1)
                if code == 1:
                    rec["caught_by"].append(p)
                elif code != 0:
                    rec["inconclusive"].append(p)
        finally:
            sh(["git", "-C", repo, "checkout", "--", "."])
        with open(out_path, "a") as f:
            f.write(json.dumps(rec) + "\n")
        print(sid, "caught by", ",".join(rec["caught_by"]) or "-", "inconclusive", ",".join(rec["inconclusive"]) or "-", flush=True)
    return 0


if __name__ == "__main__":
    sys.exit(main())
