#!/bin/bash
# tools/seed_recheck.sh <seed-id> [check ids...]: apply a stored seeded change to /repo, run checks, restore /repo
set -u
id=$1; shift
props=${@:-${id:0:3}}
cd /verif
[ -z "$(git -C /repo status --porcelain)" ] || { echo "/repo not clean"; exit 2; }
git -C /repo apply /verif/seeded/$id/patch.diff || exit 2
for p in $props; do
  out=$(./check $p --tier quick --seed 7 2>&1); rc=$?
  echo "$id vs $p: exit $rc $(echo "$out" | grep -m1 'signature=' | sed 's/.*signature=/sig=/' | cut -c1-170)"
done
git -C /repo checkout -- .
