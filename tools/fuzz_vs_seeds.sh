#!/bin/bash
# tools/fuzz_vs_seeds.sh: run ONLY the coverage-guided stage (quick budget) of each
# property against its stored seeded changes; prints one line per seed.
cd /verif
for d in seeded/C*/; do
  id=$(basename $d); p=${id:0:3}
  case $p in C09|C16) continue;; esac
  [ -z "$(git -C /repo status --porcelain)" ] || { echo "/repo not clean"; exit 2; }
  git -C /repo apply /verif/seeded/$id/patch.diff || { echo "$id: patch does not apply"; continue; }
  out=$(VP_ONLY_FUZZ=1 ./check $p --tier quick --seed 11 2>&1); rc=$?
  git -C /repo checkout -- .
  echo "$id fuzz-only: exit $rc $(echo "$out" | grep -m1 'signature=' | sed 's/.*signature=/sig=/' | cut -c1-150)"
done
