#!/usr/bin/env python3
"""Regenerate /verif/MANIFEST.json from the table below (kept in one place so
that the manifest is always valid and complete)."""
import json, os, subprocess

VERIF = os.path.dirname(os.path.dirname(os.path.abspath(__file__)))

# id -> (category, technique, engine, level text, level note, design ref)
CHECKS = {}

def add(pid, category, technique, text, note, ref, engine="proptest-harness"):
    CHECKS[pid] = dict(category=category, technique=technique, text=text, note=note, ref=ref, engine=engine)

add("C01", "exploration",
    "property-based round-trip (proptest generators + enumerated sweeps) against the generated value and an independent R7RS reader",
    "Exploration: every generated value is printed through the 5 print entry points, parsed through the 4 parse entry points and read by an independent reader written from the R7RS grammar; the oracle is the generated model value itself, so printer and parser cannot drift together unnoticed. Finite sub-spaces (all scalars as chars and in strings, all byte values, the 64-bit boundary table, powers of two/ten with neighbours) are enumerated; the unbounded factor (shape, nesting, identifiers, doubles) is sampled with shrinking. Both feature configurations are run. Held = no counterexample in the explored set.",
    "Trusts: the harness' own reference reader (self-tested on fixtures at start-up), Rust's str::parse::<f64> as correctly rounded, the float acceptance rule of DESIGN.md A.4. Does not prove absence.",
    "DESIGN.md section 4/C01")

add("C02", "exploration",
    "property-based round-trip over the enumerated printer x parser option product, against a parser-independent folding model and an independent per-dialect reader",
    "Exploration over configurations and inputs: all 576 printer option sets are enumerated in both tiers; the compatible parser option sets are sampled (quick) or enumerated (thorough, 82944 pairs); values are generated per pair so that names are plain in that dialect. The expected result is computed by M_fold (table in DESIGN.md A.1) without calling the parser, and the printed text is additionally read by an independent reader for the dialect the printer options select (R7RS or the documented Emacs Lisp subset). Failures are minimised over options and value to a stable signature.",
    "Trusts compat(P)/M_fold/plain-name tables of DESIGN.md A.1 (written from the option documentation and the property statement), the reference reader, and the float rule of C01.",
    "DESIGN.md section 4/C02")

add("C05", "exploration",
    "grammar-based literal generation judged by an exact bignum oracle (correct rounding / 2^-50 tolerance / overflow), both feature configurations",
    "Exploration: literals are generated from the two grammars of the statement, aimed at the regions it names (64-bit boundaries in four radixes, 400-digit strings, exponent-without-fraction forms, exact halfway cases and their neighbours, subnormals, the overflow threshold and band, absurd exponents); the verdict comes from exact rational arithmetic on a 150-line bignum that is itself cross-checked against u128 and str::parse::<f64> at start-up. The whole 2^k/2^k+-1 table (k <= 66, 4 radixes, 3 sign spellings) is enumerated in every run. Both builds (with and without fast-float-parsing) are run.",
    "Trusts M_big (self-checked), Rust's dec2flt as correctly rounded (only used for the cross-check and in messages), and the reading of '|exponent| <= 22' described in DESIGN.md A.4.",
    "DESIGN.md section 4/C05")

add("C15", "exploration",
    "model-based property testing: every list constructor and traversal against a Vec model",
    "Exploration: generated (elements, tail, indices) triples and association lists are built through every constructor and walked through every traversal, conversion and index form; each result is compared with a Vec-based model computed independently of the cons-cell code, including the None,tail,None protocol of list_iter with peek/is_empty at every step and lookups on non-list targets under catch_unwind.",
    "Trusts the model (harness/src/props/c15.rs) and Value's own == for key equality (mirrored structurally).",
    "DESIGN.md section 4/C15")

add("C20", "exploration",
    "property-based algebraic checks of predicates, conversions and mixed-type comparisons against the payload",
    "Exploration: arbitrary values for the kind/accessor laws; boundary-biased integers of all eight widths (i8/u8/i16/u16 exhaustively), f32/f64 including non-finite values, strings, chars, bools, bytes, pairs and vectors for the conversion laws; (value, primitive) pairs constructed to be equal, off by one, cross-sign and cross-kind for the comparison law in all four operand forms.",
    "The expected answers are computed from the generated payload, not from the library.",
    "DESIGN.md section 4/C20")

add("C07", "fault_enumeration",
    "fault-injecting io::Write sinks (short writes, zero acceptance, Interrupted, hard error at every output offset) against the to_string reference",
    "Fault enumeration: for each generated (value, printer options) the six print entry points are driven into instrumented sinks under generated short-write schedules, and a hard error is injected at EVERY byte offset 0..=len of the reference text (exhaustive per value). The sink's accumulated bytes must equal the reference, or be a prefix of it with the call returning Err. Default and customised-default printers are compared byte for byte.",
    "Trusts to_string_custom as the reference text (its agreement with the parser is C01/C02). Interrupted results are only required not to lose bytes silently.",
    "DESIGN.md section 4/C07")

add("C06", "fault_enumeration",
    "differential testing of the three input sources under generated chunk/Interrupted schedules, with a read fault injected at every byte offset",
    "Fault enumeration: every generated input (printed text of several dialects, mutations, token-alphabet sequences, string literals built from escape pieces, arbitrary bytes) is parsed from &str, &[u8] and an instrumented io::Read under generated chunking, BufReader capacities and Interrupted patterns; outcomes must be equal. A hard read error with a unique payload is then injected at EVERY offset 0..=len (exhaustive per input): the result must be an I/O-category error carrying that payload and kind, or the untouched fault-free outcome - the latter only when every tried continuation of the first k bytes parses to the same outcome (so the bytes delivered really determine it). Anything else is a swallowed failure.",
    "Soundness of the 'determined' rule: if the parser never reads offset k its outcome cannot depend on later bytes, so all continuations agree and nothing is flagged; the rule is a necessary condition checked on five continuations, not a proof of determination.",
    "DESIGN.md section 4/C06")

add("C10", "exploration",
    "differential testing of the value API against the datum API plus recursive accessor comparison",
    "Exploration: for each generated input, option set and source the two APIs run on fresh parsers and are compared item for item, including the terminal event (end of input, or an error with identical message, location and category); the three other ways of iterating are compared with the next_value loop; every datum is walked recursively through the Ref accessors next to the value's own accessors. Streams of hundreds of small datums are included so that state leaking from one top-level datum to the next becomes visible.",
    "The oracle is the other API (a differential relation); a defect common to both APIs is C01/C03/C13's subject.",
    "DESIGN.md section 4/C10")

add("C11", "exploration",
    "generated layouts with a position map known by construction; reported spans compared with the map and with the statement's clauses, across all input sources",
    "Exploration: values are rendered by a layout generator that chooses alternative spellings and inserts generated trivia (all five whitespace bytes, CRLF, comments with non-ASCII text) at every token boundary while recording the byte range of every datum and sub-datum. The datum parser's spans must equal that map exactly, satisfy the containment/order/non-empty/re-parse clauses checked independently of the map, and be identical for &str, &[u8], an unbuffered reader and a BufReader.",
    "Trusts the layout generator's position map (self-tested; a wrong map shows up as a violation on the unchanged tree, not as silence). Layout text the parser does not read back as the generated value is counted and excluded (that is C12/C13's subject); >2% exclusions make the run inconclusive.",
    "DESIGN.md section 4/C11")

add("C12", "exploration",
    "generated datum sequences with generated trivia, metamorphic trivia insertion, bounded four-way iteration over arbitrary input, and call histories against a queue model",
    "Exploration over inputs and histories: value sequences in both dialects joined by generated trivia (every whitespace byte, comments, final comment without newline); a metamorphic relation (same tokens, different trivia => same value); arbitrary malformed input iterated in all four ways, continuing after errors, under an explicit cap of len+2 items so that non-termination is observed, not suffered; and generated interleavings of the eight read operations on one parser checked against a queue model (stateful testing as vec(op) + interpreter, shrunk as one value).",
    "A cap proves termination only for the inputs tried. After an error the model only requires termination and absence of panics.",
    "DESIGN.md section 4/C12")

add("C13", "exploration",
    "round-trip of accepted texts (parse, print, parse) with a fixed-point check, over grammar-based alternative spellings, lenient tokens and filtered mutations",
    "Exploration: the input domain is text the parser accepts, not printer output: layouts with every alternative spelling the layout generator knows, lenient and digit-initial and Racket symbols, and mutated/random inputs filtered to the accepted ones (acceptance rate reported and required to stay above 20%). Oracle: parse(print(parse(text))) equals the documented folding of parse(text) within the C05 tolerance, and the printed text is a fixed point after one step when the reader is exact for every float involved. Both feature configurations are run.",
    "Trusts printer_for(Q) and M_fold (DESIGN.md A.1/A.3). The first parse is taken at face value: what the text *should* mean is C05/C08/C12's subject.",
    "DESIGN.md section 4/C13")

add("C03", "exploration",
    "exhaustive short byte strings + grammar/mutation/byte fuzzing under catch_unwind, and pathological nesting shapes in child processes on a 2 MiB stack",
    "Exploration: every byte string of length <= 2 (<= 3 thorough) under representative and seeded option sets through 3 sources x 4 APIs; token-alphabet, mutation, string-literal and random-byte generators over all 1536 option sets; each parse runs under catch_unwind with an explicit cap of len+2 iterator calls. Process-level failures (stack overflow, abort) are observed by re-executing the harness as a child on a 2 MiB thread for 10^3..10^6 repetitions of every opener and of generated mixtures, unterminated and well-formed, and for hundreds of over-deep groups in one iterated stream followed by a shallow probe. The positive clause (depth <= 100 accepted through every construct and mixtures) is generated as well.",
    "Absence of panics/aborts is shown for the inputs tried only. Watchdog expiry is reported as inconclusive (exit 2), never as a violation. The debug-assertions/overflow-checks profile is used so that wrap-arounds surface as panics.",
    "DESIGN.md section 4/C03")

add("C17", "exploration",
    "exhaustive context x payload enumeration of byte sequences plus generated inputs, re-validating every returned str (hook assertions at each unchecked conversion)",
    "Exploration: 18 syntactic contexts (symbols, keywords, both string syntaxes with escapes adjacent to the payload, both character syntaxes, comments) are crossed with EVERY 1- and 2-byte payload (and every 3-byte payload with a high lead byte in the thorough tier, plus structured 4-byte classes), through from_str (when the whole input is UTF-8), from_slice and from_reader, value and datum API. Every str inside a returned value is re-validated; ill-formed payloads inside tokens must be rejected, inside comments skipped, valid ones must arrive verbatim. The verif-hooks feature asserts validity right before each from_utf8_unchecked, so an ill-formed str is caught when created. The output side compares to_string_custom with to_vec_custom for all 576 printer option sets.",
    "Undefined behaviour is detected by re-validation and assertions, not by a memory model.",
    "DESIGN.md section 4/C17")

add("C19", "exploration",
    "exhaustive prefix enumeration of generated well-formed texts (truncation clause) and bounds checks on every error of generated malformed inputs (location clause)",
    "Exploration: for the truncation clause every proper byte prefix of every generated single-datum layout (all token kinds, both dialects, alternative spellings) and of a fixed battery is parsed from slice, reader and (when UTF-8) str; a prefix must parse or fail with category EOF. For the location clause every error produced by the malformed-input generators, single-shot and iterated, must have line/column within the stated bounds and convert to io::Error with the documented kind.",
    "Only the stated direction is asserted (a malformed input may be classified as EOF).",
    "DESIGN.md section 4/C19")

add("C04", "exploration",
    "property-based round trip over a hand-built type family covering every Serde data-model category, on the value path and the text path, plus injectivity on the family",
    "Exploration over inputs and programs (types): ~50 concrete types, each with a hand-written strategy, chosen to cover every Serde category and the nestings that are shape-ambiguous in S-expressions. Every drawn value goes Rust -> Value -> Rust and Rust -> text -> Rust through all entry points; unequal values of one type must not collapse to equal S-expressions.",
    "The family is finite: a category combination outside it is not exercised. Equality is the types' PartialEq (NaN handled separately).",
    "DESIGN.md section 4/C04", engine="proptest-harness")

add("C14", "exploration",
    "comparison with an independent documented-shape serializer, and enumeration of alternative encodings (flip / improper / wrong kind) per sequence and tuple node",
    "Exploration: an independent serde::Serializer records the Serde category of every node; a shape function written from the crate documentation turns that tree into the expected S-expression, compared structurally with to_value. For the acceptance clause EVERY sequence/tuple node of every drawn value is flipped list<->vector (must deserialize to the original), given an improper tail of each atom kind and replaced by each wrong kind (must fail with a data error).",
    "Trusts the shape function (harness/src/serde_fam.rs), written from serde-lexpr's crate-level documentation and the property statement.",
    "DESIGN.md section 4/C14", engine="proptest-harness")

add("C18", "exploration",
    "mutation-based fuzzing of serialized values, wild values and cross-type values against every family type under catch_unwind, with a re-serialization consistency oracle",
    "Exploration: for every family type, inputs are near-valid mutations of real encodings (16 structural operators), wild values of every kind, and encodings of other family types; deserialization must not panic, errors must be data errors, and every accepted value must survive serialize + deserialize unchanged. The success fraction is reported and must stay above 5%.",
    "Only serde-lexpr's Deserializer is under test; visitors come from serde_derive and std.",
    "DESIGN.md section 4/C18", engine="proptest-harness")

add("C09", "exploration",
    "generated macro invocations compiled by rustc and compared at run time with the parser and with a constructor-built model (batched compilation and batched shrinking)",
    "Exploration over programs: model trees over the documented macro syntax are rendered as sexp!(...) invocations, one per source line of a generated crate that is compiled against /repo's working tree; each invocation's value is compared with lexpr::from_str of the equivalent text and with a model value built from plain constructors. Compile errors are attributed to invocations by line (a violation of that invocation), the offending lines are removed and the batch recompiled; failing trees are shrunk in batches. Punctuation symbols are placed first, in the middle, last and after the dot; dotted tails are atoms, lists, dotted lists and unquotes.",
    "Cannot explore at the rate of the other checks (one rustc run per batch); S-expressions that Rust tokenisation cannot express are excluded by construction and counted.",
    "DESIGN.md section 4/C09", engine="rustc-batch")

add("C16", "exploration",
    "child-process size sweep: every list-walking operation at 2*10^5..4*10^6 (10^7) elements on a 2 MiB thread stack, results verified against a model",
    "Exploration: each case is one child process running one public operation on a list of a log-uniformly drawn length, on a thread with an explicit 2 MiB stack, in the optimised profile without debug assertions. The child verifies what the operation returned (length, last element, printed text, equality verdict), so doing nothing fails too. Signal death is a violation with signature op=<operation>.",
    "Shown for the sampled lengths on this platform and optimisation level; frame sizes and tail-call elimination are compiler artefacts (e.g. the derived PartialEq survives because it is compiled to a loop).",
    "DESIGN.md section 4/C16", engine="proptest-harness")

add("C08", "exploration",
    "exhaustive enumeration of all 1536 parser option sets over a token corpus in every syntactic position, judged by a declarative token classifier and a non-interference (metamorphic) relation",
    "Exploration over configurations and inputs with the configuration factor exhaustive: every (token, position) input is parsed under ALL 1536 option sets. A classifier table written from the option documentation says what each token must read as (or Error, or Unspecified); in context the enclosing list/vector/shorthand must contain exactly that element. Independently, all option sets that agree on the options an input syntactically exercises must give identical results - a relation that needs no model of the tokens at all.",
    "Trusts the classifier table (DESIGN.md A.2); where the documentation is silent it says Unspecified and only non-interference is asserted.",
    "DESIGN.md section 4/C08")

NOT_YET = {}

# properties whose check also runs the coverage-guided stage (DESIGN.md 10.6)
FUZZ = ["C01", "C02", "C03", "C04", "C05", "C06", "C07", "C08", "C10", "C11", "C12", "C13", "C14", "C15", "C17", "C18", "C19", "C20"]
FUZZ_BYTE_LEVEL = {"C03", "C06", "C08", "C10", "C11", "C12", "C13", "C17", "C19"}

def main():
    props = [json.loads(l) for l in open(os.path.join(VERIF, "properties.jsonl"))]
    ids = [p["id"] for p in props]
    checks = []
    for pid in ids:
        if pid not in CHECKS:
            continue
        c = CHECKS[pid]
        checks.append({
            "property_id": pid,
            "quick_cmd": "./check %s --tier quick" % pid,
            "thorough_cmd": "./check %s --tier thorough" % pid,
            "evidence_file": "/verif/evidence/%s.json" % pid,
            "replay_cmd_template": "./check %s --replay {path}" % pid,
            "engine": c["engine"],
            "level_claimed": {"category": c["category"], "text": c["text"], "design_ref": c["ref"]},
            "level_note": c["note"],
            "technique": c["technique"] + ("" if pid not in FUZZ else "; followed by a coverage-guided libFuzzer stage with the same oracle inside the target (" + ("byte-level inputs" if pid in FUZZ_BYTE_LEVEL else "decoded or strategy-drawn cases") + ", 8 x 20 000 executions quick, 16 x 300 000 thorough)"),
        })
    not_applicable = [{"property_id": pid, "reason": NOT_YET.get(pid, "check not built yet in this round (planned, see DESIGN.md section 4); not claimed until its check is committed")} for pid in ids if pid not in CHECKS]
    hook_commits = []
    try:
        out = subprocess.run(["git", "-C", "/repo", "log", "--format=%H %s"], stdout=subprocess.PIPE, text=True).stdout
        for line in out.splitlines():
            h, s = line.split(" ", 1)
            if s.startswith("verif hooks"):
                hook_commits.append(h)
    except Exception:
        pass
    manifest = {
        "version": 1,
        "setup_cmd": "./check --build",
        "hooks": {
            "guard": "cargo feature `verif-hooks` of the lexpr crate (off by default)",
            "enable": "the harness depends on lexpr with features = [\"verif-hooks\"] (harness/Cargo.toml); every ./check build therefore compiles /repo's working tree with the hooks on",
            "baseline_off_cmd": "cd /repo && cargo test --workspace --no-fail-fast --offline",
            "source_commits": hook_commits,
            "add_only": True,
        },
        "engines": [
            {"name": "rustc-batch", "path": "/verif/c09", "serves_properties": ["C09"],
             "kind_free_text": "generated crate of sexp! invocations compiled by cargo/rustc against /repo's working tree; orchestrated by the vp binary (harness/src/props/c09.rs)"},
            {"name": "libfuzzer-stage", "path": "/verif/harness/fuzz", "serves_properties": FUZZ,
             "kind_free_text": "one libFuzzer target (sancov instrumentation, built by ./check with cargo +nightly from /repo's working tree, no cargo-fuzz, no ASan) that dispatches every input to the property's own check function (harness/src/fuzz_entry.rs); started by `vp run` after the proptest part, fixed number of executions, crash inputs are re-run through the oracle in the ordinary build and become ordinary replay files"},
            {"name": "proptest-harness", "path": "/verif/harness", "serves_properties": sorted(k for k in CHECKS.keys() if k != "C09"),
             "kind_free_text": "Rust binary `vp` (proptest 1.11 TestRunner with fixed seeds, shrinking, rayon-parallel exhaustive enumerators, child processes for stack/abort observation); driver /verif/check builds it against /repo's working tree in two feature configurations and merges evidence"},
        ],
        "checks": checks,
        "not_applicable": not_applicable,
        "notes": "Known findings: /verif/known_findings.json (read-only at run time). Regression corpus: /verif/corpus/<id>/*.json replayed at the start of every run. Replay files of new violations: /verif/replays/<id>/ (git-ignored).",
    }
    with open(os.path.join(VERIF, "MANIFEST.json"), "w") as f:
        json.dump(manifest, f, indent=1)
        f.write("\n")

if __name__ == "__main__":
    main()
