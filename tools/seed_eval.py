#!/usr/bin/env python3
"""Evaluate one seeded change written by an independent sub-agent.

  tools/seed_eval.py <ID> <agent-worktree> [--props C01,C13,...] [--tier quick]

1. copies SEED/{patch.diff,demo.rs,README.md} to /verif/seeded/<ID>/
2. confirms the claims in a scratch worktree of /repo (outside /repo and
   /verif): the patch applies, the pinned test suite passes with it, the
   demonstration fails with it and passes without it
3. applies the patch to /repo, runs the property's check (and any extra ones),
   restores /repo (`git checkout -- .`)
4. writes /verif/seeded/<ID>/meta.json
"""
import json
import os
import re
import shutil
import subprocess
import sys
import time

REPO = "/repo"
VERIF = os.path.dirname(os.path.dirname(os.path.abspath(__file__)))
SCRATCH = "/tmp/seedcheck"
TARGET = "/tmp/seedcheck-target"


def sh(cmd, **kw):
    return subprocess.run(cmd, stdout=subprocess.PIPE, stderr=subprocess.STDOUT, text=True, **kw)


def main():
    args = sys.argv[1:]
    sid, wt = args[0], args[1]
    props = [sid[:3]]
    if "--props" in args:
        props = args[args.index("--props") + 1].split(",")
    tier = args[args.index("--tier") + 1] if "--tier" in args else "quick"
    out = os.path.join(VERIF, "seeded", sid)
    os.makedirs(out, exist_ok=True)
    for f in ("patch.diff", "demo.rs", "README.md"):
        src = os.path.join(wt, "SEED", f)
        if os.path.exists(src):
            shutil.copy(src, os.path.join(out, f))
    patch = os.path.join(out, "patch.diff")
    demo = os.path.join(out, "demo.rs")
    if not (os.path.exists(patch) and os.path.exists(demo)):
        print("missing deliverables in", wt)
        return 2
    first = open(demo).readline()
    m = re.search(r"([\w-]+/tests/[\w.-]+\.rs)", first)
    demo_rel = m.group(1) if m else None
    if demo_rel is None:
        # fall back to where the agent left it
        for crate in ("lexpr", "serde-lexpr", "lexpr-macros"):
            d = os.path.join(wt, crate, "tests")
            if os.path.isdir(d):
                for f in os.listdir(d):
                    if "seed" in f:
                        demo_rel = os.path.join(crate, "tests", f)
    crate = demo_rel.split("/")[0]
    test_name = os.path.splitext(os.path.basename(demo_rel))[0]

    meta = {"id": sid, "breaks_property": sid[:3], "demo_path": demo_rel, "ran": []}
    if sh(["git", "-C", REPO, "status", "--porcelain"]).stdout.strip():
        print("refusing: /repo is not clean")
        return 2
    # ---- scratch confirmation
    sh(["git", "-C", REPO, "worktree", "remove", "--force", SCRATCH])
    shutil.rmtree(SCRATCH, ignore_errors=True)
    r = sh(["git", "-C", REPO, "worktree", "add", "--detach", SCRATCH, "HEAD"])
    env = dict(os.environ, CARGO_TARGET_DIR=TARGET, CARGO_NET_OFFLINE="true")
    try:
        a = sh(["git", "apply", patch], cwd=SCRATCH)
        meta["patch_applies"] = a.returncode == 0
        if a.returncode != 0:
            print("patch does not apply:", a.stdout)
            meta["verdict"] = "rejected: patch does not apply"
            return finish(meta, out, 1)
        t = sh(["cargo", "test", "--workspace", "--no-fail-fast", "--offline"], cwd=SCRATCH, env=env)
        meta["suite_passes_with_change"] = t.returncode == 0
        meta["ran"].append("cargo test --workspace --no-fail-fast --offline (with patch): exit %d" % t.returncode)
        shutil.copy(demo, os.path.join(SCRATCH, demo_rel))
        d1 = sh(["cargo", "test", "-p", crate, "--test", test_name, "--offline"], cwd=SCRATCH, env=env)
        meta["demo_fails_with_change"] = d1.returncode != 0
        meta["ran"].append("cargo test -p %s --test %s (with patch): exit %d" % (crate, test_name, d1.returncode))
        sh(["git", "apply", "-R", patch], cwd=SCRATCH)
        d2 = sh(["cargo", "test", "-p", crate, "--test", test_name, "--offline"], cwd=SCRATCH, env=env)
        meta["demo_passes_without_change"] = d2.returncode == 0
        meta["ran"].append("cargo test -p %s --test %s (without patch): exit %d" % (crate, test_name, d2.returncode))
        if not d2.returncode == 0:
            print(d2.stdout[-2000:])
    finally:
        sh(["git", "-C", REPO, "worktree", "remove", "--force", SCRATCH])
        shutil.rmtree(SCRATCH, ignore_errors=True)
    confirmed = all(meta.get(k) for k in ("patch_applies", "suite_passes_with_change", "demo_fails_with_change", "demo_passes_without_change"))
    meta["confirmed"] = confirmed
    if not confirmed:
        meta["verdict"] = "rejected: claims not confirmed"
        return finish(meta, out, 1)
    if "--confirm-only" in args:
        # the checks are run separately (tools/seed_matrix.py on a copy of the repository)
        meta["verdict"] = "confirmed; checks not run by this tool"
        return finish(meta, out, 0)
    # ---- run the checks against the change
    results = {}
    try:
        a = sh(["git", "-C", REPO, "apply", patch])
        if a.returncode != 0:
            meta["verdict"] = "patch does not apply to /repo"
            return finish(meta, out, 1)
        for p in props:
            t0 = time.time()
            r = sh([os.path.join(VERIF, "check"), p, "--tier", tier, "--seed", "5"], cwd=VERIF)
            sigs = [l.strip() for l in r.stdout.splitlines() if "signature=" in l][:3]
            results[p] = {"exit": r.returncode, "wall_s": round(time.time() - t0, 1), "signatures": [s[-200:] for s in sigs]}
            meta["ran"].append("./check %s --tier %s --seed 5 (patch applied to /repo): exit %d" % (p, tier, r.returncode))
    finally:
        sh(["git", "-C", REPO, "checkout", "--", "."])
    meta["checks"] = results
    caught = [p for p, r in results.items() if r["exit"] == 1]
    meta["caught_by"] = caught
    meta["verdict"] = "caught by " + ",".join(caught) if caught else "MISSED"
    return finish(meta, out, 0)


def finish(meta, out, rc):
    # what the change needs in order to manifest: first paragraph of the agent's README
    readme = os.path.join(out, "README.md")
    if os.path.exists(readme):
        meta["needs_to_manifest"] = "see README.md (written by the sub-agent)"
    with open(os.path.join(out, "meta.json"), "w") as f:
        json.dump(meta, f, indent=1)
    print(json.dumps({k: meta.get(k) for k in ("id", "confirmed", "verdict", "checks")}, indent=1))
    return rc


if __name__ == "__main__":
    sys.exit(main())
