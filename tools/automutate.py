#!/usr/bin/env python3
"""Automated mutation campaign (systematic sensitivity measurement).

Meant to run in the background from a snapshot:

  vp run --with-repo --timeout 8h -- python3 tools/automutate.py --repo '$VP_RUN_REPO' [--limit N] [--seed S]

It works on a COPY of the repository (never /repo): the harness' Cargo.toml
files in the snapshot are pointed at that copy first. For every single-line
mutant produced by the operators below it
  1. runs the pinned test suite on the mutated copy; a failing suite means the
     mutant is uninteresting ("killed by the 107 tests");
  2. otherwise runs the quick checks one after the other and stops at the
     first one that reports a VIOLATION ("killed by Cxx");
  3. records survivors - the interesting output: each is either an equivalent
     mutant or a gap in the checks.
Results are appended to automutate_results.jsonl in the snapshot directory.
"""
import json
import os
import random
import re
import subprocess
import sys
import time

VERIF = os.path.dirname(os.path.dirname(os.path.abspath(__file__)))

FILES = [
    "lexpr/src/parse/mod.rs",
    "lexpr/src/parse/read.rs",
    "lexpr/src/parse/iter.rs",
    "lexpr/src/parse/error.rs",
    "lexpr/src/print.rs",
    "lexpr/src/cons.rs",
    "lexpr/src/datum.rs",
    "lexpr/src/number.rs",
    "lexpr/src/value/mod.rs",
    "lexpr/src/value/index.rs",
    "lexpr/src/value/partial_eq.rs",
    "lexpr/src/value/from.rs",
    "serde-lexpr/src/value/ser.rs",
    "serde-lexpr/src/value/de.rs",
    "serde-lexpr/src/error.rs",
    "lexpr-macros/src/parser.rs",
    "lexpr-macros/src/generator.rs",
]

# (name, regex, replacement) - applied to one match on one line at a time
OPERATORS = [
    ("eq->ne", r"(?<![=!<>])==(?!=)", "!="),
    ("ne->eq", r"!=(?!=)", "=="),
    ("lt->le", r"(?<![<\-=])<(?![<=])(?=\s)", "<="),
    ("le->lt", r"<=(?!=)", "<"),
    ("gt->ge", r"(?<![>\-=])>(?![>=])(?=\s)", ">="),
    ("ge->gt", r">=(?!=)", ">"),
    ("and->or", r"&&", "||"),
    ("or->and", r"\|\|", "&&"),
    ("plus1->plus0", r"\+ 1\b", "+ 0"),
    ("minus1->minus0", r"- 1\b", "- 0"),
    ("plus->minus", r"(?<=\w) \+ (?=\w)", " - "),
    ("true->false", r"\btrue\b", "false"),
    ("false->true", r"\bfalse\b", "true"),
    ("Some->None-ret", r"return Some\(([^;]*)\);", "return None;"),
    ("drop-question", r"\)\?;", ");"),
    ("0->1", r"(?<![\w.])0(?![\w.x])", "1"),
    ("1->2", r"(?<![\w.])1(?![\w.x])", "2"),
    ("remove-not", r"!(?=[a-z_(])", ""),
    ("write_all->write", r"\.write_all\(([^;]*)\)(?=\?|$|;|\s)", r".write(\1).map(drop)"),
    ("byte-literal-shift", r"b'([a-z])'", lambda m: "b'%s'" % chr(ord(m.group(1)) + 1) if m.group(1) != 'z' else m.group(0)),
]

QUICK_ORDER = ["C08", "C02", "C03", "C12", "C13", "C10", "C06", "C19", "C17", "C11", "C07", "C15", "C20", "C04", "C14", "C18", "C09", "C01", "C05", "C16"]


def sh(cmd, **kw):
    return subprocess.run(cmd, stdout=subprocess.PIPE, stderr=subprocess.STDOUT, text=True, **kw)


def candidate_lines(path, text):
    out = []
    in_test = False
    for i, line in enumerate(text.split("\n")):
        s = line.strip()
        if s.startswith("#[cfg(test)]"):
            in_test = True
        if in_test:
            continue
        if not s or s.startswith("//") or s.startswith("#[") or s.startswith("use ") or "verif-hooks" in s or s.startswith("assert!") or "verif:" in s:
            continue
        out.append(i)
    return out


def main():
    args = sys.argv[1:]
    repo = args[args.index("--repo") + 1]
    limit = int(args[args.index("--limit") + 1]) if "--limit" in args else 10 ** 9
    seed = int(args[args.index("--seed") + 1]) if "--seed" in args else 1
    only_file = args[args.index("--file") + 1] if "--file" in args else None
    assert os.path.abspath(repo) != "/repo", "never mutate /repo itself"
    # point the harness at the copy
    for rel in ("harness/Cargo.toml", "c09/Cargo.toml"):
        p = os.path.join(VERIF, rel)
        t = open(p).read()
        if "/repo/" in t:
            open(p, "w").write(t.replace('"/repo/', '"%s/' % repo.rstrip("/")))
    env = dict(os.environ, CARGO_NET_OFFLINE="true", VERIF_DIR=VERIF)
    results_path = os.path.join(VERIF, "automutate_results.jsonl")
    done = set()
    if os.path.exists(results_path):
        for l in open(results_path):
            try:
                done.add(json.loads(l)["id"])
            except Exception:
                pass
    # enumerate mutants
    mutants = []
    for rel in FILES:
        if only_file and only_file not in rel:
            continue
        path = os.path.join(repo, rel)
        text = open(path).read()
        lines = text.split("\n")
        for i in candidate_lines(path, text):
            for name, rx, rep in OPERATORS:
                # only the code part of the line is mutated, not a trailing comment
                cut = lines[i].find("//")
                code_end = cut if cut >= 0 and lines[i][:cut].count('"') % 2 == 0 else len(lines[i])
                for m in re.finditer(rx, lines[i]):
                    if m.start() >= code_end:
                        continue
                    new = lines[i][: m.start()] + (rep(m) if callable(rep) else m.expand(rep)) + lines[i][m.end():]
                    if new != lines[i]:
                        mutants.append({"id": "%s:%d:%s:%d" % (rel, i + 1, name, m.start()), "file": rel, "line": i, "op": name, "old": lines[i], "new": new})
    rnd = random.Random(seed)
    rnd.shuffle(mutants)
    print("%d mutants enumerated" % len(mutants), flush=True)
    n = 0
    for mu in mutants:
        if mu["id"] in done:
            continue
        if n >= limit:
            break
        n += 1
        path = os.path.join(repo, mu["file"])
        orig = open(path).read()
        lines = orig.split("\n")
        lines[mu["line"]] = mu["new"]
        open(path, "w").write("\n".join(lines))
        rec = dict(mu)
        t0 = time.time()
        try:
            b = sh(["cargo", "build", "--workspace", "--offline"], cwd=repo, env=env)
            if b.returncode != 0:
                rec["verdict"] = "does-not-compile"
            else:
                t = sh(["cargo", "test", "--workspace", "--no-fail-fast", "--offline"], cwd=repo, env=env)
                if t.returncode != 0:
                    rec["verdict"] = "killed-by-suite"
                else:
                    rec["verdict"] = "SURVIVED"
                    for p in QUICK_ORDER:
                        try:
                            r = sh([os.path.join(VERIF, "check"), p, "--tier", "quick", "--seed", "3"], cwd=VERIF, env=env, timeout=1500)
                        except subprocess.TimeoutExpired:
                            rec["verdict"] = "hang-in-" + p
                            break
                        if r.returncode == 1:
                            sig = [l.strip() for l in r.stdout.splitlines() if "signature=" in l][:1]
                            rec["verdict"] = "killed-by-" + p
                            rec["signature"] = sig[0][-160:] if sig else ""
                            break
                        if r.returncode not in (0, 1):
                            rec.setdefault("inconclusive", []).append(p)
        finally:
            open(path, "w").write(orig)
        rec["wall_s"] = round(time.time() - t0, 1)
        with open(results_path, "a") as f:
            f.write(json.dumps(rec) + "\n")
        print(rec["verdict"], mu["id"], "|", mu["old"].strip()[:70], "=>", mu["new"].strip()[:70], flush=True)
    return 0


if __name__ == "__main__":
    sys.exit(main())
