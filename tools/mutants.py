#!/usr/bin/env python3
"""Sensitivity (mutation) protocol, DESIGN.md section 1.6.

  tools/mutants.py [--tests] [--only NAME_SUBSTR] [--prop Cxx] [--tier quick]

For every mutant below: apply the textual patch to /repo (which must be
clean), optionally confirm the pinned test suite still passes (--tests), run
the affected check(s), expect exit 1 (killed) - or exit 0 for the
"must survive" controls - and restore /repo with `git checkout -- .`.
Nothing is ever committed to /repo by this tool.
"""
import os
import subprocess
import sys
import time

REPO = "/repo"
VERIF = os.path.dirname(os.path.dirname(os.path.abspath(__file__)))

PM = "lexpr/src/parse/mod.rs"
PR = "lexpr/src/parse/read.rs"
PE = "lexpr/src/parse/error.rs"
PI = "lexpr/src/parse/iter.rs"
PT = "lexpr/src/print.rs"
VM = "lexpr/src/value/mod.rs"
VI = "lexpr/src/value/index.rs"
VP = "lexpr/src/value/partial_eq.rs"
NB = "lexpr/src/number.rs"
CO = "lexpr/src/cons.rs"
DA = "lexpr/src/datum.rs"
SS = "serde-lexpr/src/value/ser.rs"
SD = "serde-lexpr/src/value/de.rs"
MP = "lexpr-macros/src/parser.rs"
MG = "lexpr-macros/src/generator.rs"

# (name, [properties], file, old, new, expect) ; expect "kill" or "survive"
MUTANTS = [
    # ---- C01
    ("c01-swap-escape-a-b", ["C01"], PT, "        Alert => b\"\\\\a\",\n        Backspace => b\"\\\\b\",\n        LineFeed => b\"\\\\n\",\n        CarriageReturn => b\"\\\\r\",\n        Tab => b\"\\\\t\",\n        AsciiControl(byte) => {\n            static HEX_DIGITS: [u8; 16] = *b\"0123456789ABCDEF\";\n            let bytes = &[\n                b'\\\\',\n                b'x',",
     "        Alert => b\"\\\\b\",\n        Backspace => b\"\\\\a\",\n        LineFeed => b\"\\\\n\",\n        CarriageReturn => b\"\\\\r\",\n        Tab => b\"\\\\t\",\n        AsciiControl(byte) => {\n            static HEX_DIGITS: [u8; 16] = *b\"0123456789ABCDEF\";\n            let bytes = &[\n                b'\\\\',\n                b'x',", "kill"),
    ("c01-del-printed-raw-in-char-equivalent-control", ["C01"], PT, "    if (32..127).contains(&n) {\n        // ASCII, excluding non-printable characters\n        let buf = [b'#', b'\\\\', n as u8];",
     "    if (32..=127).contains(&n) {\n        // ASCII, excluding non-printable characters\n        let buf = [b'#', b'\\\\', n as u8];", "survive"),
    ("c01-drop-semicolon-of-hex-escape", ["C01"], PT, "                HEX_DIGITS[(byte & 0xF) as usize],\n                b';',\n            ];", "                HEX_DIGITS[(byte & 0xF) as usize],\n                b' ',\n            ];", "kill"),
    ("c01-i64-min-negation", ["C01", "C05"], PM, "                    if neg > 0 {", "                    if neg >= 0 && significand != 0 {", "survive"),
    ("c01-neg-boundary", ["C01", "C05"], PM, "                    if neg > 0 {\n                        Number::from(-(significand as f64))", "                    if neg > 0 || significand == 1 << 63 {\n                        Number::from(-(significand as f64))", "kill"),
    ("c01-dot-spacing", ["C01"], PT, "            writer.write_all(b\" \")\n        }\n    }\n\n    /// Called after every list or vector element.", "            writer.write_all(b\"  \")\n        }\n    }\n\n    /// Called after every list or vector element.", "survive"),
    ("c01-symbol-scanner-stops-at-dot-dot", ["C01"], PR, "                    if scratch.is_empty() {\n                        // Fast path: return a slice of the raw S-expression without any\n                        // copying.\n                        let borrowed = &self.slice[start..self.index];\n                        if borrowed == b\".\" {", "                    if scratch.is_empty() {\n                        // Fast path: return a slice of the raw S-expression without any\n                        // copying.\n                        let borrowed = &self.slice[start..self.index];\n                        if borrowed == b\".\" || borrowed == b\"..\" {", "kill"),
    # ---- C02
    ("c02-elisp-escape-chars-missing-comma", ["C02"], PT, "static ELISP_ESCAPE_CHARS: &[u8] = b\"()[]\\\\;|'`#.,\";", "static ELISP_ESCAPE_CHARS: &[u8] = b\"()[\\\\;|'`#.,\";", "kill"),
    ("c02-elisp-control-escape-as-hex", ["C02"], PT, "                b'\\\\',\n                b'u',\n                b'0',\n                b'0',\n                HEX_DIGITS[(byte >> 4) as usize],", "                b'\\\\',\n                b'x',\n                b'0',\n                b'0',\n                HEX_DIGITS[(byte >> 4) as usize],", "kill"),
    ("c02-postfix-colon-on-wrong-side", ["C02"], PT, "            KeywordSyntax::ColonPostfix => {\n                writer.write_all(name.as_bytes())?;\n                writer.write_all(b\":\")\n            }", "            KeywordSyntax::ColonPostfix => {\n                writer.write_all(b\":\")?;\n                writer.write_all(name.as_bytes())\n            }", "kill"),
    ("c02-octal-table-off-by-one", ["C02"], PT, "                        (octet >> 3) & 0b111u8,", "                        (octet >> 3) & 0b011u8,", "kill"),
    ("c02-nil-special-reads-null", ["C02", "C08"], PM, "                        NilSymbol::Special => Token::Nil,", "                        NilSymbol::Special => Token::Null,", "kill"),
    # ---- C15
    ("c15-index-off-by-one", ["C15"], VI, "                for _ in 0..*self {", "                for _ in 1..*self {", "kill"),
    ("c15-match-pair-name-compares-cdr", ["C15"], VI, "        Value::Cons(inner) if inner.car().as_name() == Some(name) => Some(inner.cdr()),", "        Value::Cons(inner) if inner.cdr().as_name() == Some(name) => Some(inner.cdr()),", "kill"),
    ("c15-is-dotted-list-any", ["C15"], VM, "            Value::Cons(pair) => pair.iter().all(|p| !matches!(p.cdr(), Value::Null)),", "            Value::Cons(pair) => pair.iter().any(|p| !matches!(p.cdr(), Value::Null)),", "kill"),
    ("c15-listiter-dot-for-null", ["C15"], CO, "                    Value::Null => {\n                        self.0 = ListCursor::Exhausted;\n                    }", "                    Value::Null => {\n                        self.0 = ListCursor::Dot(cell.cdr());\n                    }", "kill"),
    ("c15-to-vec-stops-at-vector-tail", ["C15"], CO, "            vec.push(pair.car().clone());\n            if !pair.cdr().is_cons() {", "            vec.push(pair.car().clone());\n            if !pair.cdr().is_cons() && !pair.cdr().is_vector() {", "kill"),
    # ---- C20
    ("c20-is-i64-boundary", ["C20"], NB, "            N::PosInt(v) => v <= i64::MAX as u64,", "            N::PosInt(v) => v < i64::MAX as u64,", "kill"),
    ("c20-from-signed-zero-negint", ["C20"], NB, "                    let n = if n >= 0 {", "                    let n = if n > 0 {", "kill"),
    ("c20-eq-u64-for-signed", ["C20"], VP, "    eq_i64[i64 => i8 i16 i32 i64]", "    eq_f64[f64 => i8 i16 i32]\n    eq_i64[i64 => i64]", "kill"),
    ("c20-as-name-forgets-keywords", ["C20"], VM, "            Value::Symbol(s) => Some(s),\n            Value::Keyword(s) => Some(s),\n            Value::String(s) => Some(s),", "            Value::Symbol(s) => Some(s),\n            Value::String(s) => Some(s),", "kill"),
    # ---- C05
    ("c05-overflow-macro-boundary", ["C05"], PM, "    ($a:ident * $radix:ident + $b:ident, $c:expr) => {\n        $a >= $c / $radix && ($a > $c / $radix || $b > $c % $radix)", "    ($a:ident * $radix:ident + $b:ident, $c:expr) => {\n        $a >= $c / $radix && ($a > $c / $radix || $b >= $c % $radix)", "kill"),
    ("c05-minus-zero-becomes-float", ["C05"], PM, "                    if neg > 0 {", "                    if neg >= 0 {", "kill"),
    ("c05-pow10-table-typo", ["C05"], PM, "1e020, 1e021, 1e022, 1e023,", "1e020, 1e021, 1e023, 1e023,", "kill"),
    ("c05-drop-infinity-check-ff", ["C05"], PM, "                        f *= pow;\n                        if f.is_infinite() {\n                            return Err(self.error(ErrorCode::NumberOutOfRange));\n                        }", "                        f *= pow;", "kill"),
    ("c05-exponent-wrapping-add", ["C05"], PM, "            starting_exp.saturating_add(exp)", "            starting_exp.wrapping_add(exp)", "kill"),
    ("c05-long-integer-radix-ten-again", ["C05"], PM, "                    let f = significand as f64 * f64::from(radix).powi(exponent);", "                    let f = significand as f64 * 10f64.powi(exponent);", "kill"),
    # ---- C06
    ("c06-peek-treats-read-error-as-eof", ["C06"], PR, "                Some(Err(err)) => Err(Error::io(err)),\n                Some(Ok(ch)) => {\n                    self.ch = Some(ch);", "                Some(Err(_)) => Ok(None),\n                Some(Ok(ch)) => {\n                    self.ch = Some(ch);", "kill"),
    ("c06-linecol-iterator-drops-error", ["C06"], PI, "            Some(Err(e)) => Some(Err(e)),", "            Some(Err(_)) => None,", "kill"),
    ("c06-ff-terminates-symbols-in-stream-only", ["C06"], PR, "                Some(b' ') | Some(b'\\n') | Some(b'\\t') | Some(b'\\r') | Some(b')') | Some(b']')\n                | Some(b'(') | Some(b'[') | Some(b';') | None => {\n                    if scratch == b\".\" {", "                Some(b' ') | Some(b'\\n') | Some(b'\\t') | Some(b'\\r') | Some(b')') | Some(b']')\n                | Some(b'(') | Some(b'[') | Some(b';') | Some(0x0C) | None => {\n                    if scratch == b\".\" {", "kill"),
    ("c06-stream-elisp-forgets-non-ascii", ["C06"], PR, "                    if ch > 127 {\n                        seen_non_ascii = true;\n                    }\n                    scratch.push(ch);", "                    scratch.push(ch);", "kill"),
    ("c06-next-swallows-error-after-peeked", ["C06"], PR, "            None => match self.iter.next() {\n                Some(Err(err)) => Err(Error::io(err)),\n                Some(Ok(ch)) => Ok(Some(ch)),", "            None => match self.iter.next() {\n                Some(Err(_)) => Ok(Some(b' ')),\n                Some(Ok(ch)) => Ok(Some(ch)),", "kill"),
    # ---- C07
    ("c07-string-fragment-write", ["C07"], PT, "        writer.write_all(fragment.as_bytes())", "        writer.write(fragment.as_bytes()).map(drop)", "kill"),
    ("c07-ignore-separator-error", ["C07"], PT, "                    self.formatter.begin_seq_element(&mut self.writer, i == 0)?;\n                    self.print(pair.car())?;", "                    let _ = self.formatter.begin_seq_element(&mut self.writer, i == 0);\n                    self.print(pair.car())?;", "kill"),
    ("c07-customised-nil-diverges", ["C07"], PT, "            NilSyntax::Token => writer.write_all(b\"#nil\"),", "            NilSyntax::Token => writer.write_all(b\"#nil \"),", "kill"),
    ("c07-elisp-bytes-write", ["C07"], PT, "                        writer.write_all(&OCTAL_CHARS[index..=index])?;", "                        writer.write(&OCTAL_CHARS[index..=index])?;", "kill"),
    # ---- C10
    ("c10-datum-accepts-leading-dot", ["C10"], PM, "                            if !have_value {\n                                return Err(self.peek_error(ErrorCode::ExpectedSomeValue));\n                            }\n                            let (cdr, cdr_meta) = self.expect_datum()?.into_inner();", "                            let (cdr, cdr_meta) = self.expect_datum()?.into_inner();", "kill"),
    ("c10-datum-list-iter-skips-dot-marker", ["C10"], DA, "            ListCursor::Dot(value, info) => {\n                self.0 = ListCursor::Rest(value, info);\n                None\n            }", "            ListCursor::Dot(value, info) => {\n                self.0 = ListCursor::Exhausted;\n                Some(Ref { value, info })\n            }", "kill"),
    ("c10-datum-quote-eof-code", ["C10"], PM, "                let quoted = self\n                    .next_datum()?\n                    .ok_or_else(|| self.peek_error(ErrorCode::EofWhileParsingList))?;", "                let quoted = self\n                    .next_datum()?\n                    .ok_or_else(|| self.peek_error(ErrorCode::EofWhileParsingValue))?;", "kill"),
    ("c10-datum-vector-no-depth-charge", ["C10", "C03"], PM, "                let ret = self.parse_vector_meta(close);\n\n                self.remaining_depth += 1;", "                let ret = self.parse_vector_meta(close);\n", "kill"),
    # ---- C03
    ("c03-vector-depth-not-restored", ["C03"], PM, "                let ret = self.parse_vector(close);\n\n                self.remaining_depth += 1;", "                let ret = self.parse_vector(close);\n", "kill"),
    ("c03-quote-uncharged-again", ["C03"], PM, "                self.enter_nested()?;\n                let datum = self.next_value();\n                self.remaining_depth += 1;", "                let datum = self.next_value();", "kill"),
    ("c03-utf8-length-shift", ["C12"], PR, "        0b1110_0000..=0b1111_0111 => (initial - 0b1100_0000) >> 4,", "        0b1110_0000..=0b1111_0111 => (initial - 0b1100_0000) >> 3,", "kill"),
    ("c03-hex-escape-guard-removed-no-panic-control", ["C03"], PR, "fn decode_r6rs_hex_escape<'de, R: Read<'de>>(read: &mut R) -> Result<u32> {\n    let mut n = 0;\n    loop {\n        let next = next_or_eof(read)?;\n        if next == b';' {\n            return Ok(n);\n        }\n        match decode_hex_val(next) {\n            None => return error(read, ErrorCode::EofWhileParsingString),\n            Some(val) => {\n                if n >= (1 << 24) {", "fn decode_r6rs_hex_escape<'de, R: Read<'de>>(read: &mut R) -> Result<u32> {\n    let mut n = 0;\n    loop {\n        let next = next_or_eof(read)?;\n        if next == b';' {\n            return Ok(n);\n        }\n        match decode_hex_val(next) {\n            None => return error(read, ErrorCode::EofWhileParsingString),\n            Some(val) => {\n                if n >= (1 << 30) {", "survive"),
    ("c03-needs-escape-unreachable", ["C03"], PR, "fn needs_escape(c: u8) -> bool {\n    c == b'\\\\' || c == b'\"'", "fn needs_escape(c: u8) -> bool {\n    c == b'\\\\' || c == b'\"' || c == 0", "kill"),
    # ---- C11
    ("c11-start-before-whitespace", ["C11"], DA, "        let (quoted_value, quoted_info) = quoted.into_inner();\n        let quoted_end = quoted_info.span().end();", "        let (quoted_value, quoted_info) = quoted.into_inner();\n        let quoted_end = quoted_info.span().start();", "kill"),
    ("c11-linecol-col-reset-to-one", ["C11"], PI, "                self.line += 1;\n                self.col = 0;", "                self.line += 1;\n                self.col = 1;", "kill"),
    ("c11-slice-columns-count-chars", ["C11"], PR, "                _ => {\n                    position.column += 1;\n                }", "                c => {\n                    if c & 0xC0 != 0x80 {\n                        position.column += 1;\n                    }\n                }", "kill"),
    ("c11-io-position-counts-peeked-again", ["C11"], PR, "            Some(_) => self.ch_position,\n            None => self.iter_position(),", "            Some(_) => self.iter_position(),\n            None => self.iter_position(),", "kill"),
    # ---- C12
    ("c12-cr-not-whitespace", ["C12"], PM, "                Some(b' ') | Some(b'\\n') | Some(b'\\t') | Some(b'\\r') | Some(0x0C) => {\n                    self.eat_char();", "                Some(b' ') | Some(b'\\n') | Some(b'\\t') | Some(0x0C) => {\n                    self.eat_char();", "kill"),
    ("c12-semicolon-not-symbol-terminator-in-slice", ["C12", "C06"], PR, "                | Some(b')') | Some(b']') | Some(b'(') | Some(b'[') | Some(b';')) => {\n                    if scratch.is_empty() {", "                | Some(b')') | Some(b']') | Some(b'(') | Some(b'[')) => {\n                    if scratch.is_empty() {", "kill"),
    ("c12-stuck-byte-not-consumed", ["C12"], PM, "                    self.eat_char();\n                    return Err(err);", "                    return Err(err);", "kill"),
    ("c12-expect-end-ignores-comment", ["C12"], PM, "        match self.parse_whitespace()? {\n            Some(_) => Err(self.peek_error(ErrorCode::TrailingCharacters)),\n            None => Ok(()),", "        match self.peek()? {\n            Some(b' ') | None => Ok(()),\n            Some(_) => Err(self.peek_error(ErrorCode::TrailingCharacters)),", "kill"),
    # ---- C13
    ("c13-char-printed-with-semicolon", ["C13", "C01"], PT, "        write!(writer, \"#\\\\x{:x}\", n)", "        write!(writer, \"#\\\\x{:x};\", n)", "kill"),
    ("c13-symbol-printed-in-bars", ["C13"], PT, "        // TODO: We might need to escape and/or use pipe notation.\n        writer.write_all(name.as_bytes())", "        // TODO: We might need to escape and/or use pipe notation.\n        if name.contains('#') {\n            writer.write_all(b\"|\")?;\n            writer.write_all(name.as_bytes())?;\n            return writer.write_all(b\"|\");\n        }\n        writer.write_all(name.as_bytes())", "kill"),
    # ---- C17
    ("c17-slice-as-str-unchecked", ["C17"], PR, "    str::from_utf8(slice).or_else(|_| error(read, ErrorCode::InvalidUnicodeCodePoint))", "    let _ = read;\n    Ok(unsafe { str::from_utf8_unchecked(slice) })", "kill"),
    ("c17-r6rs-escape-pushes-raw-byte", ["C17"], PR, "            scratch.extend_from_slice(c.encode_utf8(&mut [0_u8; 4]).as_bytes());\n        }\n        _ => {\n            return error(read, ErrorCode::InvalidEscape);", "            if (c as u32) < 256 {\n                scratch.push(c as u32 as u8);\n            } else {\n                scratch.extend_from_slice(c.encode_utf8(&mut [0_u8; 4]).as_bytes());\n            }\n        }\n        _ => {\n            return error(read, ErrorCode::InvalidEscape);", "kill"),
    # ---- C19
    ("c19-eof-string-as-syntax", ["C19"], PE, ["            | ErrorCode::EofWhileParsingString\n", "            | ErrorCode::RecursionLimitExceeded => Category::Syntax,"], ["", "            | ErrorCode::RecursionLimitExceeded\n            | ErrorCode::EofWhileParsingString => Category::Syntax,"], "kill"),
    ("c19-peek-error-index-plus-two", ["C19"], PR, "        self.position_of_index(cmp::min(self.slice.len(), self.index + 1))", "        self.position_of_index(cmp::min(self.slice.len(), self.index + 2))", "survive"),
    ("c19-location-swapped", ["C19"], PE, "                location: Some(Location { line, column }),", "                location: Some(Location { line: column, column: line }),", "kill"),
    ("c19-expect-ident-eof-as-syntax-again", ["C19"], PM, "                None => return Err(self.error(ErrorCode::EofWhileParsingValue)),\n            }\n        }\n\n        Ok(())", "                None => return Err(self.error(ErrorCode::ExpectedSomeIdent)),\n            }\n        }\n\n        Ok(())", "kill"),
    # ---- C04 / C14 / C18
    ("c04-serialize-u32-via-i32", ["C04", "C14"], SS, "    fn serialize_u32(self, v: u32) -> Result<Value> {\n        self.serialize_i64(i64::from(v))", "    fn serialize_u32(self, v: u32) -> Result<Value> {\n        self.serialize_i64(i64::from(v as i32))", "kill"),
    ("c04-some-without-wrapping-list", ["C04", "C14"], SS, "        Ok(Value::cons(value.serialize(self)?, Value::Null))", "        value.serialize(self)", "kill"),
    ("c04-option-accepts-nil", ["C18"], SD, "            Value::Null => visitor.visit_none(),\n            Value::Cons(cons) if cons.cdr().is_null() => {", "            Value::Null | Value::Nil => visitor.visit_none(),\n            Value::Cons(cons) if cons.cdr().is_null() => {", "survive"),
    ("c14-unit-variant-as-string", ["C14", "C04"], SS, "        Ok(Value::symbol(variant))\n    }\n\n    fn serialize_newtype_struct", "        Ok(Value::string(variant))\n    }\n\n    fn serialize_newtype_struct", "kill"),
    ("c14-struct-fields-as-strings", ["C14"], SS, "impl ser::SerializeStruct for SerializeStruct {\n    type Ok = Value;\n    type Error = Error;\n\n    fn serialize_field<V>(&mut self, field: &'static str, value: &V) -> Result<()>\n    where\n        V: ser::Serialize + ?Sized,\n    {\n        self.fields\n            .push(Value::cons(Value::symbol(field), to_value(value)?));", "impl ser::SerializeStruct for SerializeStruct {\n    type Ok = Value;\n    type Error = Error;\n\n    fn serialize_field<V>(&mut self, field: &'static str, value: &V) -> Result<()>\n    where\n        V: ser::Serialize + ?Sized,\n    {\n        self.fields\n            .push(Value::cons(Value::string(field), to_value(value)?));", "kill"),
    ("c14-tuple-as-list", ["C14"], SS, "    fn end(self) -> Result<Value> {\n        Ok(Value::Vector(self.items.into()))", "    fn end(self) -> Result<Value> {\n        Ok(Value::list(self.items))", "kill"),
    ("c14-list-access-accepts-improper", ["C14"], SD, "                    Value::Null => self.cursor = None,\n                    _ => return Err(invalid_value(cell.cdr(), \"cons cell or end of list\")),", "                    _ => self.cursor = None,", "kill"),
    ("c14-seq-rejects-vector", ["C14"], SD, "            Value::Null => visitor.visit_seq(ListAccess::empty()),\n            Value::Vector(elements) => visitor.visit_seq(VecAccess::new(elements)),\n            Value::Cons(cell) => visitor.visit_seq(ListAccess::new(cell)),\n            _ => Err(invalid_value(self.input, \"list\")),\n        }\n    }\n\n    fn deserialize_tuple<V>", "            Value::Null => visitor.visit_seq(ListAccess::empty()),\n            Value::Cons(cell) => visitor.visit_seq(ListAccess::new(cell)),\n            _ => Err(invalid_value(self.input, \"list\")),\n        }\n    }\n\n    fn deserialize_tuple<V>", "kill"),
    ("c18-expect-reachable-in-map-access", ["C18"], SD, "            None => Ok(None),\n            Some(cell) => cell\n                .car()\n                .as_cons()\n                .ok_or_else(|| invalid_value(cell.car(), \"cons cell\"))", "            None => Ok(None),\n            Some(cell) => Ok(cell\n                .car()\n                .as_cons()\n                .expect(\"alist entry\"))", "kill"),
    ("c18-io-category-for-data-error", ["C18", "C14"], SD, "fn invalid_value(value: &Value, expected: &'static str) -> Error {", "fn invalid_value(value: &Value, expected: &'static str) -> Error {\n    if let Value::Keyword(_) = value {\n        return Error::from(std::io::Error::new(std::io::ErrorKind::Other, expected));\n    }", "kill"),
    ("c18-number-negint-as-u64", ["C04"], SD, "        fn visit_i64(self, n: i64) -> Result<V::Value> {\n            self.visitor.visit_i64(n)", "        fn visit_i64(self, n: i64) -> Result<V::Value> {\n            self.visitor.visit_u64(n as u64)", "kill"),
]


def sh(cmd, **kw):
    return subprocess.run(cmd, stdout=subprocess.PIPE, stderr=subprocess.STDOUT, text=True, **kw)


def repo_clean():
    return sh(["git", "-C", REPO, "status", "--porcelain"]).stdout.strip() == ""


def restore():
    sh(["git", "-C", REPO, "checkout", "--", "."])


def main():
    args = sys.argv[1:]
    with_tests = "--tests" in args
    only = args[args.index("--only") + 1] if "--only" in args else None
    prop_f = args[args.index("--prop") + 1] if "--prop" in args else None
    tier = args[args.index("--tier") + 1] if "--tier" in args else "quick"
    if not repo_clean():
        print("refusing: /repo has uncommitted changes")
        return 2
    results = []
    try:
        for name, props, path, old, new, expect in MUTANTS:
            if only and only not in name:
                continue
            if prop_f and prop_f not in props:
                continue
            full = os.path.join(REPO, path)
            src = open(full).read()
            olds = old if isinstance(old, (list, tuple)) else [old]
            news = new if isinstance(new, (list, tuple)) else [new]
            bad = [o for o in olds if src.count(o) != 1]
            if bad:
                results.append((name, "PATCH-DOES-NOT-APPLY (%d matches)" % src.count(bad[0])))
                print(results[-1])
                continue
            for o, n in zip(olds, news):
                src = src.replace(o, n)
            open(full, "w").write(src)
            try:
                status = []
                if with_tests:
                    t = sh(["cargo", "test", "--workspace", "--no-fail-fast", "--offline"], cwd=REPO)
                    ok = t.returncode == 0
                    status.append("tests:" + ("pass" if ok else "FAIL(mutant caught by the suite)"))
                for p in props:
                    if prop_f and p != prop_f:
                        continue
                    t0 = time.time()
                    r = sh([os.path.join(VERIF, "check"), p, "--tier", tier, "--seed", "7"], cwd=VERIF)
                    killed = r.returncode == 1
                    verdict = "killed" if killed else ("survived" if r.returncode == 0 else "exit%d" % r.returncode)
                    good = (killed and expect == "kill") or (r.returncode == 0 and expect == "survive")
                    sigs = [l.strip() for l in r.stdout.splitlines() if "signature=" in l][:2]
                    status.append("%s:%s%s (%.0fs) %s" % (p, verdict, "" if good else " <<< UNEXPECTED", time.time() - t0, " | ".join(s[-110:] for s in sigs)))
                results.append((name, "; ".join(status)))
                print(results[-1], flush=True)
            finally:
                restore()
    finally:
        restore()
    bad = [r for r in results if "UNEXPECTED" in r[1] or "DOES-NOT-APPLY" in r[1]]
    print("\n%d mutants, %d unexpected" % (len(results), len(bad)))
    for b in bad:
        print("  ", b)
    return 1 if bad else 0


if __name__ == "__main__":
    sys.exit(main())
