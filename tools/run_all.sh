#!/bin/sh
# Run every check of MANIFEST.json once (tier and seed from the arguments) and
# print one summary line per property. Usage: tools/run_all.sh [quick|thorough] [seed]
TIER=${1:-quick}
SEED=${2:-0}
cd "$(dirname "$0")/.."
rc=0
for p in $(python3 -c "import json;print(' '.join(c['property_id'] for c in json.load(open('MANIFEST.json'))['checks']))"); do
  out=$(./check "$p" --tier "$TIER" --seed "$SEED" 2>&1)
  code=$?
  echo "$p exit=$code $(echo "$out" | grep -E "^\[$p $TIER\]" | tail -1)"
  echo "$out" | grep -E "^(VIOLATION|KNOWN-FINDING|INCONCLUSIVE)" | cut -c1-300
  [ $code -ne 0 ] && rc=1
done
exit $rc
