//! The Serde type family F (C04/C14/C18), an independent serializer producing
//! the *documented* shape as a tagged tree (M_docshape), and the shape
//! function from that tree to a model value.

use std::collections::{BTreeMap, BTreeSet, HashMap, HashSet};

use proptest::collection::{btree_map, btree_set, hash_map, hash_set, vec};
use proptest::prelude::*;
use serde::de::DeserializeOwned;
use serde::ser::{self, Serialize};
use serde::Deserialize;

use crate::gen::*;
use crate::mv::MV;

// ------------------------------------------------------------------ the family

#[derive(serde::Serialize, Deserialize, PartialEq, Debug, Clone)]
pub struct UnitS;
#[derive(serde::Serialize, Deserialize, PartialEq, Debug, Clone)]
pub struct NewT(pub i32);
#[derive(serde::Serialize, Deserialize, PartialEq, Debug, Clone)]
pub struct NewStr(pub String);
#[derive(serde::Serialize, Deserialize, PartialEq, Debug, Clone)]
pub struct Tup0();
#[derive(serde::Serialize, Deserialize, PartialEq, Debug, Clone)]
pub struct Tup1(pub u8);
#[derive(serde::Serialize, Deserialize, PartialEq, Debug, Clone)]
pub struct Tup3(pub i16, pub String, pub bool);
#[derive(serde::Serialize, Deserialize, PartialEq, Debug, Clone)]
pub struct Point {
    pub x: i32,
    pub y: i32,
}
#[derive(serde::Serialize, Deserialize, PartialEq, Debug, Clone)]
pub struct WithOpt {
    pub a: Option<u8>,
    pub b: (),
    pub c: Option<String>,
    pub d: UnitS,
    pub e: Option<Option<bool>>,
}
fn is_zero(x: &u32) -> bool {
    *x == 0
}
/// Fields that the derive leaves out when they hold their default
/// (`SerializeStruct::skip_field`) and fills in again when reading.
#[derive(serde::Serialize, Deserialize, PartialEq, Debug, Clone)]
pub struct WithSkip {
    pub id: u8,
    #[serde(default, skip_serializing_if = "is_zero")]
    pub retries: u32,
    #[serde(default, skip_serializing_if = "String::is_empty")]
    pub name: String,
    #[serde(default, skip_serializing_if = "Option::is_none")]
    pub opt: Option<u8>,
    #[serde(default, skip_serializing_if = "Vec::is_empty")]
    pub items: Vec<i8>,
}
#[derive(serde::Serialize, Deserialize, PartialEq, Debug, Clone)]
#[serde(rename_all = "kebab-case")]
pub enum E {
    Unit,
    Other,
    New(u32),
    NewOpt(Option<u32>),
    NewSeq(Vec<u8>),
    NewTup((u8, i8)),
    NewStr(String),
    Tup(u32, String),
    Tup0(),
    St { foo: bool, bar: u32 },
    St0 {},
}
#[derive(serde::Serialize, Deserialize, PartialEq, Eq, PartialOrd, Ord, Hash, Debug, Clone)]
#[serde(rename_all = "kebab-case")]
pub enum Key {
    Alpha,
    BetaGamma,
    Delta,
}
/// Newtype structs in map-key position (a key is deserialized like any other
/// value: through the type's own Deserialize impl).
#[derive(serde::Serialize, Deserialize, PartialEq, Eq, PartialOrd, Ord, Hash, Debug, Clone)]
pub struct NameKey(pub String);
#[derive(serde::Serialize, Deserialize, PartialEq, Eq, PartialOrd, Ord, Hash, Debug, Clone)]
pub struct IdKey(pub u16);
#[derive(serde::Serialize, Deserialize, PartialEq, Eq, PartialOrd, Ord, Hash, Debug, Clone)]
pub struct WrappedKey(pub Key);
/// Newtype structs around things that are themselves encoded as a sequence
/// of one element (a newtype struct is transparent: whatever unwrapping it
/// does must not eat a level of its content).
#[derive(serde::Serialize, Deserialize, PartialEq, Debug, Clone)]
pub struct Chan(pub [u16; 1]);
#[derive(serde::Serialize, Deserialize, PartialEq, Debug, Clone)]
pub struct Wrap1(pub (u8,));
#[derive(serde::Serialize, Deserialize, PartialEq, Debug, Clone)]
pub struct WrapVV(pub Vec<Vec<u8>>);
#[derive(serde::Serialize, Deserialize, PartialEq, Debug, Clone)]
pub struct WrapOptSeq(pub Option<Vec<i8>>);
/// Field and variant names spelled like numeric or other constants of some
/// Lisp or of Rust's float printing: all of them are ordinary symbols here.
#[derive(serde::Serialize, Deserialize, PartialEq, Debug, Clone)]
pub struct Interval {
    pub inf: i8,
    pub sup: i8,
    pub nan: bool,
    #[serde(rename = "NaN")]
    pub big_nan: u8,
    pub e: u8,
    #[serde(rename = "-inf")]
    pub neg_inf: u8,
    pub infinity: Option<u8>,
}
#[derive(serde::Serialize, Deserialize, PartialEq, Eq, PartialOrd, Ord, Debug, Clone)]
pub enum Class {
    #[serde(rename = "inf")]
    Inf,
    #[serde(rename = "-inf")]
    NegInf,
    NaN,
    #[serde(rename = "nan")]
    LowerNan,
    #[serde(rename = "+inf")]
    PosInf,
    Infinity,
    #[serde(rename = "e")]
    E,
    #[serde(rename = "-")]
    Minus,
    #[serde(rename = "...")]
    Dots,
    #[serde(rename = "->x")]
    Arrow,
    #[serde(rename = "true")]
    True,
    #[serde(rename = "null")]
    Null,
    #[serde(rename = "inf.0")]
    Tagged(u8),
}
#[derive(serde::Serialize, Deserialize, PartialEq, Debug, Clone)]
pub struct Nested {
    pub p: Point,
    pub list: Vec<Point>,
    pub name: String,
    pub t: Tup3,
    pub n: NewT,
}
#[derive(serde::Serialize, Deserialize, PartialEq, Debug, Clone)]
pub struct Holder {
    pub m: BTreeMap<String, E>,
    pub e: E,
    pub v: Vec<E>,
    pub k: BTreeMap<Key, Vec<i8>>,
}
#[derive(serde::Serialize, Deserialize, PartialEq, Debug, Clone)]
pub enum Tree {
    Leaf(i32),
    Node(Box<Tree>, Box<Tree>),
    Empty,
}

pub trait FamType: Serialize + DeserializeOwned + PartialEq + std::fmt::Debug + Clone + 'static {}
impl<T: Serialize + DeserializeOwned + PartialEq + std::fmt::Debug + Clone + 'static> FamType for T {}

pub trait TypeVisitor {
    fn visit<T: FamType>(&mut self, name: &'static str, strat: BS<T>);
}

fn ints<T: TryFrom<i128> + std::fmt::Debug + Clone + 'static>(min: i128, max: i128) -> BS<T>
where
    <T as TryFrom<i128>>::Error: std::fmt::Debug,
{
    prop_oneof![
        3 => g_int().prop_map(move |i| i.clamp(min, max)),
        2 => (min..=max),
        1 => prop_oneof![Just(min), Just(max), Just(0i128.clamp(min, max)), Just((-1i128).clamp(min, max)), Just(1i128.clamp(min, max))],
    ]
    .prop_map(|i| T::try_from(i).unwrap())
    .boxed()
}

/// Every power of two up to 2^64 and of ten up to 10^19, both signs, with their neighbours.
pub fn int_edges() -> Vec<i128> {
    let mut edges: Vec<i128> = Vec::new();
    for k in 0..=64u32 {
        for d in -2i128..=2 {
            edges.push((1i128 << k) + d);
            edges.push(-(1i128 << k) + d);
        }
    }
    for k in 1..=19u32 {
        for d in -1i128..=1 {
            edges.push(10i128.pow(k) + d);
            edges.push(-(10i128.pow(k)) + d);
        }
    }
    edges.sort();
    edges.dedup();
    edges
}

pub fn g_f64_any() -> BS<f64> {
    prop_oneof![
        6 => g_float().prop_map(f64::from_bits),
        1 => prop_oneof![Just(f64::INFINITY), Just(f64::NEG_INFINITY), Just(-0.0f64), Just(0.0f64)],
    ]
    .boxed()
}

pub fn g_f32_any() -> BS<f32> {
    prop_oneof![
        4 => any::<u32>().prop_map(f32::from_bits).prop_map(|f| if f.is_nan() { 1.5f32 } else { f }),
        2 => g_float().prop_map(|b| f64::from_bits(b) as f32).prop_map(|f| if f.is_nan() { 2.5f32 } else { f }),
        1 => prop_oneof![Just(f32::INFINITY), Just(f32::NEG_INFINITY), Just(-0.0f32), Just(0.1f32), Just(f32::MAX), Just(f32::MIN_POSITIVE), Just(1e-45f32)],
    ]
    .boxed()
}

pub fn g_str() -> BS<String> {
    g_string(12)
}

fn g_e() -> BS<E> {
    prop_oneof![
        Just(E::Unit),
        Just(E::Other),
        any::<u32>().prop_map(E::New),
        proptest::option::of(any::<u32>()).prop_map(E::NewOpt),
        vec(any::<u8>(), 0..4).prop_map(E::NewSeq),
        (any::<u8>(), any::<i8>()).prop_map(E::NewTup),
        g_str().prop_map(E::NewStr),
        (any::<u32>(), g_str()).prop_map(|(a, b)| E::Tup(a, b)),
        Just(E::Tup0()),
        (any::<bool>(), any::<u32>()).prop_map(|(foo, bar)| E::St { foo, bar }),
        Just(E::St0 {}),
    ]
    .boxed()
}

fn g_key() -> BS<Key> {
    prop_oneof![Just(Key::Alpha), Just(Key::BetaGamma), Just(Key::Delta)].boxed()
}

fn g_point() -> BS<Point> {
    (ints::<i32>(i32::MIN as i128, i32::MAX as i128), any::<i32>()).prop_map(|(x, y)| Point { x, y }).boxed()
}

fn g_tup3() -> BS<Tup3> {
    (any::<i16>(), g_str(), any::<bool>()).prop_map(|(a, b, c)| Tup3(a, b, c)).boxed()
}

fn g_tree() -> BS<Tree> {
    let leaf = prop_oneof![3 => any::<i32>().prop_map(Tree::Leaf), 1 => Just(Tree::Empty)];
    leaf.prop_recursive(24, 64, 2, |inner| (inner.clone(), inner).prop_map(|(a, b)| Tree::Node(Box::new(a), Box::new(b))))
        .boxed()
}

/// Visit every type of the family with its strategy.
/// number of `visit` calls made by [`for_each_type`]
pub const N_FAM_TYPES: usize = 62;

pub fn for_each_type<V: TypeVisitor>(v: &mut V) {
    v.visit::<i8>("i8", ints(i8::MIN as i128, i8::MAX as i128));
    v.visit::<i16>("i16", ints(i16::MIN as i128, i16::MAX as i128));
    v.visit::<i32>("i32", ints(i32::MIN as i128, i32::MAX as i128));
    v.visit::<i64>("i64", ints(i64::MIN as i128, i64::MAX as i128));
    v.visit::<u8>("u8", ints(0, u8::MAX as i128));
    v.visit::<u16>("u16", ints(0, u16::MAX as i128));
    v.visit::<u32>("u32", ints(0, u32::MAX as i128));
    v.visit::<u64>("u64", ints(0, u64::MAX as i128));
    v.visit::<f32>("f32", g_f32_any());
    v.visit::<f64>("f64", g_f64_any());
    v.visit::<bool>("bool", any::<bool>().boxed());
    v.visit::<char>("char", g_char().prop_map(|c| char::from_u32(c).unwrap()).boxed());
    v.visit::<String>("String", g_str());
    v.visit::<serde_bytes::ByteBuf>("ByteBuf", g_bytes(16).prop_map(serde_bytes::ByteBuf::from).boxed());
    v.visit::<()>("unit", Just(()).boxed());
    v.visit::<UnitS>("UnitS", Just(UnitS).boxed());
    v.visit::<Option<Option<u8>>>("Option<Option<u8>>", proptest::option::of(proptest::option::of(any::<u8>())).boxed());
    v.visit::<Option<()>>("Option<()>", proptest::option::of(Just(())).boxed());
    v.visit::<Option<Vec<u8>>>("Option<Vec<u8>>", proptest::option::of(vec(any::<u8>(), 0..4)).boxed());
    v.visit::<Vec<Option<i16>>>("Vec<Option<i16>>", vec(proptest::option::of(any::<i16>()), 0..6).boxed());
    v.visit::<Vec<String>>("Vec<String>", prop_oneof![4 => vec(g_str(), 0..5), 1 => vec(g_str(), 100..300)].boxed());
    v.visit::<Vec<Vec<u8>>>("Vec<Vec<u8>>", vec(vec(any::<u8>(), 0..3), 0..4).boxed());
    v.visit::<Vec<()>>("Vec<()>", vec(Just(()), 0..4).boxed());
    v.visit::<BTreeSet<i64>>("BTreeSet<i64>", btree_set(ints::<i64>(i64::MIN as i128, i64::MAX as i128), 0..6).boxed());
    v.visit::<HashSet<String>>("HashSet<String>", hash_set(g_str(), 0..5).boxed());
    v.visit::<(u8,)>("(u8,)", any::<u8>().prop_map(|x| (x,)).boxed());
    v.visit::<(i32, String)>("(i32,String)", (any::<i32>(), g_str()).boxed());
    v.visit::<(u8, char, bool)>("(u8,char,bool)", (any::<u8>(), g_char().prop_map(|c| char::from_u32(c).unwrap()), any::<bool>()).boxed());
    v.visit::<(Vec<u8>, (i8, i8))>("(Vec<u8>,(i8,i8))", (vec(any::<u8>(), 0..3), (any::<i8>(), any::<i8>())).boxed());
    v.visit::<NewT>("NewT", any::<i32>().prop_map(NewT).boxed());
    v.visit::<NewStr>("NewStr", g_str().prop_map(NewStr).boxed());
    v.visit::<Tup0>("Tup0", Just(Tup0()).boxed());
    v.visit::<Tup1>("Tup1", any::<u8>().prop_map(Tup1).boxed());
    v.visit::<Tup3>("Tup3", g_tup3());
    v.visit::<BTreeMap<i64, String>>("BTreeMap<i64,String>", btree_map(ints::<i64>(i64::MIN as i128, i64::MAX as i128), g_str(), 0..5).boxed());
    v.visit::<BTreeMap<char, u8>>("BTreeMap<char,u8>", btree_map(g_char().prop_map(|c| char::from_u32(c).unwrap()), any::<u8>(), 0..5).boxed());
    v.visit::<BTreeMap<String, Vec<u8>>>("BTreeMap<String,Vec<u8>>", btree_map(g_str(), vec(any::<u8>(), 0..3), 0..5).boxed());
    v.visit::<BTreeMap<Key, Option<u8>>>("BTreeMap<Key,Option<u8>>", btree_map(g_key(), proptest::option::of(any::<u8>()), 0..4).boxed());
    v.visit::<HashMap<String, i32>>("HashMap<String,i32>", hash_map(g_str(), any::<i32>(), 0..5).boxed());
    // std types whose Serialize/Deserialize impls ask the format whether it is
    // human readable (text formats are: an address is a string there)
    v.visit::<std::net::Ipv4Addr>("Ipv4Addr", any::<[u8; 4]>().prop_map(std::net::Ipv4Addr::from).boxed());
    v.visit::<std::net::IpAddr>(
        "IpAddr",
        prop_oneof![
            any::<[u8; 4]>().prop_map(|b| std::net::IpAddr::V4(std::net::Ipv4Addr::from(b))),
            any::<[u16; 8]>().prop_map(|b| std::net::IpAddr::V6(std::net::Ipv6Addr::from(b))),
        ]
        .boxed(),
    );
    v.visit::<Vec<std::net::SocketAddrV4>>(
        "Vec<SocketAddrV4>",
        vec((any::<[u8; 4]>(), any::<u16>()).prop_map(|(b, p)| std::net::SocketAddrV4::new(std::net::Ipv4Addr::from(b), p)), 0..3).boxed(),
    );
    v.visit::<BTreeMap<NameKey, u8>>("BTreeMap<NameKey,u8>", btree_map(g_str().prop_map(NameKey), any::<u8>(), 0..4).boxed());
    v.visit::<BTreeMap<IdKey, String>>("BTreeMap<IdKey,String>", btree_map(any::<u16>().prop_map(IdKey), g_str(), 0..4).boxed());
    v.visit::<BTreeMap<WrappedKey, Option<i8>>>("BTreeMap<WrappedKey,Option<i8>>", btree_map(g_key().prop_map(WrappedKey), proptest::option::of(any::<i8>()), 0..4).boxed());
    v.visit::<Point>("Point", g_point());
    v.visit::<WithOpt>(
        "WithOpt",
        (proptest::option::of(any::<u8>()), proptest::option::of(g_str()), proptest::option::of(proptest::option::of(any::<bool>())))
            .prop_map(|(a, c, e)| WithOpt { a, b: (), c, d: UnitS, e })
            .boxed(),
    );
    v.visit::<Chan>("Chan([u16;1])", any::<u16>().prop_map(|x| Chan([x])).boxed());
    v.visit::<Wrap1>("Wrap1((u8,))", any::<u8>().prop_map(|x| Wrap1((x,))).boxed());
    v.visit::<WrapVV>("WrapVV(Vec<Vec<u8>>)", vec(vec(any::<u8>(), 0..3), 0..3).prop_map(WrapVV).boxed());
    v.visit::<WrapOptSeq>("WrapOptSeq(Option<Vec<i8>>)", proptest::option::of(vec(any::<i8>(), 0..3)).prop_map(WrapOptSeq).boxed());
    v.visit::<Interval>(
        "Interval",
        (any::<i8>(), any::<i8>(), any::<bool>(), any::<u8>(), any::<u8>(), any::<u8>(), proptest::option::of(any::<u8>()))
            .prop_map(|(inf, sup, nan, big_nan, e, neg_inf, infinity)| Interval { inf, sup, nan, big_nan, e, neg_inf, infinity })
            .boxed(),
    );
    v.visit::<Vec<Class>>(
        "Vec<Class>",
        vec((0u8..13, any::<u8>()), 0..5)
            .prop_map(|ks| {
                ks.into_iter()
                    .map(|(k, x)| match k {
                        0 => Class::Inf,
                        1 => Class::NegInf,
                        2 => Class::NaN,
                        3 => Class::LowerNan,
                        4 => Class::PosInf,
                        5 => Class::Infinity,
                        6 => Class::E,
                        7 => Class::Minus,
                        8 => Class::Dots,
                        9 => Class::Arrow,
                        10 => Class::True,
                        11 => Class::Null,
                        _ => Class::Tagged(x),
                    })
                    .collect()
            })
            .boxed(),
    );
    v.visit::<BTreeMap<Class, u8>>("BTreeMap<Class,u8>", btree_map((0u8..12).prop_map(|k| [Class::Inf, Class::NegInf, Class::NaN, Class::LowerNan, Class::PosInf, Class::Infinity, Class::E, Class::Minus, Class::Dots, Class::Arrow, Class::True, Class::Null][k as usize].clone()), any::<u8>(), 0..4).boxed());
    v.visit::<WithSkip>(
        "WithSkip",
        (
            any::<u8>(),
            prop_oneof![2 => Just(0u32), 1 => any::<u32>()],
            prop_oneof![2 => Just(String::new()), 1 => g_str()],
            proptest::option::of(any::<u8>()),
            vec(any::<i8>(), 0..3),
        )
            .prop_map(|(id, retries, name, opt, items)| WithSkip { id, retries, name, opt, items })
            .boxed(),
    );
    v.visit::<Nested>(
        "Nested",
        (g_point(), vec(g_point(), 0..4), g_str(), g_tup3(), any::<i32>())
            .prop_map(|(p, list, name, t, n)| Nested { p, list, name, t, n: NewT(n) })
            .boxed(),
    );
    v.visit::<E>("E", g_e());
    v.visit::<Option<E>>("Option<E>", proptest::option::of(g_e()).boxed());
    v.visit::<Vec<E>>("Vec<E>", vec(g_e(), 0..5).boxed());
    v.visit::<(E, E)>("(E,E)", (g_e(), g_e()).boxed());
    v.visit::<Holder>(
        "Holder",
        (btree_map(g_str(), g_e(), 0..4), g_e(), vec(g_e(), 0..4), btree_map(g_key(), vec(any::<i8>(), 0..3), 0..3))
            .prop_map(|(m, e, v, k)| Holder { m, e, v, k })
            .boxed(),
    );
    v.visit::<Tree>("Tree", g_tree());
}

// ------------------------------------------------------------------ M_docshape

/// Tagged tree: every node remembers its Serde data-model category.
#[derive(Clone, Debug, PartialEq)]
pub enum Doc {
    Bool(bool),
    Int(i128),
    F64(u64),
    Char(char),
    Str(String),
    Bytes(Vec<u8>),
    Unit,
    None,
    Some(Box<Doc>),
    Newtype(Box<Doc>),
    Seq(Vec<Doc>),
    Tuple(Vec<Doc>),
    Map(Vec<(Doc, Doc)>),
    Struct(Vec<(&'static str, Doc)>),
    UnitVariant(&'static str),
    NewtypeVariant(&'static str, Box<Doc>),
    TupleVariant(&'static str, Vec<Doc>),
    StructVariant(&'static str, Vec<(&'static str, Doc)>),
}

#[derive(Debug)]
pub struct DocError(String);
impl std::fmt::Display for DocError {
    fn fmt(&self, f: &mut std::fmt::Formatter<'_>) -> std::fmt::Result {
        write!(f, "{}", self.0)
    }
}
impl std::error::Error for DocError {}
impl ser::Error for DocError {
    fn custom<T: std::fmt::Display>(msg: T) -> Self {
        DocError(msg.to_string())
    }
}

pub struct DocSer;

pub struct SeqSer(Vec<Doc>, u8, &'static str);
pub struct MapSer(Vec<(Doc, Doc)>, Option<Doc>);
pub struct StructSer(Vec<(&'static str, Doc)>, Option<&'static str>);

impl ser::Serializer for DocSer {
    type Ok = Doc;
    type Error = DocError;
    type SerializeSeq = SeqSer;
    type SerializeTuple = SeqSer;
    type SerializeTupleStruct = SeqSer;
    type SerializeTupleVariant = SeqSer;
    type SerializeMap = MapSer;
    type SerializeStruct = StructSer;
    type SerializeStructVariant = StructSer;

    fn serialize_bool(self, v: bool) -> Result<Doc, DocError> {
        Ok(Doc::Bool(v))
    }
    fn serialize_i8(self, v: i8) -> Result<Doc, DocError> {
        Ok(Doc::Int(v as i128))
    }
    fn serialize_i16(self, v: i16) -> Result<Doc, DocError> {
        Ok(Doc::Int(v as i128))
    }
    fn serialize_i32(self, v: i32) -> Result<Doc, DocError> {
        Ok(Doc::Int(v as i128))
    }
    fn serialize_i64(self, v: i64) -> Result<Doc, DocError> {
        Ok(Doc::Int(v as i128))
    }
    fn serialize_u8(self, v: u8) -> Result<Doc, DocError> {
        Ok(Doc::Int(v as i128))
    }
    fn serialize_u16(self, v: u16) -> Result<Doc, DocError> {
        Ok(Doc::Int(v as i128))
    }
    fn serialize_u32(self, v: u32) -> Result<Doc, DocError> {
        Ok(Doc::Int(v as i128))
    }
    fn serialize_u64(self, v: u64) -> Result<Doc, DocError> {
        Ok(Doc::Int(v as i128))
    }
    fn serialize_f32(self, v: f32) -> Result<Doc, DocError> {
        Ok(Doc::F64(f64::from(v).to_bits()))
    }
    fn serialize_f64(self, v: f64) -> Result<Doc, DocError> {
        Ok(Doc::F64(v.to_bits()))
    }
    fn serialize_char(self, v: char) -> Result<Doc, DocError> {
        Ok(Doc::Char(v))
    }
    fn serialize_str(self, v: &str) -> Result<Doc, DocError> {
        Ok(Doc::Str(v.to_string()))
    }
    fn serialize_bytes(self, v: &[u8]) -> Result<Doc, DocError> {
        Ok(Doc::Bytes(v.to_vec()))
    }
    fn serialize_none(self) -> Result<Doc, DocError> {
        Ok(Doc::None)
    }
    fn serialize_some<T: ?Sized + Serialize>(self, v: &T) -> Result<Doc, DocError> {
        Ok(Doc::Some(Box::new(v.serialize(DocSer)?)))
    }
    fn serialize_unit(self) -> Result<Doc, DocError> {
        Ok(Doc::Unit)
    }
    fn serialize_unit_struct(self, _: &'static str) -> Result<Doc, DocError> {
        Ok(Doc::Unit)
    }
    fn serialize_unit_variant(self, _: &'static str, _: u32, variant: &'static str) -> Result<Doc, DocError> {
        Ok(Doc::UnitVariant(variant))
    }
    fn serialize_newtype_struct<T: ?Sized + Serialize>(self, _: &'static str, v: &T) -> Result<Doc, DocError> {
        Ok(Doc::Newtype(Box::new(v.serialize(DocSer)?)))
    }
    fn serialize_newtype_variant<T: ?Sized + Serialize>(self, _: &'static str, _: u32, variant: &'static str, v: &T) -> Result<Doc, DocError> {
        Ok(Doc::NewtypeVariant(variant, Box::new(v.serialize(DocSer)?)))
    }
    fn serialize_seq(self, _: Option<usize>) -> Result<SeqSer, DocError> {
        Ok(SeqSer(Vec::new(), 0, ""))
    }
    fn serialize_tuple(self, _: usize) -> Result<SeqSer, DocError> {
        Ok(SeqSer(Vec::new(), 1, ""))
    }
    fn serialize_tuple_struct(self, _: &'static str, _: usize) -> Result<SeqSer, DocError> {
        Ok(SeqSer(Vec::new(), 1, ""))
    }
    fn serialize_tuple_variant(self, _: &'static str, _: u32, variant: &'static str, _: usize) -> Result<SeqSer, DocError> {
        Ok(SeqSer(Vec::new(), 2, variant))
    }
    fn serialize_map(self, _: Option<usize>) -> Result<MapSer, DocError> {
        Ok(MapSer(Vec::new(), None))
    }
    fn serialize_struct(self, _: &'static str, _: usize) -> Result<StructSer, DocError> {
        Ok(StructSer(Vec::new(), None))
    }
    fn serialize_struct_variant(self, _: &'static str, _: u32, variant: &'static str, _: usize) -> Result<StructSer, DocError> {
        Ok(StructSer(Vec::new(), Some(variant)))
    }
}

impl SeqSer {
    fn finish(self) -> Doc {
        match self.1 {
            0 => Doc::Seq(self.0),
            1 => Doc::Tuple(self.0),
            _ => Doc::TupleVariant(self.2, self.0),
        }
    }
}
impl ser::SerializeSeq for SeqSer {
    type Ok = Doc;
    type Error = DocError;
    fn serialize_element<T: ?Sized + Serialize>(&mut self, v: &T) -> Result<(), DocError> {
        self.0.push(v.serialize(DocSer)?);
        Ok(())
    }
    fn end(self) -> Result<Doc, DocError> {
        Ok(self.finish())
    }
}
impl ser::SerializeTuple for SeqSer {
    type Ok = Doc;
    type Error = DocError;
    fn serialize_element<T: ?Sized + Serialize>(&mut self, v: &T) -> Result<(), DocError> {
        self.0.push(v.serialize(DocSer)?);
        Ok(())
    }
    fn end(self) -> Result<Doc, DocError> {
        Ok(self.finish())
    }
}
impl ser::SerializeTupleStruct for SeqSer {
    type Ok = Doc;
    type Error = DocError;
    fn serialize_field<T: ?Sized + Serialize>(&mut self, v: &T) -> Result<(), DocError> {
        self.0.push(v.serialize(DocSer)?);
        Ok(())
    }
    fn end(self) -> Result<Doc, DocError> {
        Ok(self.finish())
    }
}
impl ser::SerializeTupleVariant for SeqSer {
    type Ok = Doc;
    type Error = DocError;
    fn serialize_field<T: ?Sized + Serialize>(&mut self, v: &T) -> Result<(), DocError> {
        self.0.push(v.serialize(DocSer)?);
        Ok(())
    }
    fn end(self) -> Result<Doc, DocError> {
        Ok(self.finish())
    }
}
impl ser::SerializeMap for MapSer {
    type Ok = Doc;
    type Error = DocError;
    fn serialize_key<T: ?Sized + Serialize>(&mut self, k: &T) -> Result<(), DocError> {
        self.1 = Some(k.serialize(DocSer)?);
        Ok(())
    }
    fn serialize_value<T: ?Sized + Serialize>(&mut self, v: &T) -> Result<(), DocError> {
        let k = self.1.take().ok_or_else(|| DocError("value before key".into()))?;
        self.0.push((k, v.serialize(DocSer)?));
        Ok(())
    }
    fn end(self) -> Result<Doc, DocError> {
        Ok(Doc::Map(self.0))
    }
}
impl ser::SerializeStruct for StructSer {
    type Ok = Doc;
    type Error = DocError;
    fn serialize_field<T: ?Sized + Serialize>(&mut self, name: &'static str, v: &T) -> Result<(), DocError> {
        self.0.push((name, v.serialize(DocSer)?));
        Ok(())
    }
    fn end(self) -> Result<Doc, DocError> {
        Ok(match self.1 {
            None => Doc::Struct(self.0),
            Some(v) => Doc::StructVariant(v, self.0),
        })
    }
}
impl ser::SerializeStructVariant for StructSer {
    type Ok = Doc;
    type Error = DocError;
    fn serialize_field<T: ?Sized + Serialize>(&mut self, name: &'static str, v: &T) -> Result<(), DocError> {
        self.0.push((name, v.serialize(DocSer)?));
        Ok(())
    }
    fn end(self) -> Result<Doc, DocError> {
        Ok(match self.1 {
            None => Doc::Struct(self.0),
            Some(v) => Doc::StructVariant(v, self.0),
        })
    }
}

pub fn doc_of<T: Serialize>(x: &T) -> Doc {
    x.serialize(DocSer).expect("DocSer never fails")
}

// ------------------------------------------------------------------ shape function

/// How one Seq/Tuple node is to be encoded.
#[derive(Clone, Debug, PartialEq)]
pub enum Alt {
    /// the documented encoding
    Documented,
    /// list <-> vector
    Flip,
    /// as a list whose terminating empty list is replaced by this atom
    Improper(MV),
    /// replaced by a value of another kind
    Wrong(MV),
}

pub struct Shaper {
    /// index (in traversal order) of the Seq/Tuple node to alter
    pub target: Option<usize>,
    pub alt: Alt,
    pub counter: usize,
    /// was the alteration applicable (e.g. improper needs >= 1 element)?
    pub applied: bool,
}

fn cell(k: MV, v: MV) -> MV {
    // (k . v) with a list-valued v merging into the chain
    MV::List(vec![k], Box::new(v)).normalize()
}

impl Shaper {
    pub fn documented() -> Self {
        Shaper { target: None, alt: Alt::Documented, counter: 0, applied: false }
    }

    fn seq_like(&mut self, items: Vec<MV>, documented_is_list: bool) -> MV {
        let me = self.counter;
        self.counter += 1;
        let as_list = |xs: Vec<MV>| MV::list(xs);
        if self.target == Some(me) {
            match &self.alt {
                Alt::Documented => {}
                Alt::Flip => {
                    self.applied = true;
                    return if documented_is_list { MV::Vec(items) } else { as_list(items) };
                }
                Alt::Improper(atom) => {
                    if !items.is_empty() {
                        self.applied = true;
                        return MV::List(items, Box::new(atom.clone()));
                    }
                }
                Alt::Wrong(v) => {
                    self.applied = true;
                    return v.clone();
                }
            }
        }
        if documented_is_list {
            as_list(items)
        } else {
            MV::Vec(items)
        }
    }

    pub fn shape(&mut self, d: &Doc) -> MV {
        match d {
            Doc::Bool(b) => MV::Bool(*b),
            Doc::Int(i) => MV::int(*i),
            Doc::F64(b) => MV::F(*b),
            Doc::Char(c) => MV::Char(*c as u32),
            Doc::Str(s) => MV::Str(s.clone()),
            Doc::Bytes(b) => MV::Bytes(b.clone()),
            Doc::Unit | Doc::None => MV::Null,
            Doc::Some(x) => MV::list(vec![self.shape(x)]),
            Doc::Newtype(x) => self.shape(x),
            Doc::Seq(xs) => {
                let items = xs.iter().map(|x| self.shape(x)).collect();
                self.seq_like(items, true)
            }
            Doc::Tuple(xs) => {
                let items = xs.iter().map(|x| self.shape(x)).collect();
                self.seq_like(items, false)
            }
            Doc::Map(kvs) => MV::list(kvs.iter().map(|(k, v)| {
                let k = self.shape(k);
                let v = self.shape(v);
                cell(k, v)
            }).collect()),
            Doc::Struct(fs) => MV::list(fs.iter().map(|(n, v)| {
                let v = self.shape(v);
                cell(MV::sym(n), v)
            }).collect()),
            Doc::UnitVariant(n) => MV::sym(n),
            Doc::NewtypeVariant(n, x) => {
                let x = self.shape(x);
                cell(MV::sym(n), x)
            }
            Doc::TupleVariant(n, xs) => {
                let mut items = vec![MV::sym(n)];
                items.extend(xs.iter().map(|x| self.shape(x)));
                MV::list(items)
            }
            Doc::StructVariant(n, fs) => {
                let mut items = vec![MV::sym(n)];
                items.extend(fs.iter().map(|(f, v)| {
                    let v = self.shape(v);
                    cell(MV::sym(f), v)
                }));
                MV::list(items)
            }
        }
    }
}

/// Number of Seq/Tuple nodes of a document.
pub fn seq_nodes(d: &Doc) -> usize {
    let mut s = Shaper::documented();
    s.shape(d);
    s.counter
}

pub fn has_nested_composite(d: &Doc) -> bool {
    fn composite(d: &Doc) -> bool {
        !matches!(d, Doc::Bool(_) | Doc::Int(_) | Doc::F64(_) | Doc::Char(_) | Doc::Str(_) | Doc::Bytes(_) | Doc::Unit | Doc::None | Doc::UnitVariant(_))
    }
    fn below(d: &Doc) -> bool {
        match d {
            Doc::Some(x) | Doc::Newtype(x) | Doc::NewtypeVariant(_, x) => composite(x) || below(x),
            Doc::Seq(xs) | Doc::Tuple(xs) | Doc::TupleVariant(_, xs) => xs.iter().any(|x| composite(x) || below(x)),
            Doc::Map(kvs) => kvs.iter().any(|(k, v)| composite(k) || composite(v) || below(k) || below(v)),
            Doc::Struct(fs) | Doc::StructVariant(_, fs) => fs.iter().any(|(_, v)| composite(v) || below(v)),
            _ => false,
        }
    }
    below(d)
}

#[allow(dead_code)]
pub fn unused() -> (HashMap<String, i32>, HashSet<String>, BTreeSet<i64>) {
    (HashMap::new(), HashSet::new(), BTreeSet::new())
}
