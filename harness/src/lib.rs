//! Library side of the harness: generators, models, oracles and the
//! per-property check functions. Used by the `vp` binary (proptest-driven
//! runs, replay) and by the libFuzzer targets in /verif/fuzz.

pub mod big;
pub mod child;
pub mod engine;
pub mod fuzz_entry;
pub mod gen;
pub mod gen_text;
pub mod layout;
pub mod model;
pub mod mv;
pub mod opts;
pub mod props;
pub mod reader;
#[cfg(feature = "ff")]
pub mod serde_fam;
pub mod util;
