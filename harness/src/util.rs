//! Small shared helpers: panic capture, error normalisation, token shapes.

use std::cell::RefCell;
use std::panic::{self, AssertUnwindSafe};
use std::sync::Once;

thread_local! {
    static LAST_PANIC: RefCell<Option<String>> = RefCell::new(None);
}

static HOOK: Once = Once::new();

/// Install a panic hook that records the message per thread instead of
/// printing (installed once for the whole process).
pub fn install_quiet_panic_hook() {
    HOOK.call_once(|| {
        panic::set_hook(Box::new(|info| {
            let msg = if let Some(s) = info.payload().downcast_ref::<&str>() {
                s.to_string()
            } else if let Some(s) = info.payload().downcast_ref::<String>() {
                s.clone()
            } else {
                "<non-string panic payload>".to_string()
            };
            let loc = info
                .location()
                .map(|l| format!("{}:{}", l.file().rsplit('/').next().unwrap_or(""), l.line()))
                .unwrap_or_default();
            LAST_PANIC.with(|p| *p.borrow_mut() = Some(format!("{} @ {}", msg, loc)));
        }));
    });
}

/// Run `f`, turning a panic into `Err(message)`.
pub fn catch<T>(f: impl FnOnce() -> T) -> Result<T, String> {
    install_quiet_panic_hook();
    match panic::catch_unwind(AssertUnwindSafe(f)) {
        Ok(v) => Ok(v),
        Err(_) => Err(LAST_PANIC
            .with(|p| p.borrow_mut().take())
            .unwrap_or_else(|| "<panic>".to_string())),
    }
}

/// A panic message with line numbers and concrete numbers stripped, for
/// signatures.
pub fn panic_sig(msg: &str) -> String {
    // quoted payloads (`...`, "...", 'c') are data of the failing case, not
    // part of the identity of the defect
    let cs: Vec<char> = msg.chars().collect();
    let mut plain = String::new();
    let mut i = 0;
    while i < cs.len() {
        let c = cs[i];
        let close = match c {
            '`' | '"' => cs[i + 1..].iter().position(|&d| d == c),
            '\'' => cs[i + 1..].iter().take(8).position(|&d| d == c),
            _ => None,
        };
        match close {
            Some(k) => {
                plain.push(c);
                plain.push('_');
                plain.push(c);
                i += k + 2;
            }
            None => {
                plain.push(c);
                i += 1;
            }
        }
    }
    let mut out = String::new();
    let mut last_digit = false;
    for c in plain.chars() {
        if c.is_ascii_digit() {
            if !last_digit {
                out.push('N');
            }
            last_digit = true;
        } else {
            out.push(c);
            last_digit = false;
        }
    }
    crate::mv::clip(&out, 120)
}

/// Error text without the ` at line L column C` suffix.
pub fn err_text(e: &lexpr::parse::Error) -> String {
    let s = e.to_string();
    match s.find(" at line ") {
        Some(i) => s[..i].to_string(),
        None => s,
    }
}

pub fn err_text_str(s: &str) -> &str {
    match s.find(" at line ") {
        Some(i) => &s[..i],
        None => s,
    }
}

pub fn category(e: &lexpr::parse::Error) -> &'static str {
    match e.classify() {
        lexpr::parse::error::Category::Io => "io",
        lexpr::parse::error::Category::Syntax => "syntax",
        lexpr::parse::error::Category::Eof => "eof",
    }
}

/// Shape of a token for signatures: digits -> 9, ASCII letters -> a,
/// non-ASCII -> u, runs collapsed, punctuation kept.
pub fn shape(tok: &str) -> String {
    let mut out = String::new();
    let mut last = '\0';
    for c in tok.chars() {
        let k = if c.is_ascii_digit() {
            '9'
        } else if c.is_ascii_alphabetic() {
            'a'
        } else if !c.is_ascii() {
            'u'
        } else if c.is_ascii_control() {
            'c'
        } else if "!$%&*/<=>?^_~@".contains(c) {
            'p'
        } else {
            c
        };
        if matches!(k, '9' | 'a' | 'u' | 'c' | 'p') && k == last {
            continue;
        }
        out.push(k);
        last = k;
    }
    crate::mv::clip(&out, 40)
}

/// Coarse, stable class of a token for signatures.
pub fn tok_class(tok: &str) -> String {
    let b = tok.as_bytes();
    let signed = !b.is_empty() && (b[0] == b'+' || b[0] == b'-');
    let body = if signed { &tok[1..] } else { tok };
    if let Some(l) = crate::model::parse_dec_lit(body) {
        if l.has_exp && !l.has_frac {
            return "dec-exp-nofrac".into();
        }
        if l.has_exp {
            return "dec-frac-exp".into();
        }
        if l.has_frac {
            return "dec-frac".into();
        }
        return "dec-int".into();
    }
    if signed {
        if body.starts_with('.') {
            return "sign-dot".into();
        }
        if body.chars().next().map_or(false, |c| !c.is_ascii()) {
            return "sign-unicode".into();
        }
    }
    crate::mv::clip(&shape(tok), 12)
}

/// The maximal run of non-delimiter bytes around byte `offset` of `text`.
pub fn token_at(text: &[u8], offset: usize) -> String {
    let is_delim = |c: u8| matches!(c, b' ' | b'\t' | b'\r' | b'\n' | 0x0C | b'(' | b')' | b'[' | b']' | b'"' | b';');
    if text.is_empty() {
        return String::new();
    }
    let mut o = offset.min(text.len() - 1);
    // if we sit on a delimiter, prefer the token just before
    if is_delim(text[o]) && o > 0 && !is_delim(text[o - 1]) {
        o -= 1;
    }
    if is_delim(text[o]) {
        return (text[o] as char).to_string();
    }
    let mut s = o;
    while s > 0 && !is_delim(text[s - 1]) {
        s -= 1;
    }
    let mut e = o;
    while e + 1 < text.len() && !is_delim(text[e + 1]) {
        e += 1;
    }
    String::from_utf8_lossy(&text[s..=e]).to_string()
}

/// Byte offset of (1-based line, 0-based byte column) in `text`.
pub fn offset_of(text: &[u8], line: usize, col: usize) -> usize {
    let mut l = 1;
    let mut start = 0;
    for (i, &b) in text.iter().enumerate() {
        if l == line {
            break;
        }
        if b == b'\n' {
            l += 1;
            start = i + 1;
        }
    }
    (start + col).min(text.len())
}

/// Token shape at the location an error reports (column is "just after the
/// offending byte" for most lexer errors, so look one byte back).
pub fn shape_at_error(text: &[u8], e: &lexpr::parse::Error) -> String {
    match e.location() {
        Some(loc) => {
            let off = offset_of(text, loc.line(), loc.column());
            tok_class(&token_at(text, off.saturating_sub(1)))
        }
        None => "-".to_string(),
    }
}
