//! Model values: a serialisable mirror of `lexpr::Value` used by generators,
//! replay files and oracles. Floats are stored as bit patterns so replay is
//! exact.

use lexpr::{Number, Value};
use serde::{Deserialize, Serialize};

#[derive(Clone, Debug, PartialEq, Eq, Hash, Serialize, Deserialize)]
pub enum MV {
    Nil,
    Null,
    Bool(bool),
    /// non-negative integer
    U(u64),
    /// negative integer
    I(i64),
    /// f64 bit pattern
    F(u64),
    Char(u32),
    Str(String),
    Sym(String),
    Kw(String),
    Bytes(Vec<u8>),
    /// Non-empty element sequence and a tail. The tail is `Null` for a proper
    /// list; any other tail makes it dotted. (A tail that is itself a `List`
    /// merges into the chain when converted.)
    List(Vec<MV>, Box<MV>),
    Vec(Vec<MV>),
}

impl MV {
    pub fn f(x: f64) -> MV {
        MV::F(x.to_bits())
    }
    pub fn int(i: i128) -> MV {
        if i < 0 {
            MV::I(i as i64)
        } else {
            MV::U(i as u64)
        }
    }
    pub fn list(xs: Vec<MV>) -> MV {
        if xs.is_empty() {
            MV::Null
        } else {
            MV::List(xs, Box::new(MV::Null))
        }
    }
    pub fn sym(s: &str) -> MV {
        MV::Sym(s.to_string())
    }

    pub fn to_value(&self) -> Value {
        match self {
            MV::Nil => Value::Nil,
            MV::Null => Value::Null,
            MV::Bool(b) => Value::Bool(*b),
            MV::U(u) => Value::Number(Number::from(*u)),
            MV::I(i) => Value::Number(Number::from(*i)),
            MV::F(b) => Value::Number(Number::from(f64::from_bits(*b))),
            MV::Char(c) => Value::Char(char::from_u32(*c).expect("MV::Char holds a scalar")),
            MV::Str(s) => Value::String(s.as_str().into()),
            MV::Sym(s) => Value::Symbol(s.as_str().into()),
            MV::Kw(s) => Value::Keyword(s.as_str().into()),
            MV::Bytes(b) => Value::Bytes(b.clone().into_boxed_slice()),
            MV::List(xs, tail) => {
                // Built back to front with plain cons cells so that this does
                // not depend on Value::append / Value::list.
                let mut acc = tail.to_value();
                for x in xs.iter().rev() {
                    acc = Value::Cons(lexpr::Cons::new(x.to_value(), acc));
                }
                acc
            }
            MV::Vec(xs) => Value::Vector(xs.iter().map(|x| x.to_value()).collect::<Vec<_>>().into()),
        }
    }

    /// Canonicalising conversion back from a value (list tails that are lists
    /// are merged, so `from_value(to_value(m))` is the normal form of `m`).
    pub fn from_value(v: &Value) -> MV {
        match v {
            Value::Nil => MV::Nil,
            Value::Null => MV::Null,
            Value::Bool(b) => MV::Bool(*b),
            Value::Number(n) => {
                if let Some(u) = n.as_u64() {
                    if n.is_f64() {
                        MV::F(n.as_f64().unwrap().to_bits())
                    } else {
                        MV::U(u)
                    }
                } else if n.is_f64() {
                    MV::F(n.as_f64().unwrap().to_bits())
                } else if let Some(i) = n.as_i64() {
                    MV::I(i)
                } else {
                    MV::F(n.as_f64().unwrap().to_bits())
                }
            }
            Value::Char(c) => MV::Char(*c as u32),
            Value::String(s) => MV::Str(s.to_string()),
            Value::Symbol(s) => MV::Sym(s.to_string()),
            Value::Keyword(s) => MV::Kw(s.to_string()),
            Value::Bytes(b) => MV::Bytes(b.to_vec()),
            Value::Cons(_) => {
                let mut xs = Vec::new();
                let mut cur = v;
                while let Value::Cons(c) = cur {
                    xs.push(MV::from_value(c.car()));
                    cur = c.cdr();
                }
                MV::List(xs, Box::new(MV::from_value(cur)))
            }
            Value::Vector(xs) => MV::Vec(xs.iter().map(MV::from_value).collect()),
        }
    }

    /// Normal form: merges list-valued tails into the element chain.
    pub fn normalize(&self) -> MV {
        match self {
            MV::List(xs, tail) => {
                let mut out: Vec<MV> = xs.iter().map(|x| x.normalize()).collect();
                let mut t = tail.normalize();
                loop {
                    match t {
                        MV::List(more, next) => {
                            out.extend(more);
                            t = *next;
                        }
                        other => {
                            t = other;
                            break;
                        }
                    }
                }
                if out.is_empty() {
                    t
                } else {
                    MV::List(out, Box::new(t))
                }
            }
            MV::Vec(xs) => MV::Vec(xs.iter().map(|x| x.normalize()).collect()),
            other => other.clone(),
        }
    }

    pub fn is_composite(&self) -> bool {
        matches!(self, MV::List(..) | MV::Vec(..))
    }

    pub fn node_count(&self) -> usize {
        match self {
            MV::List(xs, t) => 1 + xs.iter().map(|x| x.node_count()).sum::<usize>() + t.node_count(),
            MV::Vec(xs) => 1 + xs.iter().map(|x| x.node_count()).sum::<usize>(),
            _ => 1,
        }
    }

    pub fn depth(&self) -> usize {
        match self {
            MV::List(xs, t) => {
                1 + xs
                    .iter()
                    .map(|x| x.depth())
                    .max()
                    .unwrap_or(0)
                    .max(t.depth())
            }
            MV::Vec(xs) => 1 + xs.iter().map(|x| x.depth()).max().unwrap_or(0),
            _ => 0,
        }
    }

    pub fn walk<'a>(&'a self, f: &mut dyn FnMut(&'a MV)) {
        f(self);
        match self {
            MV::List(xs, t) => {
                for x in xs {
                    x.walk(f);
                }
                t.walk(f);
            }
            MV::Vec(xs) => {
                for x in xs {
                    x.walk(f);
                }
            }
            _ => {}
        }
    }

    pub fn any(&self, p: &dyn Fn(&MV) -> bool) -> bool {
        let mut found = false;
        self.walk(&mut |m| {
            if p(m) {
                found = true;
            }
        });
        found
    }

    pub fn map(&self, f: &dyn Fn(&MV) -> Option<MV>) -> MV {
        if let Some(r) = f(self) {
            return r;
        }
        match self {
            MV::List(xs, t) => MV::List(xs.iter().map(|x| x.map(f)).collect(), Box::new(t.map(f))),
            MV::Vec(xs) => MV::Vec(xs.iter().map(|x| x.map(f)).collect()),
            other => other.clone(),
        }
    }

    pub fn kind(&self) -> &'static str {
        match self {
            MV::Nil => "nil",
            MV::Null => "null",
            MV::Bool(_) => "bool",
            MV::U(_) | MV::I(_) => "int",
            MV::F(_) => "float",
            MV::Char(_) => "char",
            MV::Str(_) => "string",
            MV::Sym(_) => "symbol",
            MV::Kw(_) => "keyword",
            MV::Bytes(_) => "bytes",
            MV::List(_, t) => {
                if **t == MV::Null {
                    "list"
                } else {
                    "dotted"
                }
            }
            MV::Vec(_) => "vector",
        }
    }
}

pub fn value_kind(v: &Value) -> &'static str {
    match v {
        Value::Nil => "nil",
        Value::Null => "null",
        Value::Bool(_) => "bool",
        Value::Number(n) => {
            if n.is_f64() {
                "float"
            } else {
                "int"
            }
        }
        Value::Char(_) => "char",
        Value::String(_) => "string",
        Value::Symbol(_) => "symbol",
        Value::Keyword(_) => "keyword",
        Value::Bytes(_) => "bytes",
        Value::Cons(_) => "cons",
        Value::Vector(_) => "vector",
    }
}

/// Debug rendering that is bounded in size (for messages and samples).
pub fn short<T: std::fmt::Debug>(t: &T) -> String {
    let s = format!("{:?}", t);
    clip(&s, 400)
}

pub fn clip(s: &str, n: usize) -> String {
    if s.len() <= n {
        s.to_string()
    } else {
        let mut end = n;
        while !s.is_char_boundary(end) {
            end -= 1;
        }
        format!("{}…(+{} bytes)", &s[..end], s.len() - end)
    }
}

pub fn bytes_lossy(b: &[u8]) -> String {
    let mut out = String::new();
    for &c in b {
        match c {
            b'\\' => out.push_str("\\\\"),
            0x20..=0x7e => out.push(c as char),
            b'\n' => out.push_str("\\n"),
            _ => out.push_str(&format!("\\x{:02x}", c)),
        }
    }
    clip(&out, 400)
}

// --------------------------------------------------------------------------
// deterministic structural minimiser (used to derive stable signatures)

fn candidates(m: &MV) -> Vec<MV> {
    let mut out = Vec::new();
    match m {
        MV::List(xs, t) => {
            // children first (largest reduction)
            for x in xs {
                out.push(x.clone());
            }
            if **t != MV::Null {
                out.push((**t).clone());
                out.push(MV::List(xs.clone(), Box::new(MV::Null)));
            }
            if xs.len() > 1 {
                for i in 0..xs.len() {
                    let mut ys = xs.clone();
                    ys.remove(i);
                    out.push(MV::List(ys, t.clone()));
                }
            }
            for (i, x) in xs.iter().enumerate() {
                for c in candidates(x) {
                    let mut ys = xs.clone();
                    ys[i] = c;
                    out.push(MV::List(ys, t.clone()));
                }
            }
            for c in candidates(t) {
                if !matches!(c, MV::List(..)) {
                    out.push(MV::List(xs.clone(), Box::new(c)));
                }
            }
        }
        MV::Vec(xs) => {
            for x in xs {
                out.push(x.clone());
            }
            for i in 0..xs.len() {
                let mut ys = xs.clone();
                ys.remove(i);
                out.push(MV::Vec(ys));
            }
            for (i, x) in xs.iter().enumerate() {
                for c in candidates(x) {
                    let mut ys = xs.clone();
                    ys[i] = c;
                    out.push(MV::Vec(ys));
                }
            }
        }
        MV::Str(s) | MV::Sym(s) | MV::Kw(s) => {
            let cs: Vec<char> = s.chars().collect();
            let wrap = |t: String| match m {
                MV::Str(_) => MV::Str(t),
                MV::Sym(_) => MV::Sym(t),
                _ => MV::Kw(t),
            };
            if cs.len() > 1 {
                out.push(wrap(cs[..cs.len() / 2].iter().collect()));
                out.push(wrap(cs[cs.len() / 2..].iter().collect()));
            }
            if cs.len() > 1 && cs.len() <= 24 {
                for i in 0..cs.len() {
                    let mut d = cs.clone();
                    d.remove(i);
                    out.push(wrap(d.into_iter().collect()));
                }
            }
            for (i, c) in cs.iter().enumerate().take(24) {
                if *c != 'a' && !c.is_ascii_punctuation() {
                    let mut d = cs.clone();
                    d[i] = 'a';
                    out.push(wrap(d.into_iter().collect()));
                }
            }
        }
        MV::Bytes(b) => {
            if b.len() > 1 {
                out.push(MV::Bytes(b[..b.len() / 2].to_vec()));
                out.push(MV::Bytes(b[b.len() / 2..].to_vec()));
            } else if b.len() == 1 {
                out.push(MV::Bytes(vec![]));
            }
        }
        MV::U(u) if *u > 1 => out.push(MV::U(1)),
        MV::I(i) if *i < -1 => out.push(MV::I(-1)),
        _ => {}
    }
    out
}

/// Greedy structural minimisation: the smallest value reachable by the
/// candidate moves on which `still_fails` holds. Deterministic and bounded.
pub fn minimise(start: &MV, still_fails: &dyn Fn(&MV) -> bool) -> MV {
    // values nested dozens of levels deep fail because of their depth; the
    // candidate moves are quadratic in the depth and proptest re-runs the
    // check (and with it this function) on every shrink step
    if start.depth() > 40 {
        return start.clone();
    }
    // phase 1: the smallest sub-tree that fails on its own
    let mut subs: Vec<&MV> = Vec::new();
    start.walk(&mut |m| subs.push(m));
    subs.sort_by_key(|m| m.node_count());
    let mut cur = start.clone();
    let total = start.node_count();
    for (i, m) in subs.iter().enumerate() {
        if i >= 80 || m.node_count() >= total {
            break;
        }
        if still_fails(m) {
            cur = (*m).clone();
            break;
        }
    }
    // phase 2: greedy local moves, bounded
    let mut budget = 120;
    'outer: loop {
        for c in candidates(&cur) {
            if budget == 0 {
                break 'outer;
            }
            budget -= 1;
            if c.node_count() <= cur.node_count() && c != cur && still_fails(&c) {
                cur = c;
                continue 'outer;
            }
        }
        break;
    }
    cur
}
