//! C01 — print -> parse identity in the default dialect, all entry points,
//! plus the independent reader.

use std::io::Cursor;

use proptest::prelude::*;
use rayon::prelude::*;
use serde_json::{json, Value as Json};

use crate::engine::*;
use crate::gen::*;
use crate::model::*;
use crate::mv::*;
use crate::opts::POpt;
use crate::props::Prop;
use crate::reader;
use crate::util::*;

pub const PROP: Prop = Prop {
    id: "C01",
    level: "exploration",
    rule: "(round 9: atoms of 32 MiB and more - 128 and 256 MiB in the thorough tier - as string, symbol and byte vector through the str, slice, reader and buffered-reader entry points) (round 8: Display under nine format specs - width, fill, alignment, precision, sign, alternate, zero padding - still reads back as the value) (rounds 6-7: values nested as deep as the reader accepts - measured on the tree - with every kind of atom innermost; integral doubles of at most 15 significant digits between 2^53/10 and 10^16, which print as 16-17 digits) values from the recursive generator G_value(default dialect), towers of up to 60 (100) nesting levels, wide values (lists and vectors of 100-400 (1500) elements repeating a few small units: dotted pairs, improper lists, vectors, nested lists, atoms), atoms of 256 B .. 64 KiB (128 KiB) with a multi-byte character straddling the size threshold, every plain identifier of up to 3 (4) characters over a 9-character alphabet plus enumerated sweeps (scalars as chars and 1-char strings, byte singletons, integer boundary table, float table); each value is printed through 5 entry points, parsed through 4, and read by the independent R7RS reader; non-trivial = contains a list/vector, or an atom whose text is not its payload verbatim (escape, #\\x form, exponent form, negative number, keyword, byte vector); distinct by digest of the model value",
    assumptions: &[
        "plain identifier = R7RS <identifier> productions without |..| and without the numeric look-alikes +i -i +inf.0 -inf.0 +nan.0 -nan.0",
        "float acceptance per DESIGN.md A.4: bit-exact in the noff build; in the ff build bit-exact when the shortest form has <=15 significant digits, fits 2^53 and |exponent|<=22 under the written, effective and scientific reading; otherwise within 2^-50 relative (1.25 slack for the half-ulp between the double and its shortest decimal)",
        "independent reader accepts exactly the R7RS datum grammar plus #nil and #:kw (harness/src/reader.rs)",
    ],
    run,
    replay,
    builds: &["ff", "noff"],
};

fn fail(sig: String, msg: String, mv: &MV) -> Failure {
    Failure::new(format!("C01 {}", sig), msg, json!({ "value": mv })).with_classes(classes_of(mv))
}

fn atom_text_nontrivial(m: &MV, text: &str) -> bool {
    match m {
        MV::Str(s) => text.len() != s.len() + 2,
        MV::Char(_) => text.starts_with("#\\x") && text.len() > 3,
        MV::F(_) => text.contains('e'),
        MV::I(_) | MV::Kw(_) | MV::Bytes(_) => true,
        _ => false,
    }
}

pub fn classes_of(mv: &MV) -> Vec<&'static str> {
    let mut cs: Vec<&'static str> = Vec::new();
    let mut push = |c: &'static str| {
        if !cs.contains(&c) {
            cs.push(c);
        }
    };
    mv.walk(&mut |m| {
        match m {
            MV::Nil => push("kind:nil"),
            MV::Null => push("kind:null"),
            MV::Bool(_) => push("kind:bool"),
            MV::U(u) => {
                push("kind:int");
                if *u > i64::MAX as u64 {
                    push("int:above-i64");
                }
            }
            MV::I(i) => {
                push("kind:int");
                push("int:negative");
                if *i == i64::MIN {
                    push("int:i64-min");
                }
            }
            MV::F(b) => {
                push("kind:float");
                let x = f64::from_bits(*b);
                let t = ryu_text(x);
                if t.contains('e') && !t.contains('.') {
                    push("float:exp-no-frac");
                } else if t.contains('e') {
                    push("float:exp");
                }
                if x != 0.0 && x.abs() < f64::MIN_POSITIVE {
                    push("float:subnormal");
                }
                if let Some(l) = parse_dec_lit(&t) {
                    if l.sig_digits() > 15 {
                        push("float:>15-digits");
                    } else {
                        push("float:<=15-digits");
                    }
                }
            }
            MV::Char(c) => {
                push("kind:char");
                push(char_class(*c));
            }
            MV::Str(s) => {
                push("kind:string");
                if s.chars().any(|c| (c as u32) < 0x20 || c == '\x7f' || c == '"' || c == '\\') {
                    push("string:needs-escape");
                }
                if s.chars().any(|c| !c.is_ascii()) {
                    push("string:non-ascii");
                }
                if s.chars().any(|c| c as u32 > 0xFFFF) {
                    push("string:astral");
                }
            }
            MV::Sym(s) => {
                push("kind:symbol");
                push(ident_class(s));
            }
            MV::Kw(s) => {
                push("kind:keyword");
                push(ident_class(s));
            }
            MV::Bytes(_) => push("kind:bytes"),
            MV::List(_, t) => {
                if **t == MV::Null {
                    push("kind:list")
                } else {
                    push("kind:dotted")
                }
            }
            MV::Vec(_) => push("kind:vector"),
        }
    });
    let d = mv.depth();
    cs.push(match d {
        0 => "depth:0",
        1..=2 => "depth:1-2",
        3..=6 => "depth:3-6",
        7..=20 => "depth:7-20",
        _ => "depth:>20",
    });
    cs
}

pub fn char_class(c: u32) -> &'static str {
    match c {
        0x00..=0x1F => "char:c0",
        0x7F => "char:del",
        0x20..=0x7E => "char:ascii",
        0x80..=0x9F => "char:c1",
        0xA0..=0xFF => "char:latin1",
        0x100..=0xFFFF => "char:bmp",
        _ => "char:astral",
    }
}

pub fn ryu_text(x: f64) -> String {
    // The printer's float spelling (ryu shortest form), obtained from the
    // printer itself on a bare number; only used for classification and for
    // choosing the float acceptance rule.
    lexpr::to_string(&lexpr::Value::from(x)).unwrap_or_default()
}

/// Core oracle: Ok(printed text) or Err((stage signature, message)).
pub fn eval_value(mv: &MV) -> Result<String, (String, String)> {
    let expected = mv.normalize();
    let v = mv.to_value();
    // ---- print entry points
    let printed = catch(|| {
        let a = lexpr::to_string(&v).map(String::into_bytes).map_err(|e| e.to_string());
        let b = lexpr::to_vec(&v).map_err(|e| e.to_string());
        let mut w = Vec::new();
        let c = lexpr::to_writer(&mut w, &v).map(|_| w).map_err(|e| e.to_string());
        let d: Result<Vec<u8>, String> = Ok(format!("{}", v).into_bytes());
        let e = lexpr::to_string_custom(&v, lexpr::print::Options::default())
            .map(String::into_bytes)
            .map_err(|e| e.to_string());
        // the io writer entry point into writers that take a few bytes per call
        // (pipes and sockets do): the text that arrives is the text that is parsed
        struct Few(Vec<u8>, usize);
        impl std::io::Write for Few {
            fn write(&mut self, data: &[u8]) -> std::io::Result<usize> {
                let n = data.len().min(self.1);
                self.0.extend_from_slice(&data[..n]);
                Ok(n)
            }
            fn flush(&mut self) -> std::io::Result<()> {
                Ok(())
            }
        }
        let mut w1 = Few(Vec::new(), 1);
        let f = lexpr::to_writer(&mut w1, &v).map(|_| w1.0).map_err(|e| e.to_string());
        let mut w3 = Few(Vec::new(), 3);
        let g = lexpr::to_writer(&mut w3, &v).map(|_| w3.0).map_err(|e| e.to_string());
        [("to_string", a), ("to_vec", b), ("to_writer", c), ("Display", d), ("to_string_custom", e), ("to_writer(1 byte per call)", f), ("to_writer(3 bytes per call)", g)]
    });
    let printed = match printed {
        Ok(p) => p,
        Err(p) => {
            return Err((format!("stage=print-panic msg={}", panic_sig(&p)),
                format!("printing panicked: {}", p)))
        }
    };
    let text = match &printed[0].1 {
        Ok(t) => t.clone(),
        Err(e) => {
            return Err(("stage=print-error entry=to_string".into(),
                format!("to_string failed: {}", e)))
        }
    };
    for (name, r) in printed.iter().skip(1) {
        match r {
            Ok(t) if *t == text => {}
            Ok(t) => {
                return Err((format!("stage=print-mismatch entry={}", name),
                    format!("{} gave {:?} but to_string gave {:?}", name, bytes_lossy(t), bytes_lossy(&text))))
            }
            Err(e) => {
                return Err((format!("stage=print-error entry={}", name),
                    format!("{} failed: {}", name, e)))
            }
        }
    }
    let text_str = match String::from_utf8(text.clone()) {
        Ok(s) => s,
        Err(_) => {
            return Err(("stage=print-not-utf8".into(),
                format!("printed text is not UTF-8: {}", bytes_lossy(&text))))
        }
    };
    // ---- Display under format flags: whatever the impl makes of width, fill,
    // precision, sign and alternate, the result still reads back as the value
    {
        let flagged: [(&str, String); 9] = [
            ("{:12}", format!("{:12}", v)),
            ("{:>40}", format!("{:>40}", v)),
            ("{:_<9}", format!("{:_<9}", v)),
            ("{:^7}", format!("{:^7}", v)),
            ("{:.1}", format!("{:.1}", v)),
            ("{:8.2}", format!("{:8.2}", v)),
            ("{:#}", format!("{:#}", v)),
            ("{:+}", format!("{:+}", v)),
            ("{:08}", format!("{:08}", v)),
        ];
        let plain = catch(|| lexpr::from_str(&text_str));
        for (spec, t2) in flagged.iter() {
            let back = catch(|| lexpr::from_str(t2));
            let same = match (&plain, &back) {
                (Ok(Ok(a)), Ok(Ok(b))) => a == b,
                (Ok(Err(_)), _) => true,
                _ => false,
            };
            if !same {
                return Err((
                    format!("stage=display-flags spec={}", spec),
                    format!("format!({:?}, value) gave {:?}, which does not read back as the value ({:?} does)", spec, clip(t2, 200), clip(&text_str, 200)),
                ));
            }
        }
    }
    // ---- parse entry points
    let fl = |a: f64, b: f64| float_roundtrip_ok(a, b, &ryu_text(a));
    let parsed = catch(|| {
        [
            ("from_str", lexpr::from_str(&text_str)),
            ("from_slice", lexpr::from_slice(&text)),
            ("from_reader", lexpr::from_reader(Cursor::new(text.clone()))),
            ("FromStr", text_str.parse::<lexpr::Value>()),
        ]
    });
    let parsed = match parsed {
        Ok(p) => p,
        Err(p) => {
            return Err((format!("stage=parse-panic msg={}", panic_sig(&p)),
                format!("parsing {:?} panicked: {}", clip(&text_str, 300), p)))
        }
    };
    let n_err = parsed.iter().filter(|(_, r)| r.is_err()).count();
    for (name, r) in parsed.iter() {
        match r {
            Err(e) => {
                let entry = if n_err == parsed.len() { "all" } else { name };
                return Err((format!(
                        "stage=parse-error entry={} tok={} err={}",
                        entry,
                        shape_at_error(&text, e),
                        err_text(e)
                    ),
                    format!("{} rejected printer output {:?}: {}", name, clip(&text_str, 300), e)));
            }
            Ok(w) => {
                let got = MV::from_value(w);
                if let Some((kind, d)) = mv_diff(&expected, &got, &fl) {
                    return Err((format!("stage=value-mismatch entry={} kind={}", if n_err == 0 { "any" } else { name }, kind),
                        format!("{} read {:?} back differently: {}", name, clip(&text_str, 300), d)));
                }
            }
        }
    }
    // ---- independent reader
    match reader::read_one(&text_str, &POpt::default_set()) {
        Err(e) => {
            return Err((format!("stage=ref-reader-error why={}", shape(&e.split(" at byte").next().unwrap_or("").replace(|c: char| c == '"', ""))),
                format!("independent R7RS reader rejects printer output {:?}: {}", clip(&text_str, 300), e)))
        }
        Ok(m) => {
            if let Some((kind, d)) = mv_diff(&expected, &m, &exact) {
                return Err((format!("stage=ref-reader-mismatch kind={}", kind),
                    format!("independent R7RS reader reads {:?} differently: {}", clip(&text_str, 300), d)));
            }
        }
    }
    Ok(text_str)
}

pub fn check_value(mv: &MV) -> CaseResult {
    match eval_value(mv) {
        Ok(text) => {
            let nt = mv.is_composite() || atom_text_nontrivial(mv, &text);
            Ok(Eval::new(nt, digest_of(mv)).classes(&classes_of(mv)))
        }
        Err((sig, msg)) => {
            let min = minimise(mv, &|c| matches!(eval_value(c), Err((s, _)) if s == sig));
            let min_text = lexpr::to_string(&min.to_value()).unwrap_or_default();
            Err(fail(
                format!("{} min={}", sig, crate::props::c02::min_repr(&min, &min_text)),
                format!("{} (smallest still failing: {:?})", msg, clip(&min_text, 80)),
                mv,
            ))
        }
    }
}

fn cfg(tier: Tier) -> ValueCfg {
    match tier {
        Tier::Quick => ValueCfg::default_dialect(6, 80),
        Tier::Thorough => ValueCfg::default_dialect(12, 400),
    }
}

fn run(ctx: &mut Ctx) {
    let tier = ctx.tier;
    let n_values = tier.pick(6000, 200_000);
    let strat = g_value(cfg(tier));
    for v in ctx.sample_values("values", &strat, 6) {
        let t = lexpr::to_string(&v.to_value()).unwrap_or_default();
        ctx.add_sample("values", json!({"text": clip(&t, 200)}));
    }
    ctx.run_prop("values", n_values, strat, check_value);
    ctx.run_prop("atoms", tier.pick(6000, 200_000), g_atom(cfg(tier)), check_value);
    ctx.run_prop(
        "deep",
        tier.pick(300, 5000),
        g_deep(cfg(tier), tier.pick(60, 100)),
        check_value,
    );
    // values nested as deep as the reader accepts at all (the depth is measured
    // on this tree with a plain number innermost), with every kind of atom
    // innermost: what the printer writes there must still be read back
    let limit = (1..=400usize)
        .take_while(|d| lexpr::from_str(&format!("{}0{}", "(".repeat(*d), ")".repeat(*d))).is_ok())
        .last()
        .unwrap_or(1);
    ctx.add_sample("near-limit", json!({"deepest_nesting_accepted_around_a_number": limit}));
    ctx.run_prop(
        "near-limit",
        tier.pick(400, 8000),
        (prop_oneof![g_atom(cfg(tier)), g_big_atom(2048)], proptest::collection::vec(0u8..3, limit.saturating_sub(4).max(1)..=limit)).prop_map(|(leaf, shape)| {
            let mut v = leaf;
            for s in shape {
                v = match s {
                    0 => MV::list(vec![v]),
                    1 => MV::Vec(vec![v]),
                    _ => MV::list(vec![MV::sym("a"), v]),
                };
            }
            v
        }),
        check_value,
    );
    // atoms beyond every size a reader might cap a token at: 32 MiB and a bit
    // (128 and 256 MiB in the thorough tier), string, symbol and byte vector,
    // through the str, slice and reader entry points
    {
        let sizes: Vec<usize> = match tier {
            Tier::Quick => vec![(1 << 25) + 17],
            Tier::Thorough => vec![(1 << 25) + 17, (1 << 27) + 1, (1 << 28) + 5],
        };
        for &n in &sizes {
            for kind in ["string", "symbol", "bytes"] {
                ctx.observe("huge-atoms", check_huge_atom(kind, n));
            }
        }
        ctx.flush_failures();
    }
    // wide values: hundreds of repetitions of each construct in one text
    ctx.run_prop("wide", tier.pick(400, 10_000), g_wide(cfg(tier), tier.pick(400, 1500)), check_value);
    // atoms at the buffer-size thresholds (256 B .. 64 KiB, thorough 128 KiB), alone and followed by a string
    ctx.run_prop(
        "big-atoms",
        tier.pick(60, 600),
        (g_big_atom(tier.pick(65536, 131072)), any::<bool>()).prop_map(|(a, alone)| if alone { a } else { MV::list(vec![a, MV::Str("after".into()), MV::sym("tail")]) }),
        check_value,
    );
    // floats on their own: 2*10^6 draws in the thorough tier
    ctx.run_prop(
        "floats",
        tier.pick(20_000, 2_000_000),
        g_float().prop_map(MV::F),
        check_value,
    );
    // integral doubles of at most 15 significant digits between 2^53/10 and
    // 10^16: printed as digits and ".0", 16-17 digits in all
    ctx.run_prop(
        "floats-integral-15-digits",
        tier.pick(20_000, 500_000),
        prop_oneof![
            (90_071_992_547_409u64..1_000_000_000_000_000u64).prop_map(|m| MV::f(m as f64)),
            (100_000_000_000_000u64..1_000_000_000_000_000u64).prop_map(|m| MV::f((m * 10) as f64)),
            (1u64..1_000_000_000u64, 6u32..8).prop_map(|(m, k)| MV::f((m * 10u64.pow(k)) as f64)),
        ],
        check_value,
    );
    ctx.run_prop(
        "ints",
        tier.pick(5_000, 200_000),
        g_int().prop_map(MV::int),
        check_value,
    );
    ctx.run_prop(
        "idents",
        tier.pick(5_000, 200_000),
        (g_ident(IdentRules::default()), any::<bool>()).prop_map(|(s, k)| if k { MV::Kw(s) } else { MV::Sym(s) }),
        check_value,
    );

    // every plain identifier of up to 3 (4) characters over a 9-character
    // alphabet, as a symbol and as a keyword, alone and inside a list
    let ids = small_identifiers(tier.pick(3, 4), IdentRules::default());
    ctx.par_sweep("small-identifiers", ids.par_iter(), |id| {
        let v = MV::list(vec![MV::Sym(id.clone()), MV::Kw(id.clone()), MV::List(vec![MV::U(1)], Box::new(MV::Sym(id.clone())))]);
        check_value(&v).and_then(|_| check_value(&MV::Sym(id.clone()))).and_then(|_| check_value(&MV::Kw(id.clone())))
    });
    ctx.exhaustive.push(format!("every plain identifier of length <= {} over the alphabet a λ + - . @ 1 : ! ({} names), as symbol and keyword, at top level and in a list", tier.pick(3, 4), ids.len()));
    // ---- enumerated sweeps
    // every byte as a singleton byte vector, every pair in the thorough tier
    ctx.par_sweep("bytes1", (0u32..256).into_par_iter(), |b| {
        check_value(&MV::Bytes(vec![b as u8]))
    });
    ctx.exhaustive.push("all 256 singleton byte vectors".into());
    // scalars: every scalar (thorough) or a stride sample plus all < 0x3000 (quick)
    let stride = tier.pick(37u32, 1u32);
    let scalars: Vec<u32> = (0u32..=0x10FFFF)
        .filter(|c| char::from_u32(*c).is_some())
        .filter(|c| *c < 0x3000 || c % stride == 0 || *c >= 0x10FF00)
        .collect();
    let n_scalars = scalars.len();
    ctx.par_sweep("char-sweep", scalars.par_iter().copied(), |c| {
        check_value(&MV::Char(c))
    });
    ctx.par_sweep("string1-sweep", scalars.par_iter().copied(), |c| {
        let ch = char::from_u32(c).unwrap();
        check_value(&MV::list(vec![MV::Str(format!("a{}b", ch)), MV::Str(ch.to_string())]))
    });
    if stride == 1 {
        ctx.exhaustive
            .push("all 1112064 Unicode scalar values as Char and inside strings".into());
    } else {
        ctx.exhaustive.push(format!(
            "all scalars below U+3000 as Char and inside strings ({} scalars incl. stride sample)",
            n_scalars
        ));
    }
    // integer boundary table, all of it
    let mut ints: Vec<i128> = Vec::new();
    for k in 0..=64u32 {
        for d in -2i128..=2 {
            for s in [1i128, -1] {
                ints.push(s * ((1i128 << k) + d));
            }
        }
    }
    for k in 0..=19u32 {
        for d in -2i128..=2 {
            for s in [1i128, -1] {
                ints.push(s * (10i128.pow(k) + d));
            }
        }
    }
    ints.retain(|x| *x >= -(1i128 << 63) && *x < (1i128 << 64));
    ints.sort();
    ints.dedup();
    ctx.par_sweep("int-table", ints.par_iter().copied(), |i| check_value(&MV::int(i)));
    ctx.exhaustive
        .push(format!("integer boundary table ({} integers)", ints.len()));
    // float table: powers of two and ten with neighbours
    let mut floats: Vec<u64> = Vec::new();
    for k in -1074..=1023 {
        let x = 2f64.powi(k);
        for d in -1i64..=1 {
            floats.push((x.to_bits() as i64 + d) as u64);
        }
    }
    for e in -323..=308 {
        let x: f64 = format!("1e{}", e).parse().unwrap();
        for d in -1i64..=1 {
            floats.push((x.to_bits() as i64 + d) as u64);
        }
    }
    let mut all = floats.clone();
    for f in floats {
        all.push(f | (1u64 << 63));
    }
    all.retain(|b| f64::from_bits(*b).is_finite());
    all.sort();
    all.dedup();
    ctx.par_sweep("float-table", all.par_iter().copied(), |b| check_value(&MV::F(b)));
    ctx.exhaustive.push(format!(
        "powers of two and ten with both neighbours, both signs ({} doubles)",
        all.len()
    ));
    ctx.required_classes = vec![
        "kind:nil", "kind:null", "kind:bool", "kind:int", "kind:float", "kind:char", "kind:string",
        "kind:symbol", "kind:keyword", "kind:bytes", "kind:list", "kind:dotted", "kind:vector",
        "ident:peculiar", "ident:unicode-initial", "ident:special-initial",
        "float:exp-no-frac", "float:subnormal", "string:needs-escape", "string:astral",
        "char:c0", "char:del", "char:astral", "int:above-i64", "int:i64-min",
    ];
}

fn check_huge_atom(kind: &str, n: usize) -> CaseResult {
    let kind: &'static str = match kind {
        "string" => "string",
        "symbol" => "symbol",
        _ => "bytes",
    };
    let v = match kind {
        "string" => lexpr::Value::string("s".repeat(n)),
        "symbol" => lexpr::Value::symbol("y".repeat(n)),
        _ => lexpr::Value::from(vec![7u8; n / 2]),
    };
    let v = lexpr::Value::list(vec![lexpr::Value::from(1), v, lexpr::Value::symbol("end")]);
    let r = catch(|| -> Result<(), String> {
        let text = lexpr::to_string(&v).map_err(|e| format!("to_string: {}", e))?;
        let a = lexpr::from_str(&text).map_err(|e| format!("from_str: {}", e))?;
        let b = lexpr::from_slice(text.as_bytes()).map_err(|e| format!("from_slice: {}", e))?;
        let c = lexpr::from_reader(std::io::Cursor::new(text.as_bytes())).map_err(|e| format!("from_reader: {}", e))?;
        let d = lexpr::from_reader(std::io::BufReader::with_capacity(1 << 16, std::io::Cursor::new(text.as_bytes()))).map_err(|e| format!("from_reader(BufReader): {}", e))?;
        if a != v || b != v || c != v || d != v {
            return Err(format!("read back differently (str {}, slice {}, reader {}, bufreader {})", a == v, b == v, c == v, d == v));
        }
        Ok(())
    });
    match r {
        Ok(Ok(())) => Ok(Eval::new(true, digest_of(&(n, kind))).class("huge-atom")),
        Ok(Err(e)) => Err(Failure::new(format!("C01 stage=huge-atom kind={} entry={}", kind, e.split(':').next().unwrap_or("?")), format!("a {} of {} bytes inside a list: {}", kind, n, clip(&e, 200)), json!({"huge": {"kind": kind, "n": n}}))),
        Err(pm) => Err(Failure::new(format!("C01 stage=huge-atom kind={} panic={}", kind, panic_sig(&pm)), pm, json!({"huge": {"kind": kind, "n": n}}))),
    }
}

fn replay(_sub: &str, case: &Json) -> Option<CaseResult> {
    if let Some(h) = case.get("huge") {
        return Some(check_huge_atom(h.get("kind")?.as_str()?, h.get("n")?.as_u64()? as usize));
    }
    let mv: MV = serde_json::from_value(case.get("value")?.clone()).ok()?;
    Some(check_value(&mv))
}

/// libFuzzer entry: one generated value.
pub fn fuzz(f: &mut FuzzIn) -> Option<CaseResult> {
    let c = ValueCfg::default_dialect(8, 120);
    if f.mode % 8 >= 5 {
        // byte-decoded value: libFuzzer's mutations change one node at a time
        return Some(check_value(&f.mv(0, c, 5)));
    }
    let s = match f.mode % 8 {
        0 | 1 => g_value(c),
        2 => g_atom(c),
        3 => g_deep(c, 60),
        4 => g_wide(c, 200),
        _ => prop_oneof![g_float().prop_map(MV::F), g_int().prop_map(MV::int), g_ident(IdentRules::default()).prop_map(MV::Sym), g_ident(IdentRules::default()).prop_map(MV::Kw)].boxed(),
    };
    let v = f.draw(&s)?;
    Some(check_value(&v))
}
