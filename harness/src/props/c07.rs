//! C07 — every sink receives exactly the printed text; write errors surface.

use std::fmt::Write as FmtWrite;
use std::io::{self, Write};

use lexpr::print::{DefaultFormatter, Printer};
use proptest::collection::vec;
use proptest::prelude::*;
use serde::{Deserialize, Serialize};
use serde_json::{json, Value as Json};

use crate::engine::*;
use crate::gen::*;
use crate::mv::*;
use crate::opts::*;
use crate::props::c02::{bytes_allowed, in_domain};
use crate::props::Prop;
use crate::util::*;

pub const PROP: Prop = Prop {
    id: "C07",
    level: "fault_enumeration",
    rule: "(round 9: Display into a fmt::Write that refuses exactly one call, at every offset) (rounds 6-7: one Printer for several values, also after a write error; atoms of 1 MiB (4 and 16 MiB thorough) - string, symbol, keyword, byte vector, string with escapes - under short writes and with a sink that accepts nothing or fails, once or for good, at the first byte, in the middle and at the end) (plus atoms of 256 B .. 64 KiB (128 KiB) with a multi-byte character straddling the size threshold, through every entry point under short-write limits 1, 1000, 4096, 4097 and through Display into a String and into a failing sink) values from G_value (with a number- and byte-vector-heavy variant) x printer option sets (default plus sampled from all 576) x sink schedules: every write accepts at most k bytes for k = 1,2,3,5, a generated cycle of per-call limits, zero-byte acceptance, Interrupted results, and a hard error injected at EVERY output offset 0..=len of the text (exhaustive per value), persistent or occurring once only (the sink would accept later writes again); the sink implements both write and a native write_vectored under the same limits, so a short acceptance may end inside any slice of a vectored call; six entry points (to_writer, to_writer_custom, Printer::new, Printer::with_options, Printer::with_formatter, Display into a failing fmt::Write); oracle: reference text from to_string(_custom); non-trivial = text of at least 8 bytes containing a number, byte vector or escape, under a schedule that splits at least one write call; distinct by digest of (value, options, schedule)",
    assumptions: &[
        "the reference text is to_string_custom(v, P), whose agreement with the other non-faulty entry points is C01's clause",
        "Interrupted results are only required to give either Ok with the exact text or Err with a prefix delivered (the statement does not speak about them)",
    ],
    run,
    replay,
    builds: &["ff"],
};

#[derive(Clone, Debug, Serialize, Deserialize, Hash)]
pub enum Sched {
    /// every write accepts at most k bytes
    Max(usize),
    /// per-call limits, cycled (0 allowed = zero-byte acceptance on that call)
    Cycle(Vec<usize>),
    /// accept nothing, ever
    Zero,
    /// Interrupted before every n-th call, otherwise at most k bytes
    Interrupt(usize, usize),
    /// all offsets 0..=len get a hard error, one run per offset (enumerated inside the check)
    ErrorEverywhere,
    /// like ErrorEverywhere, but the sink fails only once and would accept
    /// later writes again (a transient failure): the printer has to stop anyway
    FailOnceEverywhere,
}

struct Sink {
    buf: Vec<u8>,
    calls: usize,
    limits: Vec<usize>,
    interrupt_every: usize,
    err_at: Option<usize>,
    split: bool,
    fail_once: bool,
    failed: bool,
}

impl Sink {
    fn new(s: &Sched, err_at: Option<usize>) -> Sink {
        let (limits, interrupt_every) = match s {
            Sched::Max(k) => (vec![*k], 0),
            Sched::Cycle(c) => (if c.is_empty() { vec![1] } else { c.clone() }, 0),
            Sched::Zero => (vec![0], 0),
            Sched::Interrupt(n, k) => (vec![(*k).max(1)], (*n).max(2)),
            Sched::ErrorEverywhere | Sched::FailOnceEverywhere => (vec![usize::MAX], 0),
        };
        Sink {
            buf: Vec::new(),
            calls: 0,
            limits,
            interrupt_every,
            err_at,
            split: false,
            fail_once: matches!(s, Sched::FailOnceEverywhere),
            failed: false,
        }
    }
}

impl Sink {
    /// One write call offering `total` bytes: how many are accepted.
    fn admit(&mut self, total: usize) -> io::Result<usize> {
        self.calls += 1;
        if self.interrupt_every > 0 && self.calls % self.interrupt_every == 0 {
            return Err(io::Error::new(io::ErrorKind::Interrupted, "injected interrupt"));
        }
        let mut cap = self.limits[(self.calls - 1) % self.limits.len()];
        if let Some(off) = self.err_at {
            if self.buf.len() >= off {
                if !self.fail_once {
                    return Err(io::Error::new(io::ErrorKind::Other, "injected write error"));
                }
                if !self.failed {
                    self.failed = true;
                    return Err(io::Error::new(io::ErrorKind::Other, "injected write error (once)"));
                }
            } else {
                cap = cap.min(off - self.buf.len());
            }
        }
        let n = cap.min(total);
        if n < total {
            self.split = true;
        }
        Ok(n)
    }
}

impl Write for Sink {
    fn write(&mut self, data: &[u8]) -> io::Result<usize> {
        let n = self.admit(data.len())?;
        self.buf.extend_from_slice(&data[..n]);
        Ok(n)
    }
    /// Native vectored I/O (like `&mut [u8]`, `Cursor`, files and sockets): the
    /// same per-call limit applies to the concatenation of the slices, so a
    /// short acceptance may end inside any of them.
    fn write_vectored(&mut self, bufs: &[io::IoSlice<'_>]) -> io::Result<usize> {
        let total: usize = bufs.iter().map(|b| b.len()).sum();
        let n = self.admit(total)?;
        let mut left = n;
        for b in bufs {
            let k = left.min(b.len());
            self.buf.extend_from_slice(&b[..k]);
            left -= k;
            if left == 0 {
                break;
            }
        }
        Ok(n)
    }
    fn flush(&mut self) -> io::Result<()> {
        Ok(())
    }
}

/// fmt::Write sink that fails once `limit` bytes were delivered.
struct FmtSink {
    out: String,
    limit: usize,
}

impl FmtWrite for FmtSink {
    fn write_str(&mut self, s: &str) -> std::fmt::Result {
        let room = self.limit.saturating_sub(self.out.len());
        if s.len() <= room {
            self.out.push_str(s);
            Ok(())
        } else {
            let mut cut = room;
            while !s.is_char_boundary(cut) {
                cut -= 1;
            }
            self.out.push_str(&s[..cut]);
            Err(std::fmt::Error)
        }
    }
}

const ENTRIES: [&str; 5] = ["to_writer", "to_writer_custom", "Printer::new", "Printer::with_options", "Printer::with_formatter"];

fn run_entry(entry: usize, v: &lexpr::Value, p: &POpt, sink: &mut Sink) -> io::Result<()> {
    match entry {
        0 => lexpr::to_writer(&mut *sink, v),
        1 => lexpr::to_writer_custom(&mut *sink, v, p.to_lexpr()),
        2 => Printer::new(&mut *sink).print(v),
        3 => Printer::with_options(&mut *sink, p.to_lexpr()).print(v),
        _ => Printer::with_formatter(&mut *sink, DefaultFormatter).print(v),
    }
}

fn uses_options(entry: usize) -> bool {
    entry == 1 || entry == 3
}

/// Kind of token the byte offset `off` of `text` falls into (for signatures).
fn token_kind_at(text: &[u8], off: usize) -> String {
    let tok = token_at(text, off.min(text.len().saturating_sub(1)));
    let c = tok.chars().next().unwrap_or(' ');
    if c.is_ascii_digit() || (c == '-' && tok.len() > 1 && tok.as_bytes()[1].is_ascii_digit()) {
        if tok.contains('.') || tok.contains('e') {
            "float".into()
        } else {
            "integer".into()
        }
    } else if c == '"' {
        "string".into()
    } else if tok.starts_with("#u8") || tok.starts_with("#vu8") {
        "bytes-open".into()
    } else if tok.starts_with("#\\") || tok.starts_with('?') {
        "char".into()
    } else if tok.starts_with('#') {
        "hash-token".into()
    } else if "()[]".contains(c) {
        "delimiter".into()
    } else {
        "symbol".into()
    }
}

pub fn check_case(mv: &MV, pi: usize, sched: &Sched) -> CaseResult {
    let p = POpt::from_index(pi);
    let case = || json!({"value": mv, "p": pi, "sched": sched});
    let v = mv.to_value();
    let fail = |sig: String, msg: String| Failure::new(format!("C07 {}", sig), msg, case());
    let r = catch(|| -> Result<(bool, usize), (String, String)> {
        let s_default = lexpr::to_string(&v).map_err(|e| ("reference-print-error".to_string(), e.to_string()))?;
        let s_custom = lexpr::to_string_custom(&v, p.to_lexpr()).map_err(|e| ("reference-print-error".to_string(), e.to_string()))?;
        // default formatter == customised formatter with default options
        let s_custom_default = lexpr::to_string_custom(&v, lexpr::print::Options::default()).unwrap_or_default();
        if s_custom_default != s_default {
            let at = s_default.bytes().zip(s_custom_default.bytes()).position(|(a, b)| a != b).unwrap_or(0);
            return Err((
                format!("default-vs-customised token={}", token_kind_at(s_default.as_bytes(), at)),
                format!("default printer gives {:?}, customised printer with default options gives {:?}", clip(&s_default, 200), clip(&s_custom_default, 200)),
            ));
        }
        let mut any_split = false;
        let mut evals = 0usize;
        for entry in 0..ENTRIES.len() {
            let s = if uses_options(entry) { &s_custom } else { &s_default };
            let sb = s.as_bytes();
            match sched {
                Sched::ErrorEverywhere | Sched::FailOnceEverywhere => {
                    for off in 0..=sb.len() {
                        let mut sink = Sink::new(sched, Some(off));
                        let res = run_entry(entry, &v, &p, &mut sink);
                        evals += 1;
                        if !sb.starts_with(&sink.buf) {
                            return Err((
                                format!("entry={} fault=error token={} not-a-prefix", ENTRIES[entry], token_kind_at(sb, sink.buf.len())),
                                format!("{} with an error at offset {} delivered {:?}, not a prefix of {:?}", ENTRIES[entry], off, bytes_lossy(&sink.buf), clip(s, 200)),
                            ));
                        }
                        if off < sb.len() && res.is_ok() {
                            return Err((
                                format!("entry={} fault=error token={} ok-on-error", ENTRIES[entry], token_kind_at(sb, off)),
                                format!("{} returned Ok although the sink failed at offset {} of {:?} (delivered {:?})", ENTRIES[entry], off, clip(s, 200), bytes_lossy(&sink.buf)),
                            ));
                        }
                        // a Printer stays usable after a failed print: once the sink
                        // works again, the next value comes out as it would from a
                        // fresh printer (no option or state left half-changed)
                        if entry == 3 && off < sb.len() && res.is_err() && (off % 3 == 0 || sb.len() < 24) {
                            struct Shared(std::rc::Rc<std::cell::RefCell<Sink>>);
                            impl Write for Shared {
                                fn write(&mut self, d: &[u8]) -> io::Result<usize> {
                                    self.0.borrow_mut().write(d)
                                }
                                fn write_vectored(&mut self, b: &[io::IoSlice<'_>]) -> io::Result<usize> {
                                    self.0.borrow_mut().write_vectored(b)
                                }
                                fn flush(&mut self) -> io::Result<()> {
                                    Ok(())
                                }
                            }
                            let cell = std::rc::Rc::new(std::cell::RefCell::new(Sink::new(sched, Some(off))));
                            let mut pr = Printer::with_options(Shared(cell.clone()), p.to_lexpr());
                            let first = pr.print(&v);
                            {
                                let mut k = cell.borrow_mut();
                                k.err_at = None;
                                k.buf.clear();
                            }
                            let second = pr.print(&v);
                            evals += 1;
                            let delivered = cell.borrow().buf.clone();
                            if first.is_ok() || second.is_err() || delivered != sb {
                                return Err((
                                    format!("entry=Printer-reused-after-error token={}", token_kind_at(sb, off)),
                                    format!(
                                        "after a print that failed at offset {} the same Printer printed the value again into the recovered sink as {:?} (results {:?}/{:?}), a fresh one prints {:?}",
                                        off,
                                        bytes_lossy(&delivered),
                                        first.is_ok(),
                                        second.is_ok(),
                                        clip(s, 200)
                                    ),
                                ));
                            }
                        }
                        if off == sb.len() && (res.is_err() || sink.buf != sb) {
                            return Err((
                                format!("entry={} fault=none-reached", ENTRIES[entry]),
                                format!("{} failed although the error offset {} was never reached", ENTRIES[entry], off),
                            ));
                        }
                    }
                }
                Sched::Zero => {
                    let mut sink = Sink::new(sched, None);
                    let res = run_entry(entry, &v, &p, &mut sink);
                    evals += 1;
                    if res.is_ok() && !sb.is_empty() {
                        return Err((
                            format!("entry={} fault=zero-accept ok-on-error", ENTRIES[entry]),
                            format!("{} returned Ok although the sink accepted no bytes of {:?}", ENTRIES[entry], clip(s, 200)),
                        ));
                    }
                }
                Sched::Interrupt(..) => {
                    let mut sink = Sink::new(sched, None);
                    let res = run_entry(entry, &v, &p, &mut sink);
                    evals += 1;
                    any_split |= sink.split;
                    let ok = match res {
                        Ok(()) => sink.buf == sb,
                        Err(_) => sb.starts_with(&sink.buf),
                    };
                    if !ok {
                        let at = sb.iter().zip(sink.buf.iter()).position(|(a, b)| a != b).unwrap_or(sink.buf.len().min(sb.len()));
                        return Err((
                            format!("entry={} fault=interrupted token={} dropped", ENTRIES[entry], token_kind_at(sb, at)),
                            format!("{} under Interrupted results delivered {:?} for {:?}", ENTRIES[entry], bytes_lossy(&sink.buf), clip(s, 200)),
                        ));
                    }
                }
                Sched::Max(_) | Sched::Cycle(_) => {
                    let mut sink = Sink::new(sched, None);
                    let res = run_entry(entry, &v, &p, &mut sink);
                    evals += 1;
                    any_split |= sink.split;
                    let zero_call = matches!(sched, Sched::Cycle(c) if c.contains(&0));
                    if sink.buf != sb || res.is_err() {
                        if zero_call && res.is_err() && sb.starts_with(&sink.buf) {
                            continue; // a zero-byte acceptance legitimately ends in an error
                        }
                        let at = sb.iter().zip(sink.buf.iter()).position(|(a, b)| a != b).unwrap_or(sink.buf.len().min(sb.len()));
                        let how = if res.is_err() {
                            "error-without-fault"
                        } else if sink.buf.len() < sb.len() {
                            "dropped"
                        } else {
                            "reordered-or-duplicated"
                        };
                        return Err((
                            format!("entry={} fault=short-write token={} {}", ENTRIES[entry], token_kind_at(sb, at), how),
                            format!("{} under schedule {:?} delivered {:?} (result {:?}) instead of {:?}", ENTRIES[entry], sched, bytes_lossy(&sink.buf), res.map_err(|e| e.to_string()), clip(s, 200)),
                        ));
                    }
                }
            }
        }
        // one Printer used for several values in a row: the texts arrive back
        // to back, whatever the sink accepts per call (no state is carried over)
        if matches!(sched, Sched::Max(_) | Sched::Cycle(_)) && !matches!(sched, Sched::Cycle(c) if c.contains(&0)) {
            for with_opts in [false, true] {
                let mut sink = Sink::new(sched, None);
                let res = {
                    let mut pr = if with_opts { Printer::with_options(&mut sink, p.to_lexpr()) } else { Printer::with_options(&mut sink, lexpr::print::Options::default()) };
                    pr.print(&v).and_then(|_| pr.print(&v)).and_then(|_| pr.print(&lexpr::Value::symbol("end")))
                };
                let one = if with_opts { &s_custom } else { &s_default };
                let want = format!("{}{}end", one, one);
                if res.is_err() || sink.buf != want.as_bytes() {
                    return Err((
                        format!("entry=Printer-reused fault=short-write options={}", if with_opts { "custom" } else { "default" }),
                        format!("printing the value twice and then a symbol through one Printer delivered {:?}, expected {:?} (result ok={})", bytes_lossy(&sink.buf), clip(&want, 200), res.is_ok()),
                    ));
                }
                evals += 1;
            }
        }
        // Display into a failing fmt::Write
        let limits: Vec<usize> = match sched {
            Sched::ErrorEverywhere | Sched::FailOnceEverywhere => (0..=s_default.len()).collect(),
            Sched::Max(k) => vec![*k, s_default.len()],
            _ => vec![s_default.len() / 2, s_default.len()],
        };
        // a fmt::Write that refuses exactly one call and accepts again afterwards
        if matches!(sched, Sched::FailOnceEverywhere | Sched::ErrorEverywhere) {
            struct OnceFmt {
                out: String,
                at: usize,
                fired: bool,
            }
            impl FmtWrite for OnceFmt {
                fn write_str(&mut self, s: &str) -> std::fmt::Result {
                    if !self.fired && self.out.len() + s.len() > self.at {
                        self.fired = true;
                        return Err(std::fmt::Error);
                    }
                    self.out.push_str(s);
                    Ok(())
                }
            }
            for at in 0..s_default.len() {
                let mut sink = OnceFmt { out: String::new(), at, fired: false };
                let res = write!(sink, "{}", v);
                evals += 1;
                if res.is_ok() || !s_default.starts_with(&sink.out) {
                    return Err((
                        format!("entry=Display fault=refused-once token={} {}", token_kind_at(s_default.as_bytes(), at), if res.is_ok() { "ok-on-error" } else { "not-a-prefix" }),
                        format!("Display into a fmt::Write that refuses the one call that would pass offset {} gave {:?} (result ok={}) for {:?}", at, clip(&sink.out, 200), res.is_ok(), clip(&s_default, 200)),
                    ));
                }
            }
        }
        for limit in limits {
            let mut sink = FmtSink { out: String::new(), limit };
            let res = write!(sink, "{}", v);
            evals += 1;
            let complete = sink.out == s_default;
            if !s_default.starts_with(&sink.out) || (res.is_ok() && !complete) || (res.is_err() && limit >= s_default.len()) {
                return Err((
                    format!("entry=Display token={} {}", token_kind_at(s_default.as_bytes(), sink.out.len()), if res.is_ok() { "ok-on-error" } else { "not-a-prefix" }),
                    format!("Display into a sink failing after {} bytes gave {:?} (result ok={}) for {:?}", limit, clip(&sink.out, 200), res.is_ok(), clip(&s_default, 200)),
                ));
            }
        }
        let interesting = s_custom.len() >= 8
            && mv.any(&|m| matches!(m, MV::U(_) | MV::I(_) | MV::F(_) | MV::Bytes(_)) || matches!(m, MV::Str(s) if s.chars().any(|c| (c as u32) < 0x20 || c == '"' || c == '\\')));
        Ok((interesting && (any_split || matches!(sched, Sched::ErrorEverywhere | Sched::FailOnceEverywhere)), evals))
    });
    match r {
        Err(pm) => Err(fail(format!("panic={}", panic_sig(&pm)), format!("panicked: {}", pm))),
        Ok(Err((sig, msg))) => Err(fail(sig, format!("{} (printer options #{})", msg, pi))),
        Ok(Ok((nt, _evals))) => Ok(Eval::new(nt, digest_of(&(mv, pi, sched))).class(match sched {
            Sched::Max(_) => "sched:max-k",
            Sched::Cycle(_) => "sched:cycle",
            Sched::Zero => "sched:zero-accept",
            Sched::Interrupt(..) => "sched:interrupted",
            Sched::ErrorEverywhere => "sched:error-at-every-offset",
            Sched::FailOnceEverywhere => "sched:fail-once-at-every-offset",
        })),
    }
}

/// Atoms at buffer-size thresholds: the same text through every entry point,
/// under a few short-write limits and through Display (no per-offset error
/// injection here: the texts are tens of kilobytes long).
pub fn check_big(mv: &MV) -> CaseResult {
    let v = mv.to_value();
    let case = || json!({"big": mv});
    let fail = |sig: String, msg: String| Failure::new(format!("C07 big {}", sig), msg, case());
    let r = catch(|| -> Result<(), (String, String)> {
        let text = lexpr::to_string(&v).map_err(|e| ("reference-print-error".to_string(), e.to_string()))?;
        let p = POpt::default_set();
        for k in [4096usize, 1000, 4097, 1] {
            for entry in 0..ENTRIES.len() {
                if k == 1 && entry > 0 {
                    continue;
                }
                let mut sink = Sink::new(&Sched::Max(k), None);
                let res = run_entry(entry, &v, &p, &mut sink);
                if res.is_err() || sink.buf != text.as_bytes() {
                    let at = text.as_bytes().iter().zip(sink.buf.iter()).position(|(a, b)| a != b).unwrap_or(sink.buf.len().min(text.len()));
                    return Err((
                        format!("entry={} fault=short-write k={}", ENTRIES[entry], k),
                        format!("{} with at most {} bytes per call delivered {} of {} bytes (first difference at {}), result ok={}", ENTRIES[entry], k, sink.buf.len(), text.len(), at, res.is_ok()),
                    ));
                }
            }
        }
        let mut out = String::new();
        let res = write!(out, "{}", v);
        if res.is_err() || out != text {
            return Err((
                "entry=Display".to_string(),
                format!("Display delivered {} of {} bytes into a String (result ok={})", out.len(), text.len(), res.is_ok()),
            ));
        }
        let mut sink = FmtSink { out: String::new(), limit: text.len() / 2 };
        let res = write!(sink, "{}", v);
        if res.is_ok() || !text.starts_with(&sink.out) {
            return Err(("entry=Display failing-sink".to_string(), format!("Display into a sink failing after {} bytes: ok={} prefix={}", text.len() / 2, res.is_ok(), text.starts_with(&sink.out))));
        }
        Ok(())
    });
    match r {
        Err(pm) => Err(fail(format!("panic={}", panic_sig(&pm)), format!("panicked: {}", pm))),
        Ok(Err((sig, msg))) => Err(fail(sig, msg)),
        Ok(Ok(())) => Ok(Eval::new(true, digest_of(mv)).class("big:checked")),
    }
}

/// One atom of a megabyte or more: faults in the middle of its text.
#[derive(Clone, Debug, serde::Serialize, serde::Deserialize, Hash)]
pub struct Huge {
    /// 0 string, 1 symbol, 2 keyword, 3 bytes, 4 string with an escape every 64 KiB
    pub kind: u8,
    pub len: usize,
    pub top_level: bool,
}

fn huge_value(h: &Huge) -> lexpr::Value {
    let body = |first: char| {
        let mut t = String::with_capacity(h.len + 8);
        t.push(first);
        while t.len() < h.len {
            t.push('a');
        }
        t
    };
    let atom = match h.kind {
        0 => lexpr::Value::string(body('s')),
        1 => lexpr::Value::symbol(body('y')),
        2 => lexpr::Value::keyword(body('k')),
        3 => lexpr::Value::from((0..h.len / 4).map(|i| (i % 251) as u8).collect::<Vec<u8>>()),
        _ => {
            let mut t = body('e');
            let mut i = 65536;
            while i < t.len() {
                t.replace_range(i..i + 1, "\"");
                i += 65536;
            }
            lexpr::Value::string(t)
        }
    };
    if h.top_level {
        atom
    } else {
        lexpr::Value::list(vec![lexpr::Value::from(1), atom, lexpr::Value::symbol("end")])
    }
}

/// Sink for the megabyte cases: accepts up to `chunk` bytes per call; at
/// offset `at` it answers according to `fault` (0 = Ok(0) from then on, 1 =
/// Ok(0) once, 2 = an error once, 3 = an error from then on).
struct HugeSink {
    buf: Vec<u8>,
    chunk: usize,
    at: usize,
    fault: u8,
    fired: bool,
}
impl io::Write for HugeSink {
    fn write(&mut self, data: &[u8]) -> io::Result<usize> {
        if self.buf.len() >= self.at && (!self.fired || self.fault == 0 || self.fault == 3) && self.fault < 4 {
            self.fired = true;
            return if self.fault <= 1 { Ok(0) } else { Err(io::Error::new(io::ErrorKind::Other, "sink refuses")) };
        }
        let room = if self.fired || self.fault >= 4 { self.chunk } else { self.chunk.min(self.at - self.buf.len()) };
        let n = data.len().min(room.max(1));
        self.buf.extend_from_slice(&data[..n]);
        Ok(n)
    }
    fn flush(&mut self) -> io::Result<()> {
        Ok(())
    }
}

pub fn check_huge(h: &Huge) -> CaseResult {
    let case = || json!({"huge": h});
    let kind = ["string", "symbol", "keyword", "bytes", "string-with-escapes"][h.kind as usize % 5];
    let fail = |sig: String, msg: String| Failure::new(format!("C07 huge kind={} {}", kind, sig), msg, case());
    let v = huge_value(h);
    let r = catch(|| -> Result<(), (String, String)> {
        let text = lexpr::to_string(&v).map_err(|e| ("reference-print-error".to_string(), e.to_string()))?;
        let p = POpt::default_set();
        let n = text.len();
        for entry in [0usize, 3] {
            // short writes only: everything arrives
            for chunk in [65536usize, 1 << 20, usize::MAX] {
                let mut sink = HugeSink { buf: Vec::with_capacity(n), chunk, at: 0, fault: 4, fired: false };
                let res = match entry {
                    0 => lexpr::to_writer(&mut sink, &v),
                    _ => Printer::with_options(&mut sink, p.to_lexpr()).print(&v),
                };
                if res.is_err() || sink.buf != text.as_bytes() {
                    return Err((format!("entry={} fault=short-write", ENTRIES[entry]), format!("{} with at most {} bytes per call delivered {} of {} bytes, ok={}", ENTRIES[entry], chunk, sink.buf.len(), n, res.is_ok())));
                }
            }
            for at in [0usize, 5, n / 2, n - 2, n - 1] {
                for fault in 0u8..4 {
                    let mut sink = HugeSink { buf: Vec::with_capacity(n), chunk: 1 << 18, at, fault, fired: false };
                    let res = match entry {
                        0 => lexpr::to_writer(&mut sink, &v),
                        _ => Printer::with_options(&mut sink, p.to_lexpr()).print(&v),
                    };
                    let what = ["accepts nothing from there on", "accepts nothing once", "fails once", "fails from there on"][fault as usize];
                    if res.is_ok() {
                        return Err((
                            format!("entry={} fault={} ok-on-error", ENTRIES[entry], ["zero", "zero-once", "error-once", "error"][fault as usize]),
                            format!("{} reported success although the sink {} at offset {} of {}; {} bytes delivered", ENTRIES[entry], what, at, n, sink.buf.len()),
                        ));
                    }
                    if !text.as_bytes().starts_with(&sink.buf) {
                        return Err((
                            format!("entry={} fault={} not-a-prefix", ENTRIES[entry], ["zero", "zero-once", "error-once", "error"][fault as usize]),
                            format!("{}: what the sink received before and after it {} at offset {} is not a prefix of the text", ENTRIES[entry], what, at),
                        ));
                    }
                }
            }
        }
        Ok(())
    });
    match r {
        Err(pm) => Err(fail(format!("panic={}", panic_sig(&pm)), format!("panicked: {}", pm))),
        Ok(Err((sig, msg))) => Err(fail(sig, msg)),
        Ok(Ok(())) => Ok(Eval::new(true, digest_of(h)).class("huge:checked")),
    }
}

fn g_sched() -> BS<Sched> {
    prop_oneof![
        4 => prop_oneof![Just(1usize), Just(2), Just(3), Just(5), 1usize..40].prop_map(Sched::Max),
        3 => vec(prop_oneof![6 => 1usize..8, 1 => Just(0usize)], 1..6).prop_map(Sched::Cycle),
        1 => Just(Sched::Zero),
        1 => (2usize..5, 1usize..4).prop_map(|(n, k)| Sched::Interrupt(n, k)),
        3 => Just(Sched::ErrorEverywhere),
        2 => Just(Sched::FailOnceEverywhere),
    ]
    .boxed()
}

fn g_numbery() -> BS<MV> {
    let atom = prop_oneof![
        4 => g_int().prop_map(MV::int),
        3 => g_float().prop_map(MV::F),
        3 => g_bytes(6).prop_map(MV::Bytes),
        1 => g_string(6).prop_map(MV::Str),
        1 => Just(MV::sym("a")),
    ];
    prop_oneof![
        2 => atom.clone(),
        3 => vec(atom.clone(), 1..6).prop_map(MV::list),
        1 => vec(atom.clone(), 1..5).prop_map(MV::Vec),
        1 => (vec(atom.clone(), 1..4), atom).prop_map(|(xs, t)| MV::List(xs, Box::new(t)).normalize()),
    ]
    .boxed()
}

fn g_case() -> BS<(MV, usize, Sched)> {
    let pidx = prop_oneof![2 => Just(0usize), 1 => Just(POpt::elisp().index()), 3 => 0usize..N_POPT];
    (pidx, g_sched(), any::<bool>())
        .prop_flat_map(|(pi, sched, numbery)| {
            let p = POpt::from_index(pi);
            // names must be printable text only; any identifier is fine for printing
            let cfg = ValueCfg {
                ident: IdentRules::default(),
                bytes: bytes_allowed(&p) || true,
                keywords: true,
                depth: 3,
                nodes: 24,
                branch: 4,
                str_max: 8,
            };
            let v = if numbery { g_numbery() } else { g_value(cfg) };
            v.prop_map(move |v| (v, pi, sched.clone()))
        })
        .boxed()
}

fn run(ctx: &mut Ctx) {
    let tier = ctx.tier;
    use rayon::prelude::*;
    let parent = &*ctx;
    let children: Vec<Ctx> = (0..16u32)
        .into_par_iter()
        .map(|w| {
            let mut c = parent.fork();
            c.run_prop(&format!("sinks/{}", w), tier.pick(6_000, 100_000), g_case(), |(v, pi, s)| check_case(v, *pi, s));
            c
        })
        .collect();
    for c in children {
        ctx.absorb(c);
    }
    ctx.run_prop("big", tier.pick(40, 400), g_big_atom(tier.pick(65536, 131072)), check_big);
    // atoms of a megabyte and more (4 and 16 MiB in the thorough tier)
    {
        use rayon::prelude::*;
        let mut hs = Vec::new();
        let lens: Vec<usize> = match tier {
            Tier::Quick => vec![(1 << 20) + 17, 1 << 20],
            Tier::Thorough => vec![(1 << 20) + 17, 1 << 20, (1 << 22) + 1, (1 << 24) + 3],
        };
        for kind in 0u8..5 {
            for &len in &lens {
                for top_level in [true, false] {
                    hs.push(Huge { kind, len, top_level });
                }
            }
        }
        ctx.par_sweep("huge", hs.into_par_iter(), |h| check_huge(&h));
    }
    // fixed battery: the value of the design document under every k and every offset
    let battery = vec![
        MV::list(vec![MV::U(12345), MV::I(-678), MV::f(1.5), MV::Bytes(vec![200, 100])]),
        MV::U(u64::MAX),
        MV::I(i64::MIN),
        MV::Bytes(vec![0, 255, 128]),
        MV::Vec(vec![MV::Bytes(vec![10, 20, 30]), MV::U(1000000)]),
    ];
    for b in &battery {
        for pi in [0usize, POpt::elisp().index(), 3, 24, 100, 575] {
            for s in [Sched::Max(1), Sched::Max(2), Sched::Max(3), Sched::Max(5), Sched::Zero, Sched::ErrorEverywhere, Sched::FailOnceEverywhere, Sched::Cycle(vec![1, 3, 2]), Sched::Interrupt(2, 1)] {
                ctx.observe("battery", check_case(b, pi, &s));
            }
        }
    }
    ctx.flush_failures();
    let _ = in_domain;
    for (v, pi, s) in ctx.sample_values("sinks", &g_case(), 6) {
        let t = lexpr::to_string_custom(&v.to_value(), POpt::from_index(pi).to_lexpr()).unwrap_or_default();
        ctx.add_sample("sinks", json!({"text": clip(&t, 100), "printer_index": pi, "schedule": format!("{:?}", s)}));
    }
    ctx.exhaustive.push("a hard error at every output offset 0..=len of every value given the ErrorEverywhere schedule".into());
    ctx.required_classes = vec!["sched:max-k", "sched:cycle", "sched:zero-accept", "sched:interrupted", "sched:error-at-every-offset", "sched:fail-once-at-every-offset"];
}

fn replay(_sub: &str, case: &Json) -> Option<CaseResult> {
    if let Some(h) = case.get("huge") {
        let h: Huge = serde_json::from_value(h.clone()).ok()?;
        return Some(check_huge(&h));
    }
    if let Some(b) = case.get("big") {
        let mv: MV = serde_json::from_value(b.clone()).ok()?;
        return Some(check_big(&mv));
    }
    let mv: MV = serde_json::from_value(case.get("value")?.clone()).ok()?;
    let pi = case.get("p")?.as_u64()? as usize;
    let sched: Sched = serde_json::from_value(case.get("sched")?.clone()).ok()?;
    Some(check_case(&mv, pi, &sched))
}

/// libFuzzer entry: a generated (value, printer options, sink schedule).
pub fn fuzz(f: &mut FuzzIn) -> Option<CaseResult> {
    if f.mode % 2 == 0 && f.raw.len() >= 6 {
        let pi = u16::from_le_bytes([f.raw[0], f.raw[1]]) as usize % N_POPT;
        let k = f.raw[3] as usize;
        let sched = match f.raw[2] % 7 {
            0 => Sched::Max(1 + k % 9),
            1 => Sched::Cycle(vec![1 + k % 7, k / 8 % 5, 1 + k / 64]),
            2 => Sched::Cycle(vec![1 + k % 5, 2 + k / 16 % 9]),
            3 => Sched::Interrupt(2 + k % 3, 1 + k / 4 % 3),
            4 => Sched::Zero,
            5 => Sched::FailOnceEverywhere,
            _ => Sched::ErrorEverywhere,
        };
        let cfg = ValueCfg { ident: IdentRules::default(), bytes: true, keywords: true, depth: 3, nodes: 24, branch: 4, str_max: 8 };
        let v = f.mv(4, cfg, 3);
        return Some(check_case(&v, pi, &sched));
    }
    let (v, pi, s) = f.draw(&g_case())?;
    Some(check_case(&v, pi, &s))
}
