//! C09 — `sexp!` builds the value the parser reads from the same S-expression.
//!
//! rustc is the engine: every generated macro invocation is a program
//! fragment. The harness writes one crate with N invocations (one per source
//! line), compiles it once against /repo's working tree, runs it, and reads a
//! per-invocation verdict. Compile errors are attributed to invocations by
//! line, those invocations are violations, are removed, and the batch is
//! compiled again so that the rest is still checked.

use std::collections::BTreeMap;
use std::path::PathBuf;
use std::process::Command;

use proptest::collection::vec;
use proptest::prelude::*;
use serde::{Deserialize, Serialize};
use serde_json::{json, Value as Json};

use crate::engine::*;
use crate::gen::*;
use crate::mv::*;
use crate::props::Prop;

pub const PROP: Prop = Prop {
    id: "C09",
    level: "exploration",
    rule: "(round 9: unquoted expressions that bring their own delimiters - tuple, block, nested tuple) (round 8: quoted symbol and keyword names whose byte and character lengths differ) (rounds 6-7: every generated invocation also goes through a macro_rules! wrapper that passes the unquoted expressions as expr fragments; hygiene: call-site variables named like each lower-case identifier in the source of the macro crate under test, unquoted as element, nested element, vector element and dotted tail) macro invocations generated from the documented syntax: model trees of depth <= 5 over integers within i32 (and i64/u64-suffixed), floats (short decimal forms with 1-5 significant digits and decimal exponents -12..17, spelled as Rust prints them with {:?} - exponent notation below 1e-4 and from 1e16 - and with explicit exponents 2.5e-3 / 2.5E-3), strings, Rust character literals, #t #f #nil, (), identifier symbols, #\"...\" symbols, punctuation-only symbols (+ - * / < = > ! $ % & ^ ~ ? @ <= >= -> ... ++ .++ :!) at every position, keywords as #:name, :name and #:\"...\", proper lists, dotted lists whose tail is an atom, a list or a dotted list (flattening), vectors, and unquotes ,x / ,(expr) of several Rust types in element and dotted-tail position, including expressions that draw from a counter shared by the invocation (the k-th in source order must contribute k); every third invocation with unquotes is written through a local macro_rules! macro whose parameters are expr fragments; every invocation is compiled (rustc) and compared at run time with lexpr::from_str of the equivalent text and with a model value built from plain constructors; non-trivial = the invocation contains a list, vector, punctuation symbol or unquote; distinct by the invocation's token text",
    assumptions: &[
        "excluded by construction and counted: a '-' symbol directly followed by a literal and a ':' symbol directly followed by an identifier or literal (Rust tokenisation cannot tell them from a negative number / a keyword), names needing escapes inside #\"...\"",
        "floats are restricted to short decimal forms so that the default (fast-float) parser reads the text exactly",
        "a compile error attributed to an invocation of documented syntax is a violation of that invocation",
    ],
    run,
    replay,
    builds: &["ff"],
};

/// Macro-level model tree.
#[derive(Clone, Debug, Serialize, Deserialize, Hash, PartialEq)]
pub enum M {
    Int(i64, u8),
    /// bits, spelling: 0 = `{:?}`, 1 = `{:e}` (always an exponent, signed when negative), 2 = the same with `E`
    Float(u64, #[serde(default)] u8),
    Str(String),
    Char(u32),
    Bool(bool),
    Nil,
    Null,
    /// identifier symbol
    Ident(String),
    /// #"..." symbol
    QSym(String),
    /// punctuation-only symbol
    Punct(String),
    /// keyword, spelling 0 `#:name`, 1 `:name`, 2 `#:"name"`
    Kw(String, u8),
    List(Vec<M>, Option<Box<M>>),
    Vector(Vec<M>),
    /// unquoted Rust expression: (expression source, expected value)
    Unquote(String, MV, bool),
}

/// Every third invocation that contains unquotes is written through a local
/// `macro_rules!` whose parameters are `expr` fragments: rustc hands such a
/// fragment to `sexp!` as one invisible group, and it still has to contribute
/// `Value::from(expr)` as a whole.
fn via_macro_rules(m: &M) -> bool {
    // (not for trees with punctuation symbols: a macro_rules! transcriber
    // re-spaces punctuation - `-->` arrives as `-` `->` - and `$` is its own
    // meta character; that is rustc, not sexp!)
    fn has_punct(m: &M) -> bool {
        match m {
            M::Punct(_) => true,
            M::List(xs, t) => xs.iter().any(has_punct) || t.as_ref().map_or(false, |t| has_punct(t)),
            M::Vector(xs) => xs.iter().any(has_punct),
            _ => false,
        }
    }
    m.has_unquote() && !has_punct(m) && !m.macro_src().contains('$') && digest_of(&m.macro_src()) % 3 == 0
}

/// The source inside `sexp!( ... )` with every unquoted expression replaced by
/// a macro parameter `$eK`; the expressions are collected in `args`.
fn macro_src_params(m: &M, args: &mut Vec<String>) -> String {
    match m {
        M::List(xs, tail) => {
            let mut parts: Vec<String> = xs.iter().map(|x| macro_src_params(x, args)).collect();
            if let Some(t) = tail {
                parts.push(".".into());
                parts.push(macro_src_params(t, args));
            }
            format!("({})", parts.join(" "))
        }
        M::Vector(xs) => format!("#({})", xs.iter().map(|x| macro_src_params(x, args)).collect::<Vec<_>>().join(" ")),
        M::Unquote(src, _, _) => {
            args.push(src.clone());
            format!(",$e{}", args.len() - 1)
        }
        other => other.macro_src(),
    }
}

fn rust_str(s: &str) -> String {
    format!("{:?}", s)
}

impl M {
    /// Source text inside `sexp!( ... )`.
    pub fn macro_src(&self) -> String {
        match self {
            M::Int(i, suffix) => {
                let sfx = match suffix {
                    1 => "i64",
                    2 if *i >= 0 => "u64",
                    _ => "",
                };
                format!("{}{}", i, sfx)
            }
            M::Float(b, 0) => format!("{:?}", f64::from_bits(*b)),
            M::Float(b, 1) => format!("{:e}", f64::from_bits(*b)),
            M::Float(b, _) => format!("{:E}", f64::from_bits(*b)),
            M::Str(s) => rust_str(s),
            M::Char(c) => format!("{:?}", char::from_u32(*c).unwrap()),
            M::Bool(true) => "#t".into(),
            M::Bool(false) => "#f".into(),
            M::Nil => "#nil".into(),
            M::Null => "()".into(),
            M::Ident(s) => s.clone(),
            M::QSym(s) => format!("#\"{}\"", s),
            M::Punct(s) => s.clone(),
            M::Kw(s, 0) => format!("#:{}", s),
            M::Kw(s, 1) => format!(":{}", s),
            M::Kw(s, _) => format!("#:\"{}\"", s),
            M::List(xs, tail) => {
                let mut parts: Vec<String> = xs.iter().map(|x| x.macro_src()).collect();
                if let Some(t) = tail {
                    parts.push(".".into());
                    parts.push(t.macro_src());
                }
                format!("({})", parts.join(" "))
            }
            M::Vector(xs) => format!("#({})", xs.iter().map(|x| x.macro_src()).collect::<Vec<_>>().join(" ")),
            M::Unquote(src, _, paren) => {
                if *paren {
                    format!(",({})", src)
                } else {
                    format!(",{}", src)
                }
            }
        }
    }

    /// The value the invocation should produce.
    pub fn model(&self) -> MV {
        match self {
            M::Int(i, _) => MV::int(*i as i128),
            M::Float(b, _) => MV::F(*b),
            M::Str(s) => MV::Str(s.clone()),
            M::Char(c) => MV::Char(*c),
            M::Bool(b) => MV::Bool(*b),
            M::Nil => MV::Nil,
            M::Null => MV::Null,
            M::Ident(s) | M::QSym(s) | M::Punct(s) => MV::Sym(s.clone()),
            M::Kw(s, _) => MV::Kw(s.clone()),
            M::List(xs, tail) => {
                let items: Vec<MV> = xs.iter().map(|x| x.model()).collect();
                let t = tail.as_ref().map_or(MV::Null, |t| t.model());
                if items.is_empty() {
                    t
                } else {
                    MV::List(items, Box::new(t)).normalize()
                }
            }
            M::Vector(xs) => MV::Vec(xs.iter().map(|x| x.model()).collect()),
            M::Unquote(_, v, _) => v.clone(),
        }
    }

    pub fn has_unquote(&self) -> bool {
        match self {
            M::Unquote(..) => true,
            M::List(xs, t) => xs.iter().any(|x| x.has_unquote()) || t.as_ref().map_or(false, |t| t.has_unquote()),
            M::Vector(xs) => xs.iter().any(|x| x.has_unquote()),
            _ => false,
        }
    }

    pub fn nontrivial(&self) -> bool {
        matches!(self, M::List(..) | M::Vector(_) | M::Punct(_) | M::Unquote(..))
    }

    fn classes(&self, out: &mut Vec<&'static str>) {
        let mut push = |c: &'static str| {
            if !out.contains(&c) {
                out.push(c);
            }
        };
        match self {
            M::Int(_, 0) => push("m:int"),
            M::Int(..) => push("m:int-suffixed"),
            M::Float(_, 0) => push("m:float"),
            M::Float(..) => {
                push("m:float");
                push("m:float-exponent-form")
            }
            M::Str(_) => push("m:string"),
            M::Char(_) => push("m:char"),
            M::Bool(_) | M::Nil | M::Null => push("m:hash-token"),
            M::Ident(_) => push("m:ident"),
            M::QSym(_) => push("m:quoted-symbol"),
            M::Punct(_) => push("m:punct-symbol"),
            M::Kw(_, 0) => push("m:kw-octothorpe"),
            M::Kw(_, 1) => push("m:kw-colon"),
            M::Kw(..) => push("m:kw-quoted"),
            M::Unquote(_, _, false) => push("m:unquote-ident"),
            M::Unquote(_, _, true) => push("m:unquote-expr"),
            M::List(xs, t) => {
                push(if t.is_some() { "m:dotted-list" } else { "m:list" });
                if let Some(t) = t {
                    match **t {
                        M::List(_, None) => push("m:tail-is-list"),
                        M::List(_, Some(_)) => push("m:tail-is-dotted-list"),
                        M::Unquote(..) => push("m:tail-is-unquote"),
                        M::Punct(_) => push("m:punct-after-dot"),
                        _ => {}
                    }
                    t.classes(out);
                }
                if let Some(M::Punct(_)) = xs.first() {
                    out.push("m:punct-first");
                }
                if xs.len() > 2 && xs[1..xs.len() - 1].iter().any(|x| matches!(x, M::Punct(_))) && !out.contains(&"m:punct-middle") {
                    out.push("m:punct-middle");
                }
                if xs.len() > 1 && matches!(xs.last(), Some(M::Punct(_))) && !out.contains(&"m:punct-last") {
                    out.push("m:punct-last");
                }
                for x in xs {
                    x.classes(out);
                }
            }
            M::Vector(xs) => {
                push("m:vector");
                for x in xs {
                    x.classes(out);
                }
            }
        }
    }
}

/// Rust expression building the model value with plain constructors.
fn rust_expr(m: &MV) -> String {
    match m {
        MV::Nil => "Value::Nil".into(),
        MV::Null => "Value::Null".into(),
        MV::Bool(b) => format!("Value::Bool({})", b),
        MV::U(u) => format!("Value::Number(Number::from({}u64))", u),
        MV::I(i) => format!("Value::Number(Number::from({}i64))", i),
        MV::F(b) => format!("Value::Number(Number::from(f64::from_bits({}u64)))", b),
        MV::Char(c) => format!("Value::Char(char::from_u32({}).unwrap())", c),
        MV::Str(s) => format!("Value::String({}.into())", rust_str(s)),
        MV::Sym(s) => format!("Value::Symbol({}.into())", rust_str(s)),
        MV::Kw(s) => format!("Value::Keyword({}.into())", rust_str(s)),
        MV::Bytes(b) => format!("Value::Bytes(vec!{:?}.into_boxed_slice())", b),
        MV::List(xs, t) => {
            let mut acc = rust_expr(t);
            for x in xs.iter().rev() {
                acc = format!("Value::Cons(Cons::new({}, {}))", rust_expr(x), acc);
            }
            acc
        }
        MV::Vec(xs) => format!("Value::Vector(vec![{}].into())", xs.iter().map(rust_expr).collect::<Vec<_>>().join(", ")),
    }
}

// ------------------------------------------------------------------ generators

const PUNCT_SYMBOLS: &[&str] = &[
    "+", "-", "*", "/", "<", "=", ">", "!", "$", "%", "&", "^", "~", "?", "@", "<=", ">=", "->", "...", "++", ".++", ":!", "<=>", "!=", "**", "&&", "=>", "-->", "$$", "%%", "+-", "..",
];

const RUST_KEYWORDS: &[&str] = &[
    "as", "break", "const", "continue", "crate", "else", "enum", "extern", "false", "fn", "for", "if", "impl", "in", "let", "loop", "match", "mod", "move", "mut", "pub", "ref", "return", "self",
    "Self", "static", "struct", "super", "trait", "true", "type", "unsafe", "use", "where", "while", "async", "await", "dyn", "abstract", "become", "box", "do", "final", "macro", "override", "priv",
    "typeof", "unsized", "virtual", "yield", "try", "gen",
];

fn g_rust_ident() -> BS<String> {
    prop_oneof![
        12 => "[a-zA-Z][a-zA-Z0-9_]{0,8}".prop_map(|s| if RUST_KEYWORDS.contains(&s.as_str()) { format!("{}_x", s) } else { s }),
        // the names of the hash constants are ordinary symbols without the hash
        1 => proptest::sample::select(vec!["t", "f", "nil", "T", "n", "tt"]).prop_map(|s| s.to_string()),
    ]
    .boxed()
}

fn g_quoted_name() -> BS<String> {
    prop_oneof![
        10 => g_ident(IdentRules::default())
            .prop_map(|s| s.chars().filter(|c| *c != '"' && *c != '\\' && !c.is_control()).collect::<String>())
            .prop_map(|s| if s.is_empty() { "kebab-name".to_string() } else { s }),
        // a quoted symbol is a symbol whatever its name
        1 => proptest::sample::select(vec!["t", "f", "nil", "true", "false", "quote", "unquote"]).prop_map(|s| s.to_string()),
        // names whose length in bytes and in characters differ, and anything else a string literal can hold
        // names whose length in bytes and in characters differ (letters only, so
        // that the equivalent text is an identifier for the reader too)
        3 => proptest::sample::select(vec!["größe", "λ", "日本語", "é", "naïve-name", "ÅÄÖ", "ß", "straße-name", "x日本", "ключ", "aé", "éa", "λλλλλλλλ"]).prop_map(|s| s.to_string()),
    ]
    .boxed()
}

fn g_unquote() -> BS<M> {
    prop_oneof![
        (-1000i64..1000).prop_map(|i| M::Unquote(format!("{}i32", i), MV::int(i as i128), true)),
        any::<u8>().prop_map(|i| M::Unquote(format!("{}u8 as u64 + 1", i), MV::U(i as u64 + 1), true)),
        (1u32..1000).prop_map(|i| M::Unquote(format!("{}.5f64", i), MV::f(i as f64 + 0.5), true)),
        "[a-z ]{0,6}".prop_map(|s| M::Unquote(format!("{:?}", s), MV::Str(s), true)),
        "[a-z]{0,6}".prop_map(|s| M::Unquote(format!("String::from({:?})", s), MV::Str(s), true)),
        any::<bool>().prop_map(|b| M::Unquote(format!("{}", b), MV::Bool(b), true)),
        Just(M::Unquote("'q'".into(), MV::Char('q' as u32), true)),
        vec(any::<u8>(), 0..4).prop_map(|b| {
            let src = if b.is_empty() {
                "Vec::<u8>::new()".to_string()
            } else {
                format!("vec![{}]", b.iter().map(|x| format!("{}u8", x)).collect::<Vec<_>>().join(", "))
            };
            M::Unquote(src, MV::Bytes(b), true)
        }),
        (0i64..100, "[a-z]{1,4}").prop_map(|(i, s)| M::Unquote(format!("({}i32, {:?})", i, s), MV::List(vec![MV::int(i as i128)], Box::new(MV::Str(s))), true)),
        Just(M::Unquote("Value::symbol(\"from-value\")".into(), MV::sym("from-value"), true)),
        // expressions that bring their own delimiters: a tuple (the pair conversion), a block, an array reference, a call
        (0i64..100, "[a-z]{1,4}").prop_map(|(i, s)| M::Unquote(format!("({}i32, {:?})", i, s), MV::List(vec![MV::int(i as i128)], Box::new(MV::Str(s))), false)),
        (0u64..100).prop_map(|i| M::Unquote(format!("{{ let z = {}u32; z + 1 }}", i), MV::U(i + 1), false)),
        (0u64..100).prop_map(|i| M::Unquote(format!("({}u8, ({}u8, \"t\"))", i, i), MV::List(vec![MV::U(i), MV::U(i)], Box::new(MV::Str("t".into()))), false)),
        // plain identifiers bound in the generated program
        Just(M::Unquote("var_int".into(), MV::U(42), false)),
        Just(M::Unquote("var_str".into(), MV::Str("bound".into()), false)),
        Just(M::Unquote("var_val".into(), MV::list(vec![MV::sym("x"), MV::U(1)]), false)),
        // expressions with a side effect on shared state (numbered by number_ticks)
        Just(M::Unquote("tick(&ctr)".into(), MV::U(0), true)),
        Just(M::Unquote("tick(&ctr)".into(), MV::U(0), true)),
    ]
    .boxed()
}

fn g_atom_m() -> BS<M> {
    // short decimal forms, also far enough from 1 that `{:?}` switches to
    // exponent notation (below 1e-4, from 1e16), and spelled with an explicit
    // exponent (`2.5e-3`, `2.5E-3`): in Rust the sign of the exponent is part
    // of the literal token
    let short_float = (1i64..100_000, prop_oneof![3 => -4i32..=4, 2 => -12i32..=-5, 1 => 12i32..=17], any::<bool>(), prop_oneof![3 => Just(0u8), 1 => Just(1u8), 1 => Just(2u8)]).prop_map(|(m, e, neg, sp)| {
        let x: f64 = format!("{}{}e{}", if neg { "-" } else { "" }, m, e).parse().unwrap();
        M::Float(x.to_bits(), sp)
    });
    prop_oneof![
        4 => prop_oneof![(-1000i64..1000), (i32::MIN as i64..=i32::MAX as i64), Just(0i64), Just(i32::MAX as i64), Just(i32::MIN as i64 + 1)].prop_map(|i| M::Int(i, 0)),
        1 => (0i64..i64::MAX, 1u8..3).prop_map(|(i, s)| M::Int(i, s)),
        2 => short_float,
        3 => g_string(8).prop_map(M::Str),
        2 => g_char().prop_map(M::Char),
        1 => any::<bool>().prop_map(M::Bool),
        1 => Just(M::Nil),
        1 => Just(M::Null),
        4 => g_rust_ident().prop_map(M::Ident),
        2 => g_quoted_name().prop_map(M::QSym),
        4 => (0..PUNCT_SYMBOLS.len()).prop_map(|i| M::Punct(PUNCT_SYMBOLS[i].to_string())),
        2 => (g_rust_ident(), 0u8..2).prop_map(|(s, k)| M::Kw(s, k)),
        1 => g_quoted_name().prop_map(|s| M::Kw(s, 2)),
        2 => g_unquote(),
    ]
    .boxed()
}

/// Remove what Rust tokenisation cannot express (returns how many fix-ups).
fn sanitise(m: M, excluded: &mut u64) -> M {
    fn fix_seq(xs: Vec<M>, excluded: &mut u64) -> Vec<M> {
        let mut out: Vec<M> = Vec::new();
        for x in xs {
            let x = sanitise(x, excluded);
            if let Some(M::Punct(p)) = out.last() {
                let next_is_literal = matches!(x, M::Int(..) | M::Float(..) | M::Str(_) | M::Char(_));
                let next_is_ident = matches!(x, M::Ident(_));
                let joins = (p == "-" && next_is_literal) || (p == ":" && (next_is_ident || next_is_literal));
                if joins {
                    *excluded += 1;
                    out.push(M::Ident("sep".into()));
                }
            }
            out.push(x);
        }
        out
    }
    match m {
        M::List(xs, tail) => {
            let xs = fix_seq(xs, excluded);
            let tail = tail.map(|t| Box::new(sanitise(*t, excluded)));
            // `( . x)` is not a list; a dotted list needs at least one element
            if xs.is_empty() && tail.is_some() {
                *excluded += 1;
                return M::List(vec![M::Ident("head".into())], tail);
            }
            M::List(xs, tail)
        }
        M::Vector(xs) => M::Vector(fix_seq(xs, excluded)),
        other => other,
    }
}

/// `,(tick(&ctr))` draws from a counter shared by the whole invocation: the
/// k-th one in source order contributes k. A macro expansion that evaluates the
/// unquoted expressions in another order than they are written builds a
/// different value.
fn number_ticks(m: M, next: &mut u64) -> M {
    match m {
        M::Unquote(src, _, paren) if src == "tick(&ctr)" => {
            *next += 1;
            M::Unquote(src, MV::U(*next), paren)
        }
        M::List(xs, t) => {
            let xs = xs.into_iter().map(|x| number_ticks(x, next)).collect();
            let t = t.map(|t| Box::new(number_ticks(*t, next)));
            M::List(xs, t)
        }
        M::Vector(xs) => M::Vector(xs.into_iter().map(|x| number_ticks(x, next)).collect()),
        other => other,
    }
}

/// `,var_val` moves the variable: allow it once per invocation.
fn dedupe_var_val(m: M, seen: &mut bool) -> M {
    match m {
        M::Unquote(src, v, paren) if src == "var_val" => {
            if *seen {
                M::Unquote("var_int".into(), MV::U(42), false)
            } else {
                *seen = true;
                M::Unquote(src, v, paren)
            }
        }
        M::List(xs, t) => {
            let xs = xs.into_iter().map(|x| dedupe_var_val(x, seen)).collect();
            let t = t.map(|t| Box::new(dedupe_var_val(*t, seen)));
            M::List(xs, t)
        }
        M::Vector(xs) => M::Vector(xs.into_iter().map(|x| dedupe_var_val(x, seen)).collect()),
        other => other,
    }
}

fn g_tree() -> BS<M> {
    let leaf = g_atom_m();
    leaf.prop_recursive(5, 40, 5, |inner| {
        prop_oneof![
            4 => vec(inner.clone(), 0..5).prop_map(|xs| M::List(xs, None)),
            2 => (vec(inner.clone(), 1..4), inner.clone()).prop_map(|(xs, t)| M::List(xs, Some(Box::new(t)))),
            2 => vec(inner, 0..5).prop_map(M::Vector),
        ]
    })
    .boxed()
}

// ------------------------------------------------------------------ crate generation

const HYGIENE_EXCLUDED: &[&str] = &[
    "as", "break", "const", "continue", "crate", "else", "enum", "extern", "false", "fn", "for", "if", "impl", "in", "let", "loop", "match", "mod", "move", "mut", "pub", "ref",
    "return", "self", "static", "struct", "super", "trait", "true", "type", "unsafe", "use", "where", "while", "async", "await", "dyn", "abstract", "become", "box", "do", "final",
    "macro", "override", "priv", "typeof", "unsized", "virtual", "yield", "try", "gen", "_", "union", "var_int", "var_str", "var_val", "ctr", "tick", "check", "main", "u8", "u16",
    "u32", "u64", "i8", "i16", "i32", "i64", "f32", "f64", "usize", "isize", "bool", "char", "str", "std", "lexpr", "sexp", "via",
];

/// Every lower-case identifier that occurs in the source of the macro crate
/// under test (read from the path the generated crate depends on): names a
/// careless expansion could bind or shadow at the call site.
fn macro_crate_identifiers() -> Vec<String> {
    let manifest = std::fs::read_to_string(c09_dir().join("Cargo.toml")).unwrap_or_default();
    let lexpr_path = manifest.split("path = \"").nth(1).and_then(|r| r.split('"').next()).unwrap_or("/repo/lexpr").to_string();
    let dir = PathBuf::from(lexpr_path).parent().map(|p| p.join("lexpr-macros").join("src")).unwrap_or_else(|| PathBuf::from("/repo/lexpr-macros/src"));
    let mut names = std::collections::BTreeSet::new();
    if let Ok(rd) = std::fs::read_dir(&dir) {
        let mut files: Vec<PathBuf> = rd.filter_map(|e| e.ok().map(|e| e.path())).filter(|p| p.extension().map_or(false, |x| x == "rs")).collect();
        files.sort();
        for f in files {
            let text = std::fs::read_to_string(&f).unwrap_or_default();
            let mut cur = String::new();
            for c in text.chars().chain(std::iter::once(' ')) {
                if c.is_ascii_alphanumeric() || c == '_' {
                    cur.push(c);
                } else {
                    let lower = cur.chars().all(|c| c.is_ascii_lowercase() || c.is_ascii_digit() || c == '_') && cur.chars().next().map_or(false, |c| c.is_ascii_lowercase() || c == '_');
                    if lower && !HYGIENE_EXCLUDED.contains(&cur.as_str()) && !RUST_KEYWORDS.contains(&cur.as_str()) && cur.len() <= 24 {
                        names.insert(cur.clone());
                    }
                    cur.clear();
                }
            }
        }
    }
    names.into_iter().collect()
}

/// Call-site variables (bound to 7u32) that the unquoted expressions of `m` mention.
fn hygiene_vars(m: &M, names: &[String], out: &mut Vec<String>) {
    match m {
        M::Unquote(src, _, _) => {
            let mut cur = String::new();
            for c in src.chars().chain(std::iter::once(' ')) {
                if c.is_ascii_alphanumeric() || c == '_' {
                    cur.push(c);
                } else {
                    if names.iter().any(|n| *n == cur) && !out.contains(&cur) {
                        out.push(cur.clone());
                    }
                    cur.clear();
                }
            }
        }
        M::List(xs, t) => {
            xs.iter().for_each(|x| hygiene_vars(x, names, out));
            if let Some(t) = t {
                hygiene_vars(t, names, out);
            }
        }
        M::Vector(xs) => xs.iter().for_each(|x| hygiene_vars(x, names, out)),
        _ => {}
    }
}

fn c09_dir() -> PathBuf {
    std::env::var_os("VERIF_DIR").map(PathBuf::from).unwrap_or_else(|| PathBuf::from("/verif")).join("c09")
}

fn target_dir() -> PathBuf {
    std::env::var_os("VERIF_DIR").map(PathBuf::from).unwrap_or_else(|| PathBuf::from("/verif")).join("target").join("c09")
}

const HEADER: &str = r#"// generated by `vp run C09` - do not edit
#![allow(unused, clippy::all)]
use lexpr::{sexp, Cons, Number, Value};

fn check(id: usize, got: Value, text: Option<&str>, model: Value) {
    let mut problems: Vec<String> = Vec::new();
    if got != model {
        problems.push(format!("macro={:?} model={:?}", got, model));
    }
    if let Some(t) = text {
        match lexpr::from_str(t) {
            Ok(p) => {
                if p != got {
                    problems.push(format!("macro={:?} parsed={:?} text={:?}", got, p, t));
                }
            }
            Err(e) => problems.push(format!("text {:?} does not parse: {}", t, e)),
        }
    }
    if problems.is_empty() {
        println!("CASE {} ok", id);
    } else {
        println!("CASE {} FAIL {}", id, problems.join(" ; "));
    }
}

fn tick(c: &std::cell::Cell<u64>) -> u64 {
    c.set(c.get() + 1);
    c.get()
}

fn main() {
    let var_int = 42u32;
    let var_str = "bound";
    let var_val = Value::list(vec![Value::symbol("x"), Value::from(1u8)]);
"#;

fn write_crate(cases: &[(usize, &M)]) -> Vec<usize> {
    let dir = c09_dir();
    let _ = std::fs::create_dir_all(dir.join("src"));
    let mut src = String::from(HEADER);
    let header_lines = src.lines().count();
    let mut line_to_case = Vec::new();
    let names = macro_crate_identifiers();
    for (id, m) in cases {
        let model = m.model();
        let mut hv = Vec::new();
        hygiene_vars(m, &names, &mut hv);
        let lets: String = hv.iter().map(|n| format!("#[allow(unused_variables, non_snake_case)] let {} = 7u32; ", n)).collect();
        let text = if m.has_unquote() {
            "None".to_string()
        } else {
            format!("Some({})", rust_str(&lexpr::to_string(&model.to_value()).unwrap_or_default()))
        };
        // one invocation per source line
        let invocation = if via_macro_rules(m) {
            let mut args = Vec::new();
            let body = macro_src_params(m, &mut args);
            let params: Vec<String> = (0..args.len()).map(|k| format!("$e{}:expr", k)).collect();
            format!("{{ macro_rules! via {{ ({}) => {{ sexp!({}) }}; }} via!({}) }}", params.join(", "), body, args.join(", "))
        } else {
            format!("sexp!({})", m.macro_src())
        };
        src.push_str(&format!("    {{ let var_val = var_val.clone(); let ctr = std::cell::Cell::new(0u64); let _ = &ctr; {}check({}, {}, {}, {}); }}\n", lets, id, invocation, text, rust_expr(&model)));
        line_to_case.push(*id);
    }
    src.push_str("}\n");
    std::fs::write(dir.join("src").join("main.rs"), src).expect("write c09 main.rs");
    let _ = header_lines;
    line_to_case
}

struct BuildOutcome {
    ok: bool,
    /// (line, message)
    errors: Vec<(usize, String)>,
    other: String,
}

fn cargo_build() -> BuildOutcome {
    let out = Command::new("cargo")
        .args(["build", "--offline", "--message-format=json", "--target-dir"])
        .arg(target_dir())
        .current_dir(c09_dir())
        .env("CARGO_NET_OFFLINE", "true")
        .output();
    let out = match out {
        Ok(o) => o,
        Err(e) => return BuildOutcome { ok: false, errors: vec![], other: format!("cannot run cargo: {}", e) },
    };
    let mut errors = Vec::new();
    for line in String::from_utf8_lossy(&out.stdout).lines() {
        if let Ok(j) = serde_json::from_str::<Json>(line) {
            if j["reason"] == "compiler-message" && j["message"]["level"] == "error" {
                let msg = j["message"]["message"].as_str().unwrap_or("").to_string();
                let mut lines: Vec<usize> = Vec::new();
                if let Some(spans) = j["message"]["spans"].as_array() {
                    for s in spans {
                        if s["file_name"].as_str().map_or(false, |f| f.ends_with("main.rs")) {
                            // for macro-generated spans use the outermost expansion site
                            let mut cur = s;
                            let mut line = cur["line_start"].as_u64().unwrap_or(0) as usize;
                            while let Some(exp) = cur.get("expansion").filter(|e| !e.is_null()) {
                                cur = &exp["span"];
                                if cur["file_name"].as_str().map_or(false, |f| f.ends_with("main.rs")) {
                                    line = cur["line_start"].as_u64().unwrap_or(0) as usize;
                                }
                            }
                            lines.push(line);
                        }
                    }
                }
                lines.sort();
                lines.dedup();
                if lines.is_empty() {
                    errors.push((0, msg));
                } else {
                    for l in lines {
                        errors.push((l, msg.clone()));
                    }
                }
            }
        }
    }
    BuildOutcome {
        ok: out.status.success(),
        errors,
        other: clip(&String::from_utf8_lossy(&out.stderr), 600),
    }
}

fn run_binary() -> Result<BTreeMap<usize, Result<(), String>>, String> {
    let exe = target_dir().join("debug").join("c09");
    let out = Command::new(&exe).output().map_err(|e| format!("cannot run {:?}: {}", exe, e))?;
    let mut res = BTreeMap::new();
    for line in String::from_utf8_lossy(&out.stdout).lines() {
        if let Some(rest) = line.strip_prefix("CASE ") {
            let mut it = rest.splitn(3, ' ');
            let id: usize = it.next().and_then(|s| s.parse().ok()).unwrap_or(usize::MAX);
            match it.next() {
                Some("ok") => {
                    res.insert(id, Ok(()));
                }
                _ => {
                    res.insert(id, Err(it.next().unwrap_or("").to_string()));
                }
            }
        }
    }
    if !out.status.success() {
        return Err(format!("generated program exited with {:?}: {}", out.status.code(), clip(&String::from_utf8_lossy(&out.stderr), 400)));
    }
    Ok(res)
}

fn construct_of(m: &M, model_diff_hint: &str) -> String {
    // the class of the smallest construct present, for signatures
    let mut cs = Vec::new();
    m.classes(&mut cs);
    cs.sort();
    let interesting: Vec<&str> = cs
        .iter()
        .copied()
        .filter(|c| c.contains("punct") || c.contains("tail") || c.contains("unquote") || c.contains("kw") || c.contains("quoted"))
        .collect();
    let _ = model_diff_hint;
    if interesting.is_empty() {
        cs.first().copied().unwrap_or("m:atom").to_string()
    } else {
        interesting.join("+")
    }
}

/// Evaluate a batch; returns per-case results.
fn eval_batch(cases: &[M]) -> Result<Vec<Result<(), (String, String)>>, String> {
    let mut results: Vec<Option<Result<(), (String, String)>>> = vec![None; cases.len()];
    let mut active: Vec<usize> = (0..cases.len()).collect();
    for _round in 0..8 {
        let batch: Vec<(usize, &M)> = active.iter().map(|i| (*i, &cases[*i])).collect();
        let header_lines = HEADER.lines().count();
        let ids = write_crate(&batch);
        let b = cargo_build();
        if b.ok {
            let run = run_binary()?;
            for i in &active {
                match run.get(i) {
                    Some(Ok(())) => results[*i] = Some(Ok(())),
                    Some(Err(msg)) => results[*i] = Some(Err(("value-mismatch".into(), msg.clone()))),
                    None => results[*i] = Some(Err(("no-verdict".into(), "the generated program printed no verdict for this invocation".into()))),
                }
            }
            return Ok(results.into_iter().map(|r| r.unwrap_or(Ok(()))).collect());
        }
        // attribute errors to invocations by line
        let mut bad: Vec<usize> = Vec::new();
        for (line, msg) in &b.errors {
            if *line > header_lines && *line - header_lines - 1 < ids.len() {
                let id = ids[*line - header_lines - 1];
                if results[id].is_none() {
                    results[id] = Some(Err(("compile-error".into(), clip(msg, 200))));
                    bad.push(id);
                }
            }
        }
        if bad.is_empty() {
            return Err(format!("the generated crate does not compile and no error could be attributed to an invocation: {:?} {}", b.errors.iter().take(3).collect::<Vec<_>>(), b.other));
        }
        active.retain(|i| !bad.contains(i));
    }
    Err("too many compile-error rounds".into())
}

fn judge_case(m: &M, r: &Result<(), (String, String)>) -> CaseResult {
    match r {
        Ok(()) => {
            let mut cs = Vec::new();
            m.classes(&mut cs);
            Ok(Eval::new(m.nontrivial(), digest_of(&m.macro_src())).classes(&cs))
        }
        Err((kind, msg)) => Err(Failure::new(
            format!("C09 {} construct={}{}", kind, construct_of(m, msg), if via_macro_rules(m) { " via=macro_rules-expr-fragments" } else { "" }),
            format!("sexp!({}){}: {}", clip(&m.macro_src(), 200), if via_macro_rules(m) { " (unquoted expressions passed as expr fragments of a macro_rules! macro)" } else { "" }, clip(msg, 400)),
            json!({"tree": m}),
        )),
    }
}

/// Structural shrink candidates of a failing tree.
fn shrink_candidates(m: &M) -> Vec<M> {
    let mut out = Vec::new();
    match m {
        M::List(xs, t) => {
            for x in xs {
                out.push(x.clone());
            }
            if let Some(t) = t {
                out.push((**t).clone());
                out.push(M::List(xs.clone(), None));
            }
            for i in 0..xs.len() {
                let mut ys = xs.clone();
                ys.remove(i);
                if !(ys.is_empty() && t.is_some()) {
                    out.push(M::List(ys, t.clone()));
                }
            }
            for (i, x) in xs.iter().enumerate() {
                for c in shrink_candidates(x) {
                    let mut ys = xs.clone();
                    ys[i] = c;
                    out.push(M::List(ys, t.clone()));
                }
            }
        }
        M::Vector(xs) => {
            for x in xs {
                out.push(x.clone());
            }
            for i in 0..xs.len() {
                let mut ys = xs.clone();
                ys.remove(i);
                out.push(M::Vector(ys));
            }
        }
        _ => {}
    }
    out.truncate(60);
    out
}

fn run(ctx: &mut Ctx) {
    let tier = ctx.tier;
    let batches = tier.pick(2usize, 12usize);
    let per_batch = tier.pick(600usize, 1500usize);
    // fixed battery: the documented examples and the positions the statement names
    let p = |s: &str| M::Punct(s.to_string());
    let id = |s: &str| M::Ident(s.to_string());
    let battery: Vec<M> = vec![
        M::List(vec![p("+"), M::Int(1, 0), M::Int(2, 0)], None),
        M::List(vec![id("a"), p("..."), id("b")], None),
        M::List(vec![id("a"), p("...")], None),
        M::List(vec![p("..."), id("a")], None),
        M::List(vec![id("a"), p("<="), id("b")], None),
        M::List(vec![id("a"), p("-")], None),
        M::List(vec![id("a")], Some(Box::new(p("+")))),
        M::List(vec![id("a")], Some(Box::new(p("...")))),
        M::List(vec![M::Int(1, 0)], Some(Box::new(M::List(vec![M::Int(2, 0)], Some(Box::new(M::List(vec![M::Int(3, 0)], Some(Box::new(M::Null))))))))),
        M::List(vec![M::Int(1, 0), M::Int(2, 0)], Some(Box::new(id("three")))),
        M::List(vec![M::Int(1, 0)], Some(Box::new(M::List(vec![M::Int(2, 0)], Some(Box::new(id("x"))))))),
        M::Punct("!$%&*+-./:<=>?@^~".into()),
        M::Vector(vec![M::Int(1, 0), M::Int(2, 0), M::Str("three".into())]),
        M::QSym("kebab-symbol".into()),
        M::Kw("kebab-keyword".into(), 2),
        M::Kw("keyword".into(), 1),
        M::Char('λ' as u32),
        M::List(vec![M::Int(41, 0), M::Unquote("var_int".into(), MV::U(42), false), M::Int(43, 0)], None),
        M::List(vec![M::List(vec![id("answer")], Some(Box::new(M::Unquote("40 + 2".into(), MV::U(42), true))))], None),
        M::List(vec![id("a")], Some(Box::new(M::Unquote("var_val".into(), MV::list(vec![MV::sym("x"), MV::U(1)]), false)))),
        M::List(vec![M::Int(-5, 0), M::Float((-1.5f64).to_bits(), 0), M::Float((-2.5e-7f64).to_bits(), 0), M::Float((-2.5e-3f64).to_bits(), 1)], None),
        M::List(vec![id("a"), p(".."), id("b")], None),
        M::Vector(vec![id("a"), p("..."), id("b")]),
        // evaluation order of unquoted expressions: elements, nested elements, dotted tail, vector
        number_ticks(
            M::List(
                vec![
                    M::Unquote("tick(&ctr)".into(), MV::U(0), true),
                    M::List(vec![M::Unquote("tick(&ctr)".into(), MV::U(0), true)], Some(Box::new(M::Unquote("tick(&ctr)".into(), MV::U(0), true)))),
                    M::Vector(vec![M::Unquote("tick(&ctr)".into(), MV::U(0), true), M::Unquote("tick(&ctr)".into(), MV::U(0), true)]),
                ],
                Some(Box::new(M::Unquote("tick(&ctr)".into(), MV::U(0), true))),
            ),
            &mut 0,
        ),
    ];
    // hygiene: call-site variables named like the identifiers of the macro
    // crate itself, unquoted as element, nested element, vector element and
    // dotted tail - the expansion must not bind or shadow any of them
    let mut battery = battery;
    let hyg = macro_crate_identifiers();
    ctx.add_sample("hygiene", json!({"identifiers_of_the_macro_crate": hyg.len(), "some": hyg.iter().step_by(9).take(16).collect::<Vec<_>>()}));
    for n in &hyg {
        let u = |src: String, v: u64, paren: bool| M::Unquote(src, MV::U(v), paren);
        // written directly and through the macro_rules! wrapper (which has a
        // hygiene of its own and would hide a capture): the head symbol is
        // varied until the emission rule picks each route once
        let (mut direct, mut wrapped) = (false, false);
        for k in 0..24 {
            let t = M::List(
                vec![
                    id(&format!("h{}", k)),
                    u(n.clone(), 7, false),
                    M::List(vec![u(format!("{} + 1", n), 8, true)], Some(Box::new(u(n.clone(), 7, false)))),
                    M::Vector(vec![u(n.clone(), 7, false), u(format!("{} * 2", n), 14, true)]),
                ],
                Some(Box::new(u(format!("{} - 1", n), 6, true))),
            );
            let via = via_macro_rules(&t);
            if (via && !wrapped) || (!via && !direct) {
                if via {
                    wrapped = true;
                } else {
                    direct = true;
                }
                battery.push(t);
            }
            if direct && wrapped {
                break;
            }
        }
    }
    let mut excluded = 0u64;
    let mut all_failures = 0usize;
    for b in 0..batches {
        let mut trees: Vec<M> = if b == 0 { battery.clone() } else { Vec::new() };
        let gen = ctx.sample_values(&format!("trees/{}", b), &g_tree(), per_batch);
        for t in gen {
            trees.push(number_ticks(dedupe_var_val(sanitise(t, &mut excluded), &mut false), &mut 0));
        }
        // distinct invocations only
        let mut seen = std::collections::BTreeSet::new();
        trees.retain(|t| seen.insert(t.macro_src()));
        match eval_batch(&trees) {
            Err(e) => {
                ctx.inconclusive.push(format!("batch {}: {}", b, e));
                continue;
            }
            Ok(results) => {
                let mut failing: Vec<M> = Vec::new();
                for (t, r) in trees.iter().zip(results.iter()) {
                    if r.is_err() {
                        failing.push(t.clone());
                    }
                    ctx.observe(&format!("batch/{}", b), judge_case(t, r));
                }
                all_failures += failing.len();
                // batched shrinking: all structural candidates of the failing trees in one crate
                let mut frontier: Vec<M> = failing.into_iter().take(12).collect();
                for _round in 0..tier.pick(2, 5) {
                    if frontier.is_empty() {
                        break;
                    }
                    let mut cands: Vec<M> = Vec::new();
                    for f in &frontier {
                        cands.extend(shrink_candidates(f));
                    }
                    let mut seen = std::collections::BTreeSet::new();
                    cands.retain(|t| seen.insert(t.macro_src()));
                    cands.truncate(600);
                    if cands.is_empty() {
                        break;
                    }
                    match eval_batch(&cands) {
                        Err(_) => break,
                        Ok(rs) => {
                            let mut next = Vec::new();
                            for (t, r) in cands.iter().zip(rs.iter()) {
                                if r.is_err() {
                                    ctx.observe(&format!("shrink/{}", b), judge_case(t, r));
                                    next.push(t.clone());
                                }
                            }
                            next.sort_by_key(|t| t.macro_src().len());
                            next.truncate(12);
                            frontier = next;
                        }
                    }
                }
            }
        }
        ctx.flush_failures();
    }
    let _ = all_failures;
    ctx.exclude("punctuation symbols separated from a following literal / identifier / punctuation (Rust tokenisation ambiguity)", excluded);
    for t in battery.iter().take(6) {
        ctx.add_sample("battery", json!({"invocation": format!("sexp!({})", t.macro_src()), "text": lexpr::to_string(&t.model().to_value()).unwrap_or_default()}));
    }
    ctx.required_classes = vec![
        "m:int", "m:int-suffixed", "m:float", "m:string", "m:char", "m:hash-token", "m:ident", "m:quoted-symbol", "m:punct-symbol",
        "m:kw-octothorpe", "m:kw-colon", "m:kw-quoted", "m:list", "m:dotted-list", "m:vector", "m:tail-is-list", "m:tail-is-dotted-list",
        "m:tail-is-unquote", "m:unquote-ident", "m:unquote-expr", "m:punct-first", "m:punct-middle", "m:punct-last",
    ];
}

fn replay(_sub: &str, case: &Json) -> Option<CaseResult> {
    let m: M = serde_json::from_value(case.get("tree")?.clone()).ok()?;
    match eval_batch(std::slice::from_ref(&m)) {
        Ok(rs) => Some(judge_case(&m, &rs[0])),
        Err(_) => None,
    }
}
