//! C12 — datum sequences, trivia insensitivity, terminating iteration.

use lexpr::parse::Parser;
use lexpr::Value;
use proptest::collection::vec;
use proptest::prelude::*;
use serde::{Deserialize, Serialize};
use serde_json::{json, Value as Json};

use crate::engine::*;
use crate::gen::*;
use crate::gen_text::*;
use crate::layout::*;
use crate::model::*;
use crate::mv::*;
use crate::opts::*;
use crate::props::c01::ryu_text;
use crate::props::c02::in_domain;
use crate::props::c03::Shape;
use crate::props::c11::{float_ok, g_layout_value};
use crate::props::Prop;
use crate::util::*;

pub const PROP: Prop = Prop {
    id: "C12",
    level: "exploration",
    rule: "(round 9: layouts close dotted lists with brackets too) (round 8: comment bodies with every control character, NUL included; after any generated sequence and after 1-12 copies of a datum in its alternative spellings the same parser still reads a datum at the measured nesting limit) (rounds 6-7: streams of 60 000 (400 000) comment lines, blanks and complete datums in child processes; 24 kinds of erroneous item repeated 1-300 times followed by a datum nested 60-126 levels; trivia inside the innermost datum of a nest at the measured nesting limit, value and datum API) (plus sequences that begin with a token of 256 B .. 128 KiB, with and without escapes, followed by strings and other values) (seq) lists of 0-12 values printed in the default and Emacs Lisp dialects and joined by generated trivia over {space, tab, CR, LF, FF, ';...\\n'} (at least one trivia byte between values, any before and after, optionally a final comment without newline) must parse to exactly those values, then end of input, with expect_end Ok; (trivia) one value laid out canonically and with generated trivia at every token boundary must give the same value; (iter) arbitrary inputs (token sequences, mutations, bytes, hundreds of repeated small datums) iterated in the four ways, continuing after errors, must end within len+2 items, yield at most len successful items, and agree; (hist) generated call histories over next_value, next_datum, expect_value, expect_datum, expect_end, value_iter().next(), datum_iter().next(), Iterator::next on one parser are compared with a queue model. non-trivial = at least 2 values with trivia containing a comment or 2 distinct whitespace kinds; for iter/hist at least one error item or at least 3 operations; distinct by digest of the case",
    assumptions: &[
        "after an error only termination and absence of panics are required of later calls on the same parser",
        "float acceptance as in C01",
    ],
    run,
    replay,
    builds: &["ff"],
};

#[derive(Clone, Debug, Serialize, Deserialize, Hash)]
pub enum Case {
    Seq { elisp: bool, values: Vec<MV>, trivia: Vec<String>, tail_comment: bool },
    Trivia { value: MV, q: usize, choices: Vec<u32> },
    Iter { input: Vec<u8>, q: usize },
    Hist { q: usize, values: Vec<MV>, choices: Vec<u32>, ops: Vec<u8>, bad_at: Option<usize> },
}

fn fail(sig: String, msg: String, c: &Case) -> Failure {
    Failure::new(format!("C12 {}", sig), msg, json!({"case": c}))
}

fn ws_kinds(t: &str) -> u32 {
    let mut k = 0;
    for (i, c) in [' ', '\t', '\r', '\n', '\x0c'].iter().enumerate() {
        if t.contains(*c) {
            k |= 1 << i;
        }
    }
    k
}

fn value_eq(expected: &MV, got: &Value) -> Option<(String, String)> {
    let fl = |a: f64, b: f64| float_roundtrip_ok(a, b, &ryu_text(a));
    mv_diff(&expected.normalize(), &MV::from_value(got), &fl)
}

/// The deepest nesting of lists around an atom that a fresh parser accepts, measured on this tree.
fn nesting_limit() -> usize {
    static LIMIT: std::sync::OnceLock<usize> = std::sync::OnceLock::new();
    *LIMIT.get_or_init(|| (1..=400usize).take_while(|d| lexpr::from_str(&format!("{}x{}", "(".repeat(*d), ")".repeat(*d))).is_ok()).last().unwrap_or(1))
}

fn check_seq(c: &Case) -> CaseResult {
    let (elisp, values, trivia, tail_comment) = match c {
        Case::Seq { elisp, values, trivia, tail_comment } => (*elisp, values, trivia, *tail_comment),
        _ => unreachable!(),
    };
    let (p, q) = if elisp { (POpt::elisp(), QOpt::elisp()) } else { (POpt::default_set(), QOpt::default_set()) };
    let mut text = String::new();
    let tr = |i: usize| trivia.get(i % trivia.len().max(1)).cloned().unwrap_or_else(|| " ".to_string());
    text.push_str(&tr(0));
    let mut all_trivia = String::new();
    for (i, v) in values.iter().enumerate() {
        if i > 0 {
            let mut t = tr(i);
            if t.is_empty() {
                t = " ".into();
            }
            all_trivia.push_str(&t);
            text.push_str(&t);
        }
        text.push_str(&lexpr::to_string_custom(&v.to_value(), p.to_lexpr()).unwrap_or_default());
    }
    let end = tr(values.len() + 1);
    all_trivia.push_str(&end);
    text.push_str(&end);
    if tail_comment {
        text.push_str(";end of input, no newline");
    }
    let r = catch(|| -> Result<(), (String, String)> {
        let mut parser = Parser::from_str_custom(&text, q.to_lexpr());
        for (i, v) in values.iter().enumerate() {
            match parser.next_value() {
                Ok(Some(got)) => {
                    if let Some((kind, d)) = value_eq(&fold(&p, &q, v), &got) {
                        return Err((format!("seq value-mismatch kind={}", kind), format!("item {} of {:?}: {}", i, clip(&text, 300), d)));
                    }
                }
                Ok(None) => return Err(("seq early-end".into(), format!("end of input after {} of {} values in {:?}", i, values.len(), clip(&text, 300)))),
                Err(e) => {
                    return Err((
                        format!("seq parse-error err={} after={}", err_text(&e), if i == 0 { "start" } else { "trivia" }),
                        format!("item {} of {:?} failed: {}", i, clip(&text, 300), e),
                    ))
                }
            }
        }
        match parser.next_value() {
            Ok(None) => {}
            other => return Err(("seq extra-item".into(), format!("after all {} values the parser yields {} for {:?}", values.len(), short(&other.map_err(|e| e.to_string())), clip(&text, 300)))),
        }
        if let Err(e) = parser.expect_end() {
            return Err(("seq expect_end".into(), format!("expect_end fails at the end of {:?}: {}", clip(&text, 300), e)));
        }
        // expect_end directly after the last value must skip trailing trivia
        let mut parser = Parser::from_str_custom(&text, q.to_lexpr());
        for _ in values {
            let _ = parser.next_value();
        }
        if let Err(e) = parser.expect_end() {
            return Err(("seq expect_end-after-trivia".into(), format!("expect_end does not accept the trailing trivia of {:?}: {}", clip(&text, 300), e)));
        }
        // whatever the values were, the parser that has read them is as good
        // as new: a datum nested as deep as a fresh parser accepts (measured)
        // is still accepted after them, by the value and by the datum API
        let limit = nesting_limit();
        let probe = format!("{}x{}", "(".repeat(limit), ")".repeat(limit));
        let with_probe = format!("{}\n{}\n", text, probe);
        for api in ["next_value", "next_datum", "next_value/reader"] {
            let mut last: Result<Option<String>, String> = Ok(None);
            let mut count = 0usize;
            macro_rules! drive {
                ($p:expr, $datum:expr) => {{
                    let mut p = $p;
                    for _ in 0..values.len() + 1 {
                        last = if $datum { p.next_datum().map(|o| o.map(|d| d.value().to_string())).map_err(|e| e.to_string()) } else { p.next_value().map(|o| o.map(|v| v.to_string())).map_err(|e| e.to_string()) };
                        count += 1;
                        if !matches!(last, Ok(Some(_))) {
                            break;
                        }
                    }
                }};
            }
            match api {
                "next_value" => drive!(Parser::from_str_custom(&with_probe, q.to_lexpr()), false),
                "next_datum" => drive!(Parser::from_str_custom(&with_probe, q.to_lexpr()), true),
                _ => drive!(Parser::from_reader_custom(std::io::Cursor::new(with_probe.as_bytes()), q.to_lexpr()), false),
            }
            if count != values.len() + 1 || last.as_ref().ok().and_then(|o| o.as_deref()) != Some(probe.as_str()) {
                return Err((
                    format!("seq probe-at-the-nesting-limit api={}", api),
                    format!("after the {} values of {:?} the same parser does not read a datum nested {} levels (which a fresh parser accepts): item {} is {}", values.len(), clip(&text, 200), limit, count, clip(&short(&last), 120)),
                ));
            }
        }
        Ok(())
    });
    match r {
        Err(pm) => Err(fail(format!("seq panic={}", panic_sig(&pm)), format!("panicked on {:?}: {}", clip(&text, 300), pm), c)),
        Ok(Err((sig, msg))) => Err(fail(sig, msg, c)),
        Ok(Ok(())) => {
            let kinds = ws_kinds(&all_trivia);
            let nt = values.len() >= 2 && (all_trivia.contains(';') || kinds.count_ones() >= 2);
            let mut ev = Eval::new(nt, digest_of(c)).class(if elisp { "seq:elisp" } else { "seq:default" });
            for (i, name) in ["ws:space", "ws:tab", "ws:cr", "ws:lf", "ws:ff"].iter().enumerate() {
                if kinds & (1 << i) != 0 {
                    ev = ev.class(name);
                }
            }
            if all_trivia.contains(';') {
                ev = ev.class("ws:comment");
            }
            if tail_comment {
                ev = ev.class("seq:final-comment-without-newline");
            }
            if values.is_empty() {
                ev = ev.class("seq:empty");
            }
            Ok(ev)
        }
    }
}

fn check_trivia(c: &Case) -> CaseResult {
    let (value, qi, choices) = match c {
        Case::Trivia { value, q, choices } => (value, *q, choices),
        _ => unreachable!(),
    };
    let q = QOpt::from_index(qi);
    let canon = layout(value, &q, LayoutCfg::canonical(), &[]);
    let spaced = layout(value, &q, LayoutCfg { trivia: 2, alt: false, ff: true }, choices);
    let r = catch(|| -> Result<(), (String, String)> {
        let a = lexpr::from_str_custom(&canon.text, q.to_lexpr());
        let b = lexpr::from_str_custom(&spaced.text, q.to_lexpr());
        match (a, b) {
            (Ok(a), Ok(b)) => {
                if a != b {
                    return Err((
                        format!("trivia value-changed kind={}", value_kind(&a)),
                        format!("{:?} reads as {} but with other trivia {:?} reads as {}", clip(&canon.text, 200), short(&a), clip(&spaced.text, 300), short(&b)),
                    ));
                }
                if mv_diff(&value.normalize(), &MV::from_value(&a), &float_ok).is_some() {
                    return Err(("trivia canonical-layout-misread".into(), format!("{:?} does not read as the value it spells: {}", clip(&canon.text, 200), short(&a))));
                }
                // the same datum in its alternative spellings (shorthands, bracket
                // lists, `. ()`, padded delimiters), several times on one parser,
                // then a datum at the measured nesting limit
                let alt = layout(value, &q, LayoutCfg { trivia: 2, alt: true, ff: true }, choices);
                let limit = nesting_limit();
                let probe = format!("{}x{}", "(".repeat(limit), ")".repeat(limit));
                let reps = 1 + choices.first().map_or(0, |c| (*c % 12) as usize);
                let mut stream = String::new();
                for _ in 0..reps {
                    stream.push_str(&alt.text);
                    stream.push('\n');
                }
                stream.push_str(&probe);
                stream.push('\n');
                for datum in [false, true] {
                    let mut p = Parser::from_str_custom(&stream, q.to_lexpr());
                    for i in 0..=reps {
                        let item = if datum { p.next_datum().map(|o| o.map(|d| d.value().clone())) } else { p.next_value() };
                        match item {
                            Ok(Some(v)) if i < reps => {
                                if mv_diff(&MV::from_value(&a), &MV::from_value(&v), &float_ok).is_some() {
                                    return Err((format!("trivia alt-spelling value-changed api={}", if datum { "datum" } else { "value" }), format!("copy {} of {:?} reads as {} but the canonical spelling as {}", i + 1, clip(&alt.text, 200), short(&v), short(&a))));
                                }
                            }
                            Ok(Some(v)) if v.to_string() == probe => {}
                            other => {
                                return Err((
                                    format!("trivia {} api={}", if i < reps { "alt-spelling-rejected" } else { "probe-at-the-nesting-limit" }, if datum { "datum" } else { "value" }),
                                    format!("item {} of a stream of {} copies of {:?} followed by a datum nested {} levels is {}", i + 1, reps, clip(&alt.text, 200), limit, clip(&short(&other.map_err(|e| e.to_string())), 120)),
                                ))
                            }
                        }
                    }
                }
                Ok(())
            }
            (Ok(_), Err(e)) => Err((
                format!("trivia parse-error err={}", err_text(&e)),
                format!("{:?} parses but {:?} (same tokens, other trivia) fails: {}", clip(&canon.text, 200), clip(&spaced.text, 300), e),
            )),
            (Err(e), _) => Err((format!("trivia canonical-parse-error err={}", err_text(&e)), format!("{:?} fails: {}", clip(&canon.text, 200), e))),
        }
    });
    match r {
        Err(pm) => Err(fail(format!("trivia panic={}", panic_sig(&pm)), format!("panicked: {}", pm), c)),
        Ok(Err((sig, msg))) => Err(fail(sig, format!("{} [parser options #{}]", msg, qi), c)),
        Ok(Ok(())) => {
            let extra = &spaced.text;
            let nt = value.is_composite() && (extra.contains(';') || ws_kinds(extra).count_ones() >= 2);
            let mut ev = Eval::new(nt, digest_of(c)).class("trivia:checked");
            if extra.contains('\x0c') {
                ev = ev.class("trivia:ff");
            }
            if extra.contains(';') {
                ev = ev.class("trivia:comment");
            }
            Ok(ev)
        }
    }
}

type Item = Result<MV, String>;

fn check_iter(c: &Case) -> CaseResult {
    let (input, qi) = match c {
        Case::Iter { input, q } => (input, *q),
        _ => unreachable!(),
    };
    let q = QOpt::from_index(qi);
    let cap = input.len() + 2;
    let r = catch(|| -> Result<(usize, usize), (String, String)> {
        let mut ways: Vec<(&'static str, Vec<Item>, bool)> = Vec::new();
        {
            let mut p = Parser::from_slice_custom(input, q.to_lexpr());
            let mut items = Vec::new();
            let mut ended = false;
            for _ in 0..cap {
                match p.next_value() {
                    Ok(Some(v)) => items.push(Ok(MV::from_value(&v))),
                    Ok(None) => {
                        ended = true;
                        break;
                    }
                    Err(e) => items.push(Err(e.to_string())),
                }
            }
            ways.push(("next_value", items, ended));
        }
        {
            let mut p = Parser::from_slice_custom(input, q.to_lexpr());
            let mut it = p.value_iter();
            let mut items = Vec::new();
            let mut ended = false;
            for _ in 0..cap {
                match it.next() {
                    Some(Ok(v)) => items.push(Ok(MV::from_value(&v))),
                    Some(Err(e)) => items.push(Err(e.to_string())),
                    None => {
                        ended = true;
                        break;
                    }
                }
            }
            ways.push(("value_iter", items, ended));
        }
        {
            let mut p = Parser::from_slice_custom(input, q.to_lexpr());
            let mut it = p.datum_iter();
            let mut items = Vec::new();
            let mut ended = false;
            for _ in 0..cap {
                match it.next() {
                    Some(Ok(d)) => items.push(Ok(MV::from_value(d.value()))),
                    Some(Err(e)) => items.push(Err(e.to_string())),
                    None => {
                        ended = true;
                        break;
                    }
                }
            }
            ways.push(("datum_iter", items, ended));
        }
        {
            let mut p = Parser::from_slice_custom(input, q.to_lexpr());
            let mut items = Vec::new();
            let mut ended = false;
            for _ in 0..cap {
                match Iterator::next(&mut p) {
                    Some(Ok(v)) => items.push(Ok(MV::from_value(&v))),
                    Some(Err(e)) => items.push(Err(e.to_string())),
                    None => {
                        ended = true;
                        break;
                    }
                }
            }
            ways.push(("Iterator", items, ended));
        }
        for (name, items, ended) in &ways {
            if !ended {
                let last = items.last().map(|i| match i {
                    Ok(_) => "ok-item".to_string(),
                    Err(e) => err_text_str(e).to_string(),
                });
                return Err((
                    format!("iter no-end way={} repeating={}", name, last.unwrap_or_default()),
                    format!("{} over {:?} has not reached end of input after {} items (len + 2); last items: {}", name, bytes_lossy(input), cap, short(&items.iter().rev().take(3).collect::<Vec<_>>())),
                ));
            }
            let oks = items.iter().filter(|i| i.is_ok()).count();
            if oks > input.len() {
                return Err((format!("iter too-many-items way={}", name), format!("{} successful items from {} bytes", oks, input.len())));
            }
        }
        let first = &ways[0].1;
        for (name, items, _) in ways.iter().skip(1) {
            if items != first {
                let at = items.iter().zip(first.iter()).position(|(a, b)| a != b).unwrap_or(items.len().min(first.len()));
                return Err((
                    format!("iter ways-differ way={}", name),
                    format!("{} and the next_value loop differ at item {} over {:?}: {} vs {}", name, at, bytes_lossy(input), short(&items.get(at)), short(&first.get(at))),
                ));
            }
        }
        Ok((first.len(), first.iter().filter(|i| i.is_err()).count()))
    });
    match r {
        Err(pm) => Err(fail(format!("iter panic={}", panic_sig(&pm)), format!("panicked on {:?}: {}", bytes_lossy(input), pm), c)),
        Ok(Err((sig, msg))) => Err(fail(sig, format!("{} [parser options #{}]", msg, qi), c)),
        Ok(Ok((n, errs))) => {
            let mut ev = Eval::new(errs >= 1 || n >= 3, digest_of(c)).class("iter:checked");
            if errs >= 1 {
                ev = ev.class("iter:error-item");
            }
            if errs >= 2 {
                ev = ev.class("iter:continued-after-error");
            }
            Ok(ev)
        }
    }
}

fn check_hist(c: &Case) -> CaseResult {
    let (qi, values, choices, ops, bad_at) = match c {
        Case::Hist { q, values, choices, ops, bad_at } => (*q, values, choices, ops, *bad_at),
        _ => unreachable!(),
    };
    let q = QOpt::from_index(qi);
    // the stream: layouts of the values, a malformed token optionally in between
    let mut text = String::new();
    let per = (choices.len() / values.len().max(1)).max(1);
    for (i, v) in values.iter().enumerate() {
        if Some(i) == bad_at {
            text.push_str(" ) ");
        }
        let ch = &choices[(i * per).min(choices.len())..((i + 1) * per).min(choices.len())];
        let l = layout(v, &q, LayoutCfg { trivia: 2, alt: true, ff: true }, ch);
        text.push_str(&l.text);
        text.push('\n');
    }
    let r = catch(|| -> Result<usize, (String, String)> {
        let mut p = Parser::from_str_custom(&text, q.to_lexpr());
        let mut queue: std::collections::VecDeque<&MV> = values.iter().collect();
        let mut consumed = 0usize;
        let mut poisoned = false;
        for (step, op) in ops.iter().enumerate() {
            let name = ["next_value", "next_datum", "expect_value", "expect_datum", "expect_end", "value_iter.next", "datum_iter.next", "Iterator::next"][*op as usize % 8];
            // the malformed token sits before value number `bad_at`
            let at_bad = bad_at == Some(consumed) && !poisoned;
            let got: Result<Option<Value>, String> = match *op % 8 {
                0 => p.next_value().map_err(|e| e.to_string()),
                1 => p.next_datum().map(|o| o.map(Value::from)).map_err(|e| e.to_string()),
                2 => p.expect_value().map(Some).map_err(|e| e.to_string()),
                3 => p.expect_datum().map(|d| Some(Value::from(d))).map_err(|e| e.to_string()),
                4 => match p.expect_end() {
                    Ok(()) => Ok(None),
                    Err(e) => Err(e.to_string()),
                },
                5 => p.value_iter().next().transpose().map_err(|e| e.to_string()),
                6 => p.datum_iter().next().transpose().map(|o| o.map(Value::from)).map_err(|e| e.to_string()),
                _ => Iterator::next(&mut p).transpose().map_err(|e| e.to_string()),
            };
            if at_bad || poisoned {
                // at or after the malformed token: only "no panic, returns" is required
                if got.is_err() || at_bad {
                    poisoned = true;
                }
                continue;
            }
            let is_end_op = *op % 8 == 4;
            let is_expect = matches!(*op % 8, 2 | 3);
            match (queue.front().copied(), &got) {
                (_, _) if is_end_op => {
                    let want_ok = queue.is_empty();
                    if got.is_ok() != want_ok {
                        return Err((
                            format!("hist expect_end want={}", if want_ok { "ok" } else { "err" }),
                            format!("step {} expect_end returned {:?} with {} values left in {:?}", step, got, queue.len(), clip(&text, 300)),
                        ));
                    }
                }
                (Some(want), Ok(Some(v))) => {
                    if mv_diff(&want.normalize(), &MV::from_value(v), &float_ok).is_some() {
                        return Err((format!("hist wrong-item op={}", name), format!("step {} {} returned {} but the next value is {} in {:?}", step, name, short(v), short(want), clip(&text, 300))));
                    }
                    queue.pop_front();
                    consumed += 1;
                }
                (None, Ok(None)) if !is_expect => {}
                (None, Err(e)) if is_expect && e.starts_with("EOF while parsing") => {}
                (want, got) => {
                    return Err((
                        format!("hist unexpected op={} at={}", name, if want.is_some() { "value" } else { "end" }),
                        format!("step {} {} returned {} but the model expects {} in {:?}", step, name, short(got), short(&want), clip(&text, 300)),
                    ));
                }
            }
        }
        Ok(ops.len())
    });
    match r {
        Err(pm) => Err(fail(format!("hist panic={}", panic_sig(&pm)), format!("panicked on {:?}: {}", clip(&text, 300), pm), c)),
        Ok(Err((sig, msg))) => Err(fail(sig, format!("{} [parser options #{}]", msg, qi), c)),
        Ok(Ok(n)) => {
            let mut ev = Eval::new(n >= 3, digest_of(c)).class("hist:checked");
            if bad_at.is_some() {
                ev = ev.class("hist:malformed-item");
            }
            if ops.iter().any(|o| o % 8 == 4) {
                ev = ev.class("hist:expect_end");
            }
            Ok(ev)
        }
    }
}

pub fn check_case(c: &Case) -> CaseResult {
    match c {
        Case::Seq { .. } => check_seq(c),
        Case::Trivia { .. } => check_trivia(c),
        Case::Iter { .. } => check_iter(c),
        Case::Hist { .. } => check_hist(c),
    }
}

fn g_seq() -> BS<Case> {
    any::<bool>()
        .prop_flat_map(|elisp| {
            let (p, q) = if elisp { (POpt::elisp(), QOpt::elisp()) } else { (POpt::default_set(), QOpt::default_set()) };
            let cfg = ValueCfg { ident: ident_rules(&p, &q), bytes: true, keywords: true, depth: 3, nodes: 16, branch: 4, str_max: 8 };
            (vec(g_value(cfg), 0..=12), vec(g_trivia(true), 1..6), prop_oneof![3 => Just(false), 1 => Just(true)])
                .prop_map(move |(values, trivia, tail_comment)| {
                    let values = values.into_iter().filter(|v| in_domain(&p, &q, v)).collect();
                    Case::Seq { elisp, values, trivia, tail_comment }
                })
        })
        .boxed()
}

/// Sequences in which a token at a buffer-size threshold (up to 64 KiB, with
/// and without escapes) comes first and ordinary values follow: state kept
/// between tokens of one parser (scratch space, look-ahead) must not leak.
fn g_seq_big() -> BS<Case> {
    any::<bool>()
        .prop_flat_map(|elisp| {
            let (p, q) = if elisp { (POpt::elisp(), QOpt::elisp()) } else { (POpt::default_set(), QOpt::default_set()) };
            let cfg = ValueCfg { ident: ident_rules(&p, &q), bytes: true, keywords: true, depth: 2, nodes: 8, branch: 3, str_max: 8 };
            (g_big_atom(131072), vec(prop_oneof![2 => g_string(8).prop_map(MV::Str), 1 => g_value(cfg)], 1..5), vec(g_trivia(true), 1..4))
                .prop_map(move |(big, rest, trivia)| {
                    let mut values = vec![big];
                    values.extend(rest);
                    let values = values.into_iter().filter(|v| in_domain(&p, &q, v)).collect();
                    Case::Seq { elisp, values, trivia, tail_comment: false }
                })
        })
        .boxed()
}

fn g_triv() -> BS<Case> {
    g_qopt_index()
        .prop_flat_map(|qi| {
            let q = QOpt::from_index(qi);
            (g_layout_value(q, 4, 30), vec(any::<u32>(), 0..160)).prop_map(move |(value, choices)| Case::Trivia { value, q: qi, choices })
        })
        .boxed()
}

fn g_iter(max_len: usize) -> BS<Case> {
    let rep = (vec(prop_oneof![Just(")"), Just("]"), Just("#"), Just("a"), Just("()"), Just("#("), Just("'"), Just("\""), Just("1"), Just("#\\"), Just(". "), Just("\\")], 1..4), 2usize..40)
        .prop_map(|(units, n)| {
            let mut input = Vec::new();
            for i in 0..n {
                input.extend_from_slice(units[i % units.len()].as_bytes());
                input.push(b' ');
            }
            input
        });
    (prop_oneof![5 => g_input(max_len).prop_map(|(b, _)| b), 2 => rep], g_qopt_index())
        .prop_map(|(input, q)| Case::Iter { input, q })
        .boxed()
}

fn g_hist() -> BS<Case> {
    g_qopt_index()
        .prop_flat_map(|qi| {
            let q = QOpt::from_index(qi);
            (vec(g_layout_value(q, 3, 12), 0..6), vec(any::<u32>(), 0..120), vec(0u8..8, 0..12), prop_oneof![3 => Just(None), 1 => (0usize..6).prop_map(Some)])
                .prop_map(move |(values, choices, ops, bad)| {
                    let bad_at = bad.filter(|b| *b < values.len());
                    Case::Hist { q: qi, values, choices, ops, bad_at }
                })
        })
        .boxed()
}

fn run(ctx: &mut Ctx) {
    let tier = ctx.tier;
    use rayon::prelude::*;
    let parent = &*ctx;
    let max_len = tier.pick(200, 1024);
    let children: Vec<Ctx> = (0..16u32)
        .into_par_iter()
        .map(|w| {
            let mut c = parent.fork();
            c.run_prop(&format!("seq/{}", w), tier.pick(1_500, 50_000), g_seq(), check_case);
            c.run_prop(&format!("seq-big/{}", w), tier.pick(6, 60), g_seq_big(), check_case);
            c.run_prop(&format!("trivia/{}", w), tier.pick(1_500, 50_000), g_triv(), check_case);
            c.run_prop(&format!("iter/{}", w), tier.pick(3_000, 80_000), g_iter(max_len), check_case);
            c.run_prop(&format!("hist/{}", w), tier.pick(1_500, 40_000), g_hist(), check_case);
            c
        })
        .collect();
    for c in children {
        ctx.absorb(c);
    }
    // many erroneous items, then a deeply nested datum, through the four ways of
    // iterating: whatever an error leaves behind in one API (a level of the
    // nesting budget, a pending closer) shows as a disagreement on the last item
    {
        let frags = [")", "')", "`)", ",)", ",@)", "'')", "']", "(')", "#(')", "(a ')", "(1 . )", "(1 . 2 3)", "#(1 . 2)", "(. 1)", "#u8(300)", "#u8(a)", "#foo", "#\\spac", "1a#", "(a . b c)", "[)", "(]", "#:", "#|"];
        let mut cases = Vec::new();
        for f in frags {
            for k in [1usize, 50, 130, 300] {
                for (open, close) in [("(", ")"), ("#(", ")"), ("'", ""), ("(a . (", "))")] {
                    for depth in [60usize, 100, 126] {
                        let levels = if open == "(a . (" { depth / 2 } else { depth };
                        let mut t = String::new();
                        for _ in 0..k {
                            t.push_str(f);
                            t.push('\n');
                        }
                        t.push_str(&open.repeat(levels));
                        t.push('x');
                        t.push_str(&close.repeat(levels));
                        t.push_str("\nend");
                        cases.push(Case::Iter { input: t.into_bytes(), q: 0 });
                    }
                }
            }
        }
        ctx.par_sweep("after-errors", cases.into_par_iter(), |c| check_case(&c));
    }
    // trivia inside the innermost datum of a nest that is as deep as the reader
    // accepts (measured on this tree): `()` and `( )`, `#()` and `#( ;c\n)`, ...
    // read alike, through the value and the datum API, and the four ways agree
    {
        let limit = (1..=400usize).take_while(|d| lexpr::from_str(&format!("{}0{}", "(".repeat(*d), ")".repeat(*d))).is_ok()).last().unwrap_or(1);
        let pairs = [("()", "( )"), ("()", "(;c\n)"), ("()", "(\t\n)"), ("#()", "#( )"), ("#()", "#(;c\n )"), ("#u8()", "#u8( )"), ("#u8(1)", "#u8( 1 )"), ("(a)", "( a )"), ("(a . b)", "( a . b )"), ("a", " a "), ("\"s\"", " \"s\" "), ("'()", "' ( )"), ("'a", "' a")];
        for (tight, loose) in pairs {
            for depth in limit.saturating_sub(3)..=limit + 1 {
                for (open, close) in [("(", ")"), ("#(", ")"), ("(x ", ")")] {
                    let wrap = |inner: &str| format!("{}{}{}", open.repeat(depth), inner, close.repeat(depth));
                    let (a, b) = (wrap(tight), wrap(loose));
                    let rv = |t: &str| lexpr::from_str(t).map(|v| MV::from_value(&v)).map_err(|e| err_text(&e));
                    let rd = |t: &str| lexpr::datum::from_str(t).map(|d| MV::from_value(d.value())).map_err(|e| err_text(&e));
                    let r = catch(|| (rv(&a), rv(&b), rd(&a), rd(&b)));
                    let res: CaseResult = match r {
                        Err(pm) => Err(Failure::new(format!("C12 near-limit-trivia panic={}", panic_sig(&pm)), pm, json!({"case": Case::Iter { input: b.clone().into_bytes(), q: 0 }}))),
                        Ok((va, vb, da, db)) => {
                            if va != vb || da != db || va != da {
                                Err(Failure::new(
                                    format!("C12 near-limit-trivia inner={} differs={}", tight, if va != vb { "value-api" } else if da != db { "datum-api" } else { "value-vs-datum" }),
                                    format!("{} levels of {:?} around {:?} and around {:?} read differently: value API {} / {}, datum API {} / {}", depth, open, tight, loose, short(&va), short(&vb), short(&da), short(&db)),
                                    json!({"case": Case::Iter { input: b.clone().into_bytes(), q: 0 }}),
                                ))
                            } else {
                                Ok(Eval::new(true, digest_of(&(tight, loose, depth, open))).class("near-limit-trivia"))
                            }
                        }
                    };
                    ctx.observe("near-limit-trivia", res);
                    // and the four ways of iterating on the loose spelling
                    ctx.observe("near-limit-trivia", check_case(&Case::Iter { input: b.into_bytes(), q: 0 }));
                }
            }
        }
        ctx.flush_failures();
    }
    // long streams, in child processes on a 2 MiB stack: hundreds of thousands
    // of comment lines, blank bytes or complete datums in one stream; every
    // datum comes out, in order, and then the end (a reader that pays stack or
    // a budget per line or per datum breaks only here)
    let sh = long_streams(tier);
    let specs: Vec<Json> = sh.iter().map(|s| serde_json::to_value(s).unwrap()).collect();
    let outs = crate::child::spawn_all("c03", &specs, std::time::Duration::from_secs(60), 12);
    for (s, o) in sh.iter().zip(outs.iter()) {
        match judge_long(s, o) {
            Ok(r) => ctx.observe("long-stream", r),
            Err(inc) => ctx.inconclusive.push(inc),
        }
    }
    ctx.flush_failures();
    for c in ctx.sample_values("seq", &g_seq(), 3) {
        ctx.add_sample("seq", json!({"case": short(&c)}));
    }
    for c in ctx.sample_values("hist", &g_hist(), 3) {
        ctx.add_sample("hist", json!({"case": short(&c)}));
    }
    ctx.required_classes = vec![
        "seq:default", "seq:elisp", "seq:empty", "seq:final-comment-without-newline", "ws:space", "ws:tab", "ws:cr",
        "ws:lf", "ws:ff", "ws:comment", "trivia:checked", "trivia:ff", "trivia:comment", "iter:checked",
        "iter:error-item", "iter:continued-after-error", "hist:checked", "hist:malformed-item", "hist:expect_end", "long-stream",
    ];
}

const LONG_UNITS: [(&str, usize); 12] = [
    (";c\n", 0),
    (" ;\n\t", 0),
    ("\n", 0),
    (" ", 0),
    ("\r\n", 0),
    ("a ", 1),
    ("\"s\" ", 1),
    ("() ", 1),
    ("#t\n;x\n", 1),
    ("1 ;c\n2\n", 2),
    ("(a . b);\n", 1),
    ("#(1);;\n;\n", 1),
];

fn long_streams(tier: Tier) -> Vec<Shape> {
    let mut out = Vec::new();
    for (i, (u, _)) in LONG_UNITS.iter().enumerate() {
        for datum in [false, true] {
            // datum parsing from a str recomputes positions: the long ones come from a stream
            let source = if datum || i % 2 == 0 { 2 } else { 0 };
            out.push(Shape { unit: vec![u.to_string()], n: tier.pick(60_000, 400_000), close: true, groups: 1, q: 0, source, datum, iterated: true, probe: true });
        }
    }
    out
}

fn judge_long(s: &Shape, out: &crate::child::ChildOutcome) -> Result<CaseResult, String> {
    use crate::child::ChildOutcome;
    let per = LONG_UNITS.iter().find(|(u, _)| *u == s.unit.concat()).map(|(_, k)| *k).unwrap_or(0);
    let api = format!("api={}-iter src={}", if s.datum { "datum" } else { "value" }, ["str", "slice", "reader"][s.source as usize % 3]);
    let name = format!("unit={:?} n>=10^4", s.unit.concat());
    let case = json!({"long": s});
    let fail = |sig: String, msg: String| Ok(Err(Failure::new(format!("C12 long-stream {} {}", sig, name), format!("{} [{}]", msg, api), case.clone())));
    match out {
        ChildOutcome::Timeout => Err(format!("watchdog expired for long stream {} ({})", name, api)),
        ChildOutcome::SpawnError(e) => Err(format!("cannot spawn child: {}", e)),
        ChildOutcome::Signal(sig, err) => fail(format!("mode=abort signal={}", sig), format!("iterating a stream of {} repetitions of {:?} killed the process with signal {}: {}", s.n, s.unit.concat(), sig, clip(err, 200))),
        ChildOutcome::Exit(code, text) => fail(format!("mode=panic-or-exit code={}", code), format!("iterating a stream of {} repetitions of {:?} ended the process with status {}: {}", s.n, s.unit.concat(), code, clip(text, 300))),
        ChildOutcome::Result(j) => {
            let oks = j["oks"].as_u64().unwrap_or(0) as usize;
            let errs = j["errs"].as_u64().unwrap_or(0) as usize;
            let ended = j["ended"].as_bool().unwrap_or(false);
            let last = j["last_ok"].as_str().unwrap_or("");
            let want = s.n * per + 2;
            if errs != 0 || oks != want || !ended || last != "(probe 1)" {
                return fail(
                    "mode=items-differ".into(),
                    format!("a stream of {} repetitions of {:?}, then a, then (probe 1) holds {} datums; iteration gave {} items and {} errors {:?}, last item {:?}, end reported: {}", s.n, s.unit.concat(), want, oks, errs, j["errors"], last, ended),
                );
            }
            Ok(Ok(Eval::new(true, digest_of(s)).class("long-stream")))
        }
    }
}

fn replay(_sub: &str, case: &Json) -> Option<CaseResult> {
    if let Some(l) = case.get("long") {
        let s: Shape = serde_json::from_value(l.clone()).ok()?;
        let out = crate::child::spawn("c03", &serde_json::to_value(&s).ok()?, std::time::Duration::from_secs(60));
        return judge_long(&s, &out).ok();
    }
    let c: Case = serde_json::from_value(case.get("case")?.clone()).ok()?;
    Some(check_case(&c))
}

/// libFuzzer entry: raw bytes through the four ways of iterating (mode % 4 == 0) or a generated case.
pub fn fuzz(f: &mut FuzzIn) -> Option<CaseResult> {
    let c = match f.mode % 4 {
        0 => {
            let (q, input) = f.raw_q_input();
            if input.len() > 400 {
                return None;
            }
            Case::Iter { input: input.to_vec(), q }
        }
        1 => f.draw(&g_seq())?,
        2 => f.draw(&g_triv())?,
        _ => f.draw(&g_hist())?,
    };
    Some(check_case(&c))
}
