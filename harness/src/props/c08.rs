//! C08 — each parser option changes exactly the tokens it is documented to
//! govern. All 1536 option sets are enumerated for every input.

use rayon::prelude::*;
use serde::{Deserialize, Serialize};
use serde_json::{json, Value as Json};

use crate::engine::*;
use crate::mv::*;
use crate::opts::*;
use crate::props::Prop;
use crate::util::*;

pub const PROP: Prop = Prop {
    id: "C08",
    level: "exploration",
    rule: "(round 9: complete numeric literals with a colon at either end; a digit-initial name with a colon is not a number under any option set) (round 8: nil and t followed by each character that looks like a delimiter but continues a name in this reader) (rounds 6-7: with_keyword_syntaxes given lists with repeated entries; 130 and 300 copies of 37 tokens - quote shorthands, keywords, nil/t, empty and one-element lists, vectors and byte vectors, characters, strings, numbers - in one list, one vector, a nested list and a stream read by one Parser must each read like the token alone) (every input is also read through the datum API, which has to agree; the library constructors Options::default(), elisp(), new() and plain from_str are compared with the documented option sets built field by field; radix-prefixed literals and near misses, short and longer than 64 bits, are part of the corpus) ALL 1536 parser option sets (exhaustive in both tiers) x a token corpus covering every token class with its near misses (nil nilx NIL t tt; :a a: :a: :: : #:a #:; [ ] mixes and mismatches; ?a ?\\( ; #%a; numeric literals 7 1.5 1e3 007 +5; digit-initial non-literals 1+ 1- 1/2 1.5.6 0x10 12ab 1e; sign tokens + - -a ->x ...; strings whose reading differs between the syntaxes) x 11 syntactic positions (top level, list head, after a dot, vector element, bracket element, directly before ')' and ']', inside each of the four quote shorthands); oracle: (1) a declarative token classifier written from the option documentation (Value / Error / Unspecified), (2) shorthand expansion, (3) non-interference: all option sets that agree on the options an input syntactically exercises must give identical results; the thorough tier adds generated tokens from the class grammars; non-trivial = anything but a plain alphabetic symbol at top level; distinct by (input, projected option set)",
    assumptions: &[
        "the classifier returns Unspecified where the documentation is silent or two enabled options both claim a token (e.g. :a: with prefix and postfix keywords, a lone ':'); nothing but non-interference is asserted there",
        "'exercised options' are computed syntactically and over-approximate the true dependencies",
    ],
    run,
    replay,
    builds: &["ff"],
};

#[derive(Clone, Debug, PartialEq)]
pub enum Expect {
    Value(MV),
    Error,
    /// not a number, and no datum containing one
    NotNumber,
    Unspecified,
}

fn sym(s: &str) -> Expect {
    Expect::Value(MV::sym(s))
}
fn kw(s: &str) -> Expect {
    Expect::Value(MV::Kw(s.to_string()))
}

/// Is `t` a numeric literal `[sign] digits [. digits] [e [sign] digits]`?
fn numeric_literal(t: &str) -> Option<MV> {
    let body = t.strip_prefix('+').or_else(|| t.strip_prefix('-')).unwrap_or(t);
    if body.is_empty() || !body.as_bytes()[0].is_ascii_digit() {
        return None;
    }
    if body.bytes().all(|c| c.is_ascii_digit()) {
        let mag: u128 = body.parse().ok()?;
        let neg = t.starts_with('-');
        return if neg && mag <= 1 << 63 {
            Some(if mag == 0 { MV::U(0) } else { MV::I((-(mag as i128)) as i64) })
        } else if !neg && mag <= u64::MAX as u128 {
            Some(MV::U(mag as u64))
        } else {
            None
        };
    }
    let l = crate::model::parse_dec_lit(t)?;
    if l.has_frac || l.has_exp {
        let f: f64 = t.trim_start_matches('+').parse().ok()?;
        return Some(MV::F(f.to_bits()));
    }
    None
}

/// M_tokclass (DESIGN.md appendix A.2).
pub fn classify(t: &str, q: &QOpt) -> Expect {
    // fixed tokens
    match t {
        "nil" => {
            return match q.nil {
                QNil::Default => sym("nil"),
                QNil::EmptyList => Expect::Value(MV::Null),
                QNil::Special => Expect::Value(MV::Nil),
            }
        }
        "t" => return if q.t_true { Expect::Value(MV::Bool(true)) } else { sym("t") },
        "#nil" => return Expect::Value(MV::Nil),
        "#t" => return Expect::Value(MV::Bool(true)),
        "#f" => return Expect::Value(MV::Bool(false)),
        "()" => return Expect::Value(MV::Null),
        ":" => return if q.any_colon_kw() { Expect::Unspecified } else { sym(":") },
        "#:" => return if q.kw_octo { Expect::Unspecified } else { Expect::Error },
        "::" => return if q.any_colon_kw() { kw(":") } else { sym("::") },
        ":a:" => {
            return match (q.kw_prefix, q.kw_postfix) {
                (true, false) => kw("a:"),
                (false, true) => kw(":a"),
                (true, true) => Expect::Unspecified,
                (false, false) => sym(":a:"),
            }
        }
        "[a b]" => return Expect::Value(if q.brackets_vector { MV::Vec(vec![MV::sym("a"), MV::sym("b")]) } else { MV::list(vec![MV::sym("a"), MV::sym("b")]) }),
        "[]" => return Expect::Value(if q.brackets_vector { MV::Vec(vec![]) } else { MV::Null }),
        "(a]" | "[a)" | "#(a]" | "(a" | "[a" => return Expect::Error,
        "[a . b]" => return if q.brackets_vector { Expect::Unspecified } else { Expect::Value(MV::List(vec![MV::sym("a")], Box::new(MV::sym("b")))) },
        "#\\a" => return Expect::Value(MV::Char('a' as u32)),
        "#\\space" => return Expect::Value(MV::Char(' ' as u32)),
        "#\\x41" => return Expect::Value(MV::Char('A' as u32)),
        "\"a\\x41;b\"" => return if q.string == Syn::R6RS { Expect::Value(MV::Str("aAb".into())) } else { Expect::Unspecified },
        "\"a\\101b\"" => return if q.string == Syn::Elisp { Expect::Value(MV::Bytes(b"aAb".to_vec())) } else { Expect::Unspecified },
        "\"plain\"" => return Expect::Value(MV::Str("plain".into())),
        "\"a\\u00e9\"" => return if q.string == Syn::Elisp { Expect::Value(MV::Str("aé".into())) } else { Expect::Unspecified },
        ".5" | "-.5" | "+.5" => return Expect::Unspecified,
        "-1+" | "+1x" | "-1a" | "+5." | "-1:" | "+5:" | ".5:" | "#x1F:" => return Expect::NotNumber,
        // radix prefixes: the digits have to be digits of that radix
        "#x10" => return Expect::Value(MV::U(16)),
        "#xFf" => return Expect::Value(MV::U(255)),
        "#x-ff" => return Expect::Value(MV::I(-255)),
        "#b101" => return Expect::Value(MV::U(5)),
        "#o17" => return Expect::Value(MV::U(15)),
        "#d10" => return Expect::Value(MV::U(10)),
        "#b11111111111111111111111111111111111111111111111111111111111111111111112" | "#o7777777777777777777777777777778" | "#xffffffffffffffffffffg" => return Expect::NotNumber,
        "#b2" | "#b102" | "#b12" | "#o8" | "#o18" | "#o79" | "#xg" | "#x1g" | "#xfg" | "#d1a" | "#da" | "#b" | "#x-" | "#b1.0" | "#o1e2" => return Expect::NotNumber,
        _ => {}
    }
    // Emacs characters
    if let Some(rest) = t.strip_prefix('?') {
        return match (q.chr, rest) {
            (Syn::Elisp, "a") => Expect::Value(MV::Char('a' as u32)),
            (Syn::Elisp, "\\(") => Expect::Value(MV::Char('(' as u32)),
            (Syn::Elisp, "\\n") => Expect::Value(MV::Char('\n' as u32)),
            (Syn::Elisp, "\\x41") => Expect::Value(MV::Char('A' as u32)),
            (Syn::R6RS, r) if r.chars().all(|c| c.is_ascii_alphanumeric()) && !r.is_empty() => sym(t),
            _ => Expect::Unspecified,
        };
    }
    // Racket
    if let Some(name) = t.strip_prefix("#%") {
        return if !q.racket {
            Expect::Error
        } else if name.is_empty() || name.ends_with(':') {
            Expect::Unspecified
        } else {
            sym(t)
        };
    }
    // octothorpe keywords
    if let Some(name) = t.strip_prefix("#:") {
        return if q.kw_octo { kw(name) } else { Expect::Error };
    }
    // digit-initial tokens
    if t.as_bytes()[0].is_ascii_digit() {
        if let Some(n) = numeric_literal(t) {
            return Expect::Value(n);
        }
        return if q.digits {
            if t.ends_with(':') && q.kw_postfix {
                let name = &t[..t.len() - 1];
                if !name.ends_with(':') && numeric_literal(name).is_none() {
                    // `1a:`: under leading-digit symbols `1a` is a name like any
                    // other, so `name:` is a keyword exactly when the postfix
                    // spelling is enabled (seeded change C08j)
                    kw(name)
                } else {
                    // a numeric literal and a colon (`1:`): the statement leaves
                    // the name open; the whole token is not a numeric literal
                    Expect::NotNumber
                }
            } else {
                sym(t)
            }
        } else {
            Expect::Error
        };
    }
    // signed numbers
    if let Some(n) = numeric_literal(t) {
        return Expect::Value(n);
    }
    // colon keywords
    let starts = t.starts_with(':');
    let ends = t.ends_with(':') && t.len() > 1;
    match (starts, ends) {
        (true, false) => {
            return if q.kw_prefix { kw(&t[1..]) } else { sym(t) };
        }
        (false, true) => {
            return if q.kw_postfix { kw(&t[..t.len() - 1]) } else { sym(t) };
        }
        (true, true) => return Expect::Unspecified,
        _ => {}
    }
    // everything else in the corpus is a symbol under every option set
    sym(t)
}

/// Options an input exercises (syntactic over-approximation).
#[derive(Clone, Copy, PartialEq, Eq, Hash, Debug, PartialOrd, Ord)]
struct Proj {
    kw_prefix: Option<bool>,
    kw_postfix: Option<bool>,
    kw_octo: Option<bool>,
    nil: Option<u8>,
    t: Option<bool>,
    brackets: Option<bool>,
    string: Option<bool>,
    chr: Option<bool>,
    racket: Option<bool>,
    digits: Option<bool>,
}

fn exercised(input: &str) -> [bool; 10] {
    fn features(e: &mut [bool; 10], bare: &str) {
        if bare.starts_with(':') {
            e[0] = true;
        }
        if bare.ends_with(':') {
            e[1] = true;
        }
        if bare.starts_with("#:") {
            e[2] = true;
            // the name after #: may itself end with a colon
        }
        if bare == "nil" || bare.trim_end_matches(':') == "nil" {
            e[3] = true;
        }
        if bare == "t" || bare.trim_end_matches(':') == "t" {
            e[4] = true;
        }
        if bare.starts_with('?') {
            e[7] = true;
        }
        if bare.contains('"') {
            e[6] = true;
        }
        if bare.starts_with("#%") {
            e[8] = true;
        }
        if bare.chars().next().map_or(false, |c| c.is_ascii_digit()) {
            e[9] = true;
        }
    }
    let mut e = [false; 10];
    for tok in input.split(|c: char| c.is_whitespace() || "()'`,".contains(c)).filter(|t| !t.is_empty()) {
        let tok = tok.trim_start_matches('@').trim_matches(|c| c == '[' || c == ']');
        features(&mut e, tok);
        if tok.starts_with('?') || tok.starts_with('#') {
            // under Emacs character syntax the character ends without a
            // delimiter and the rest is a token of its own (`?x1x` is the
            // character x followed by `1x`), and so do the hash tokens
            // (`#t#:` is #t followed by `#:`, `#nil40x` is #nil followed by
            // `40x`): every suffix counts
            for (i, _) in tok.char_indices().skip(1) {
                features(&mut e, &tok[i..]);
            }
        }
    }
    if input.contains('[') || input.contains(']') {
        e[5] = true;
    }
    e
}

fn project(q: &QOpt, e: &[bool; 10]) -> Proj {
    Proj {
        kw_prefix: e[0].then(|| q.kw_prefix),
        kw_postfix: e[1].then(|| q.kw_postfix),
        kw_octo: e[2].then(|| q.kw_octo),
        nil: e[3].then(|| q.nil as u8),
        t: e[4].then(|| q.t_true),
        brackets: e[5].then(|| q.brackets_vector),
        string: e[6].then(|| q.string == Syn::Elisp),
        chr: e[7].then(|| q.chr == Syn::Elisp),
        racket: e[8].then(|| q.racket),
        digits: e[9].then(|| q.digits),
    }
}

#[derive(Clone, Debug, Serialize, Deserialize, Hash)]
pub struct Case {
    pub token: String,
    /// 0 top, 1 list head, 2 after dot, 3 #( ) element, 4 [ ] element, 5 before ), 6 before ], 7 ' 8 ` 9 , 10 ,@
    pub position: u8,
}

const POSITIONS: u8 = 11;

fn in_context(tok: &str, pos: u8) -> String {
    match pos {
        0 => tok.to_string(),
        1 => format!("({} x)", tok),
        2 => format!("(x . {})", tok),
        3 => format!("#(x {})", tok),
        4 => format!("[x {} y]", tok),
        5 => format!("(x {})", tok),
        6 => format!("[x {}]", tok),
        7 => format!("'{}", tok),
        8 => format!("`{}", tok),
        9 => format!(", {}", tok),
        _ => format!(",@{}", tok),
    }
}

fn expected_in_context(e: &Expect, pos: u8, q: &QOpt) -> Expect {
    let v = match e {
        Expect::Value(v) => v.clone(),
        other => return other.clone(),
    };
    let x = MV::sym("x");
    let y = MV::sym("y");
    let seq = |items: Vec<MV>| if q.brackets_vector { MV::Vec(items) } else { MV::list(items) };
    Expect::Value(match pos {
        0 => v,
        1 => MV::list(vec![v, x]),
        2 => MV::List(vec![x], Box::new(v)).normalize(),
        3 => MV::Vec(vec![x, v]),
        4 => seq(vec![x, v, y]),
        5 => MV::list(vec![x, v]),
        6 => seq(vec![x, v]),
        7 => MV::list(vec![MV::sym("quote"), v]),
        8 => MV::list(vec![MV::sym("quasiquote"), v]),
        9 => MV::list(vec![MV::sym("unquote"), v]),
        _ => MV::list(vec![MV::sym("unquote-splicing"), v]),
    })
}

fn contains_number(m: &MV) -> bool {
    m.any(&|x| matches!(x, MV::U(_) | MV::I(_) | MV::F(_)))
}

fn token_class(t: &str) -> &'static str {
    if t.as_bytes()[0].is_ascii_digit() {
        if numeric_literal(t).is_some() {
            "tok:number"
        } else {
            "tok:digit-initial-non-number"
        }
    } else if t.starts_with("#:") || t.contains(':') {
        "tok:keyword-like"
    } else if t.starts_with("nil") || t == "NIL" || t == "Nil" || t == "xnil" || t == "t" || t == "T" || t == "tt" || t == "ta" {
        "tok:nil-t-like"
    } else if t.contains('[') || t.contains(']') {
        "tok:brackets"
    } else if t.starts_with('?') {
        "tok:question"
    } else if t.starts_with("#%") {
        "tok:racket"
    } else if t.starts_with('"') {
        "tok:string"
    } else if t.starts_with('+') || t.starts_with('-') || t.starts_with('.') {
        "tok:sign-or-dot"
    } else if t.starts_with('#') {
        "tok:hash"
    } else {
        "tok:symbol"
    }
}

pub fn check_case(c: &Case) -> Vec<CaseResult> {
    let input = in_context(&c.token, c.position);
    let ex = exercised(&input);
    let mut out: Vec<CaseResult> = Vec::new();
    let mut groups: std::collections::BTreeMap<Proj, (usize, Result<MV, String>)> = std::collections::BTreeMap::new();
    let cls = token_class(&c.token);
    let mut by_index: Vec<Option<Result<MV, String>>> = vec![None; N_QOPT];
    for qi in 0..N_QOPT {
        let q = QOpt::from_index(qi);
        let case = || json!({"case": c, "q": qi});
        let got: Result<MV, String> = match catch(|| lexpr::from_str_custom(&input, q.to_lexpr())) {
            Err(pm) => {
                out.push(Err(Failure::new(format!("C08 panic={}", panic_sig(&pm)), format!("parsing {:?} panicked: {}", input, pm), case())));
                continue;
            }
            Ok(Ok(v)) => Ok(MV::from_value(&v)),
            Ok(Err(e)) => Err(e.to_string()),
        };
        by_index[qi] = Some(got.clone());
        // the options mean the same to the reader with location information
        let got_datum: Result<MV, String> = match catch(|| lexpr::datum::from_str_custom(&input, q.to_lexpr())) {
            Err(pm) => Err(format!("panic: {}", pm)),
            Ok(Ok(d)) => Ok(MV::from_value(d.value())),
            Ok(Err(e)) => Err(e.to_string()),
        };
        // ... and when the same bytes arrive through a stream
        let got_reader: Result<MV, String> = match catch(|| lexpr::from_reader_custom(std::io::Cursor::new(input.as_bytes()), q.to_lexpr())) {
            Err(pm) => Err(format!("panic: {}", pm)),
            Ok(Ok(v)) => Ok(MV::from_value(&v)),
            Ok(Err(e)) => Err(e.to_string()),
        };
        let strip = |r: &Result<MV, String>| r.clone().map_err(|e| err_text_str(&e).to_string());
        if strip(&got_reader) != strip(&got) {
            out.push(Err(Failure::new(
                format!("C08 reader-differs class={} pos={}", cls.trim_start_matches("tok:"), if c.position == 0 { "top" } else { "nested" }),
                format!("{:?} under parser options #{}: from a str {}, from a stream {}", input, qi, short(&got), short(&got_reader)),
                case(),
            )));
        }
        if got_datum != got {
            out.push(Err(Failure::new(
                format!("C08 datum-api-differs class={} pos={}", cls.trim_start_matches("tok:"), if c.position == 0 { "top" } else { "nested" }),
                format!("{:?} under parser options #{}: the value API gives {}, the datum API {}", input, qi, short(&got), short(&got_datum)),
                case(),
            )));
        }
        // (1)/(2) classification in context
        let tok_expect = classify(&c.token, &q);
        let expect = expected_in_context(&tok_expect, c.position, &q);
        let pos_name = ["top", "list-head", "after-dot", "vector", "bracket-middle", "before-paren", "before-bracket", "quote", "quasiquote", "unquote", "unquote-splicing"][c.position as usize];
        let describe = |e: &Expect| match e {
            Expect::Value(v) => format!("{}", v.kind()),
            Expect::Error => "error".to_string(),
            Expect::NotNumber => "not-a-number".to_string(),
            Expect::Unspecified => "unspecified".to_string(),
        };
        let observed = match &got {
            Ok(v) => v.kind().to_string(),
            Err(_) => "error".to_string(),
        };
        let verdict = match (&expect, &got) {
            (Expect::Unspecified, _) => Ok(()),
            (Expect::Value(v), Ok(g)) if v == g => Ok(()),
            (Expect::Error, Err(_)) => Ok(()),
            (Expect::NotNumber, Err(_)) => Ok(()),
            (Expect::NotNumber, Ok(g)) if !contains_number(g) => Ok(()),
            _ => Err(()),
        };
        match verdict {
            Ok(()) => {
                let nt = !(c.position == 0 && cls == "tok:symbol");
                out.push(Ok(Eval::new(nt, mix(digest_of(&input), digest_of(&project(&q, &ex)))).class(cls)));
            }
            Err(()) => {
                let tok_kind = match &tok_expect {
                    Expect::Value(v) => v.kind().to_string(),
                    other => describe(other),
                };
                out.push(Err(Failure::new(
                    format!("C08 class={} expected={} observed={} pos={}", cls.trim_start_matches("tok:"), tok_kind, observed_token_kind(&got, &expect), if c.position == 0 { "top" } else { "nested" }),
                    format!(
                        "{:?} ({} position) under parser options #{} {:?}: expected {} but got {}",
                        input,
                        pos_name,
                        qi,
                        q,
                        match &expect {
                            Expect::Value(v) => short(v),
                            other => describe(other),
                        },
                        short(&got)
                    ),
                    case(),
                )));
                let _ = observed;
            }
        }
        // (3) non-interference
        let p = project(&q, &ex);
        match groups.get(&p) {
            None => {
                groups.insert(p, (qi, got));
            }
            Some((q0, r0)) => {
                if *r0 != got {
                    out.push(Err(Failure::new(
                        format!("C08 non-interference class={} differs={}", cls.trim_start_matches("tok:"), differing_option(&QOpt::from_index(*q0), &q)),
                        format!(
                            "{:?} gives {} under options #{} but {} under #{}, although they agree on every option the input exercises",
                            input,
                            short(r0),
                            q0,
                            short(&got),
                            qi
                        ),
                        case(),
                    )));
                }
            }
        }
    }
    // (4) the library's own constructors are the option sets their
    // documentation describes (every check builds its option sets field by
    // field, so a wrong default would otherwise go unnoticed)
    let none = QOpt { kw_octo: false, ..QOpt::default_set() };
    let ctors: [(&str, lexpr::parse::Options, usize); 3] = [
        ("Options::default()", lexpr::parse::Options::default(), QOpt::default_set().index()),
        ("Options::elisp()", lexpr::parse::Options::elisp(), QOpt::elisp().index()),
        ("Options::new()", lexpr::parse::Options::new(), none.index()),
    ];
    for (name, opts, qi) in ctors {
        let got: Result<MV, String> = match catch(|| lexpr::from_str_custom(&input, opts)) {
            Err(pm) => Err(format!("panic: {}", pm)),
            Ok(Ok(v)) => Ok(MV::from_value(&v)),
            Ok(Err(e)) => Err(e.to_string()),
        };
        if let Some(Some(want)) = by_index.get(qi) {
            if *want != got {
                out.push(Err(Failure::new(
                    format!("C08 constructor={} class={}", name, cls.trim_start_matches("tok:")),
                    format!("{:?} gives {} under {} but {} under the documented equivalent built field by field (#{})", input, short(&got), name, short(want), qi),
                    json!({"case": c, "q": qi}),
                )));
            }
        }
    }
    if c.position == 0 {
        // and the plain entry points use the default set
        let got: Result<MV, String> = match catch(|| lexpr::from_str(&input)) {
            Err(pm) => Err(format!("panic: {}", pm)),
            Ok(Ok(v)) => Ok(MV::from_value(&v)),
            Ok(Err(e)) => Err(e.to_string()),
        };
        if let Some(Some(want)) = by_index.get(QOpt::default_set().index()) {
            if *want != got {
                out.push(Err(Failure::new(
                    format!("C08 constructor=from_str class={}", cls.trim_start_matches("tok:")),
                    format!("{:?} gives {} through from_str but {} under the default option set", input, short(&got), short(want)),
                    json!({"case": c, "q": 0}),
                )));
            }
        }
    }
    out
}

fn observed_token_kind(got: &Result<MV, String>, expect: &Expect) -> String {
    match (got, expect) {
        (Err(_), _) => "error".into(),
        (Ok(g), Expect::Value(v)) => {
            // find the first differing leaf kind
            crate::model::mv_diff(v, g, &crate::model::exact).map_or("same".into(), |d| d.0)
        }
        (Ok(g), _) => g.kind().into(),
    }
}

fn differing_option(a: &QOpt, b: &QOpt) -> &'static str {
    if a.kw_prefix != b.kw_prefix {
        "kw-prefix"
    } else if a.kw_postfix != b.kw_postfix {
        "kw-postfix"
    } else if a.kw_octo != b.kw_octo {
        "kw-octothorpe"
    } else if a.nil != b.nil {
        "nil"
    } else if a.t_true != b.t_true {
        "t"
    } else if a.brackets_vector != b.brackets_vector {
        "brackets"
    } else if a.string != b.string {
        "string-syntax"
    } else if a.chr != b.chr {
        "char-syntax"
    } else if a.racket != b.racket {
        "racket"
    } else {
        "leading-digit-symbols"
    }
}

pub const CORPUS: &[&str] = &[
    // nil / t
    "nil", "NIL", "Nil", "nilx", "xnil", "nil?", "t", "T", "tt", "ta",
    // the same followed by a character that looks like a delimiter but continues a name in this reader
    "t\"x\"", "t|x", "nil\"x\"", "nil|x|", "t'", "nil'", "t#", "nil#", "t,", "nil`", "t{", "nil}", "t\\", "t.", "nil.", "t:", "t?", "nil!",
    // colon keywords
    ":a", ":nil", ":t", ":!a", ":+", ":...", ":λ", ":a1", "a:", "nil:", "t:", "!a:", "+:", "...:", "λ:", ".a:", "a1:", ":a:", "::", ":", "#:a", "#:nil", "#:+", "#:a:", "#:",
    // brackets
    "[a b]", "[]", "(a]", "[a)", "#(a]", "[a . b]",
    // characters
    "?a", "?\\(", "?\\n", "?\\x41", "?ab", "#\\a", "#\\space", "#\\x41",
    // racket
    "#%a", "#%app", "#%",
    // numbers and near misses
    "7", "12", "1.5", "1e3", "1.5e-3", "007", "1e21", "18446744073709551615", "1+", "1-", "1/2", "1.5.6", "0x10", "12ab", "1e", "1e+", "9x", "1.", "3rd", "1_000",
    "#b11111111111111111111111111111111111111111111111111111111111111111111112", "#o7777777777777777777777777777778", "#xffffffffffffffffffffg",
    "#x10", "#xFf", "#x-ff", "#b101", "#o17", "#d10", "#b2", "#b102", "#b12", "#o8", "#o18", "#o79", "#xg", "#x1g", "#xfg", "#d1a", "#da", "#b", "#x-", "#b1.0", "#o1e2",
    // complete numeric literals with a colon at either end
    "1:", "12:", "1.5:", "1e3:", "007:", "-1:", "+5:", ".5:", "#x1F:", ":1", ":1.5", ":-1", ":1e3", "#:1", "#:1.5", "1::", ":1:",
    // digit-initial names with a colon at either end (the leading-digit and keyword options together)
    "1a:", "12ab:", "1+:", "1-:", "3rd:", "9x:", "1/2:", "1.5.6:", "1e:", "0x10:", ":1a", ":12ab", ":1+", "#:1a", "1a::", ":1a:",
    "+5", "-5", "+1.5", "-0", "+", "-", "+a", "-a", "--", "->x", "...", ".a", "..", "-1+", "+1x", "-1a", "+5.", ".5", "-.5", "+.5",
    // strings
    "\"a\\x41;b\"", "\"a\\101b\"", "\"plain\"", "\"a\\u00e9\"",
    // plain symbols and hash tokens
    "a", "abc", "x1", "a.b", "<=", "!", "#t", "#f", "#nil", "()",
];

/// The options API itself: getters return what the builder methods set, the
/// plural keyword setter equals the singular ones, and setting a field twice
/// keeps the last value.
fn check_options_api(qi: usize) -> CaseResult {
    use lexpr::parse::{Brackets, CharSyntax, KeywordSyntax, NilSymbol, Options, StringSyntax, TSymbol};
    let q = QOpt::from_index(qi);
    let o = q.to_lexpr();
    let fail = |what: &str| Failure::new(format!("C08 options-api {}", what), format!("parser option set #{} ({:?}): {}", qi, q, what), json!({"options_api": qi}));
    let kws = [(KeywordSyntax::ColonPrefix, q.kw_prefix), (KeywordSyntax::ColonPostfix, q.kw_postfix), (KeywordSyntax::Octothorpe, q.kw_octo)];
    for (k, want) in kws {
        if o.keyword_syntax(k) != want {
            return Err(fail("keyword_syntax getter"));
        }
    }
    let nil_ok = matches!((o.nil_symbol(), q.nil), (NilSymbol::Default, QNil::Default) | (NilSymbol::EmptyList, QNil::EmptyList) | (NilSymbol::Special, QNil::Special));
    let t_ok = matches!((o.t_symbol(), q.t_true), (TSymbol::True, true) | (TSymbol::Default, false));
    let br_ok = matches!((o.brackets(), q.brackets_vector), (Brackets::Vector, true) | (Brackets::List, false));
    let st_ok = matches!((o.string_syntax(), q.string), (StringSyntax::Elisp, Syn::Elisp) | (StringSyntax::R6RS, Syn::R6RS));
    let ch_ok = matches!((o.char_syntax(), q.chr), (CharSyntax::Elisp, Syn::Elisp) | (CharSyntax::R6RS, Syn::R6RS));
    if !(nil_ok && t_ok && br_ok && st_ok && ch_ok && o.racket_hash_percent_symbols() == q.racket && o.leading_digit_symbols() == q.digits) {
        return Err(fail("a getter disagrees with the builder"));
    }
    // plural setter on top of other keyword flags replaces them
    let enabled: Vec<KeywordSyntax> = kws.iter().filter(|(_, on)| *on).map(|(k, _)| *k).collect();
    let plural = Options::elisp().with_keyword_syntaxes(enabled.iter());
    for (k, want) in kws {
        if plural.keyword_syntax(k) != want {
            return Err(fail("with_keyword_syntaxes"));
        }
    }
    // the plural setter takes a set: repeats and order do not matter
    let mut repeated: Vec<KeywordSyntax> = enabled.iter().rev().copied().collect();
    repeated.extend(enabled.iter().copied());
    repeated.extend(enabled.iter().copied());
    let plural2 = Options::new().with_keyword_syntaxes(repeated.iter());
    let plural3 = Options::new().with_keyword_syntaxes(repeated.clone());
    for (k, want) in kws {
        if plural2.keyword_syntax(k) != want || plural3.keyword_syntax(k) != want {
            return Err(fail("with_keyword_syntaxes with repeated entries"));
        }
    }
    // probe: the options behave as the getters say on a text that exercises all of them
    let probe = "(nil t :a b: #:c [x] \"\\x41;\" 1+ #%r)";
    let a = lexpr::from_str_custom(probe, o).map(|v| MV::from_value(&v)).map_err(|e| e.to_string());
    let rebuilt = Options::new()
        .with_keyword_syntaxes(enabled.iter())
        .with_nil_symbol(o.nil_symbol())
        .with_t_symbol(o.t_symbol())
        .with_brackets(o.brackets())
        .with_string_syntax(o.string_syntax())
        .with_char_syntax(o.char_syntax())
        .with_racket_hash_percent_symbols(o.racket_hash_percent_symbols())
        .with_leading_digit_symbols(o.leading_digit_symbols());
    let b = lexpr::from_str_custom(probe, rebuilt).map(|v| MV::from_value(&v)).map_err(|e| e.to_string());
    if a != b {
        return Err(fail("an option set rebuilt from its getters reads differently"));
    }
    Ok(Eval::new(true, qi as u64 ^ 0x0b7).class("options-api:checked"))
}

/// How a token reads does not depend on how many tokens the same parser has
/// read before it: `k` copies in one list, in one vector and as a top-level
/// stream read by one Parser must each read like the token alone.
fn check_repeat(tok: &str, qi: usize, k: usize) -> CaseResult {
    let q = QOpt::from_index(qi);
    let case = || json!({"repeat": {"token": tok, "q": qi, "k": k}});
    let fail = |sig: String, msg: String| Failure::new(format!("C08 repeated class={} {}", token_class(tok), sig), format!("{} [token {:?} x {}, parser options #{}]", msg, tok, k, qi), case());
    let alone = match catch(|| lexpr::from_str_custom(tok, q.to_lexpr())) {
        Ok(Ok(v)) => MV::from_value(&v),
        // not a datum on its own under these options: nothing to compare with
        _ => return Ok(Eval::new(false, 0).class("repeat:token-rejected")),
    };
    let body = std::iter::repeat(tok).take(k).collect::<Vec<_>>().join(" ");
    for (form, text) in [("list", format!("({})", body)), ("vector", format!("#({})", body)), ("nested", format!("(a ({}) b)", body))] {
        let got = match catch(|| lexpr::from_str_custom(&text, q.to_lexpr())) {
            Err(pm) => return Err(fail(format!("form={} panic={}", form, panic_sig(&pm)), pm)),
            Ok(Err(e)) => return Err(fail(format!("form={} rejected err={}", form, err_text(&e)), format!("{} copies in one {} are rejected ({}) although the token alone reads as {}", k, form, e, short(&alone)))),
            Ok(Ok(v)) => MV::from_value(&v),
        };
        let items: Vec<MV> = match (&got, form) {
            (MV::List(xs, t), "list") if **t == MV::Null => xs.clone(),
            (MV::Vec(xs), "vector") => xs.clone(),
            (MV::List(xs, _), "nested") => match xs.get(1) {
                Some(MV::List(ys, t)) if **t == MV::Null => ys.clone(),
                _ => Vec::new(),
            },
            _ => Vec::new(),
        };
        if items.len() != k {
            return Err(fail(format!("form={} count", form), format!("{} copies in one {} read as {} items", k, form, items.len())));
        }
        if let Some(i) = items.iter().position(|x| *x != alone) {
            return Err(fail(format!("form={} item-differs", form), format!("copy number {} of {} in one {} reads as {} although the token alone reads as {}", i + 1, k, form, short(&items[i]), short(&alone))));
        }
    }
    // one Parser over a stream of k copies, value and datum API
    let stream = std::iter::repeat(tok).take(k).collect::<Vec<_>>().join("\n");
    for datum in [false, true] {
        let r = catch(|| -> Result<(), (String, String)> {
            let mut p = lexpr::Parser::from_reader_custom(std::io::Cursor::new(stream.as_bytes()), q.to_lexpr());
            for i in 0..k {
                let item = if datum { p.next_datum().map(|o| o.map(|d| MV::from_value(d.value()))) } else { p.next_value().map(|o| o.map(|v| MV::from_value(&v))) };
                match item {
                    Ok(Some(m)) if m == alone => {}
                    Ok(Some(m)) => return Err((format!("form=stream{} item-differs", if datum { "-datum" } else { "" }), format!("item {} of the stream reads as {} although the token alone reads as {}", i + 1, short(&m), short(&alone)))),
                    Ok(None) => return Err((format!("form=stream{} count", if datum { "-datum" } else { "" }), format!("the stream of {} copies ended after {} items", k, i))),
                    Err(e) => return Err((format!("form=stream{} rejected err={}", if datum { "-datum" } else { "" }, err_text(&e)), format!("item {} of the stream is rejected: {}", i + 1, e))),
                }
            }
            Ok(())
        });
        match r {
            Err(pm) => return Err(fail(format!("form=stream panic={}", panic_sig(&pm)), pm)),
            Ok(Err((sig, msg))) => return Err(fail(sig, msg)),
            Ok(Ok(())) => {}
        }
    }
    Ok(Eval::new(true, digest_of(&(tok, qi, k))).class("repeat:checked"))
}

const REPEAT_TOKENS: &[&str] = &["'x", "`x", ",x", ",@x", "''x", "'(a)", "'()", ":a", "a:", "#:a", "nil", "t", "#t", "#f", "#nil", "()", "[]", "[a]", "#()", "#(a)", "#u8()", "#u8(1)", "?a", "#\\a", "\"s\"", "\"\"", "1", "-1.5", "#x1F", "#%a", "|a b|", "a", "-", "...", "(a . b)", "(a)", "(())"];

fn run(ctx: &mut Ctx) {
    let tier = ctx.tier;
    {
        let qs: Vec<usize> = {
            let mut v = vec![0usize, QOpt::elisp().index()];
            v.extend((0..tier.pick(6, 40)).map(|i| (mix(ctx.seed, 7000 + i as u64) % N_QOPT as u64) as usize));
            v
        };
        let mut reps = Vec::new();
        for t in REPEAT_TOKENS {
            for &qi in &qs {
                for k in [130usize, 300] {
                    reps.push((*t, qi, k));
                }
            }
        }
        ctx.par_sweep("repeated", reps.into_par_iter(), |(t, qi, k)| check_repeat(t, qi, k));
    }
    let mut cases: Vec<Case> = Vec::new();
    for t in CORPUS {
        for p in 0..POSITIONS {
            cases.push(Case { token: t.to_string(), position: p });
        }
    }
    if tier == Tier::Thorough {
        // generated tokens from the class grammars
        let mut k = 0u64;
        let parts_a = ["", ":", "#:", "+", "-", ".", "1", "12", "?"];
        let parts_b = ["a", "nil", "t", "x1", "5", "e3", ".5", "+", "λ", "ab", "1+", "nil:"];
        let parts_c = ["", ":", "x", "+", "1", ".", "::"];
        for a in parts_a {
            for b in parts_b {
                for c in parts_c {
                    let tok = format!("{}{}{}", a, b, c);
                    if tok.is_empty() || CORPUS.contains(&tok.as_str()) {
                        continue;
                    }
                    k += 1;
                    cases.push(Case { token: tok, position: (mix(ctx.seed, k) % POSITIONS as u64) as u8 });
                }
            }
        }
    }
    ctx.par_sweep("options-api", (0..N_QOPT).into_par_iter(), check_options_api);
    let this = &*ctx;
    let st = cases
        .par_iter()
        .fold(Stats::default, |mut st, c| {
            // generated tokens of the thorough tier have no table entry: only
            // non-interference and totality are asserted for them
            let in_table = CORPUS.contains(&c.token.as_str());
            for r in check_case(c) {
                let r = match r {
                    Err(f) if !in_table && !f.signature.contains("non-interference") && !f.signature.contains("panic") => continue,
                    other => other,
                };
                this.record(&mut st, "corpus", r);
            }
            st
        })
        .reduce(Stats::default, |mut a, b| {
            a.merge(b);
            a
        });
    ctx.merge(st);
    ctx.flush_failures();
    ctx.exhaustive.push(format!("all 1536 parser option sets for each of {} (token, position) inputs", cases.len()));
    for c in cases.iter().step_by(97).take(8) {
        ctx.add_sample("corpus", json!({"input": in_context(&c.token, c.position), "token": c.token}));
    }
    ctx.required_classes = vec![
        "tok:number", "tok:digit-initial-non-number", "tok:keyword-like", "tok:nil-t-like", "tok:brackets", "tok:question",
        "tok:racket", "tok:string", "tok:sign-or-dot", "tok:hash", "tok:symbol",
    ];
}

fn replay(_sub: &str, case: &Json) -> Option<CaseResult> {
    if let Some(r) = case.get("repeat") {
        let tok = r.get("token")?.as_str()?.to_string();
        return Some(check_repeat(&tok, r.get("q")?.as_u64()? as usize, r.get("k")?.as_u64()? as usize));
    }
    if let Some(qi) = case.get("options_api").and_then(|q| q.as_u64()) {
        return Some(check_options_api(qi as usize));
    }
    let c: Case = serde_json::from_value(case.get("case")?.clone()).ok()?;
    let want_q = case.get("q").and_then(|q| q.as_u64());
    let rs = check_case(&c);
    // report the failure of the recorded option set if there is one, else any
    let mut first_err = None;
    for r in rs {
        if let Err(f) = r {
            if want_q.is_some() && f.case.get("q").and_then(|q| q.as_u64()) == want_q {
                return Some(Err(f));
            }
            if first_err.is_none() {
                first_err = Some(f);
            }
        }
    }
    match first_err {
        Some(f) => Some(Err(f)),
        None => Some(Ok(Eval::new(true, digest_of(&c)))),
    }
}

/// libFuzzer entry: a token made of the raw bytes (no delimiters, no
/// whitespace) in one of the eleven positions. Tokens outside the table are
/// only held to non-interference and totality, as in the thorough tier.
pub fn fuzz(f: &mut FuzzIn) -> Option<CaseResult> {
    let (pos, rest) = f.raw.split_first()?;
    let tok = std::str::from_utf8(rest).ok()?;
    if tok.is_empty() || tok.len() > 16 || tok.chars().any(|c| c.is_whitespace() || c.is_control() || "()[]\"';`,|\\".contains(c) || c == '\u{85}' || c == '\u{2028}' || c == '\u{2029}') {
        return None;
    }
    let c = Case { token: tok.to_string(), position: pos % POSITIONS };
    let in_table = CORPUS.contains(&tok);
    let mut last = None;
    for r in check_case(&c) {
        match r {
            Err(fl) if !in_table && !fl.signature.contains("non-interference") && !fl.signature.contains("panic") => continue,
            Err(fl) => return Some(Err(fl)),
            Ok(e) => last = Some(Ok(e)),
        }
    }
    last
}
