//! C17 — only well-formed UTF-8 ever reaches a `str`.

use std::io::Cursor;

use lexpr::Value;
use proptest::prelude::*;
use rayon::prelude::*;
use serde::{Deserialize, Serialize};
use serde_json::{json, Value as Json};

use crate::engine::*;
use crate::gen::*;
use crate::gen_text::*;
use crate::mv::*;
use crate::opts::*;
use crate::props::Prop;
use crate::util::*;

pub const PROP: Prop = Prop {
    id: "C17",
    level: "exploration",
    rule: "(round 9: names that run to the end of the input with each kind of first character - sign, plus, non-ASCII, dot, keyword prefix) (round 8: six more character contexts - after an ASCII first character, inside a character name, after hex digits, after the Emacs quoting backslash, after a meta prefix) (rounds 6-7: seven byte-carrying tokens followed by fourteen prefix-assembled tokens under all 1536 option sets; ill-formed and valid payloads after 252-65 537 bytes of content in a string, a name, an Emacs string and a nested string, so that they straddle every power-of-two block boundary) (every input is parsed one-shot AND iterated past errors with both APIs from all three sources, every yielded item checked; five contexts place the payload directly after an error that consumes a single byte, so that iteration resumes inside a character) byte inputs built as context x payload: 18 contexts (symbol, symbol-initial, keyword, R6RS and Emacs strings with escapes before/after the payload, #\\ and ? characters, comments, inside lists and vectors) x every 1- and 2-byte payload (exhaustive), every 3-byte payload with a lead >= 0x80 (thorough), structured 4-byte classes (valid, overlong, > U+10FFFF, F5-FF leads, truncated at each length, surrogates); plus string literals assembled from escape pieces, printed/mutated/random inputs through from_str (valid UTF-8 only), from_slice and from_reader, value and datum API; output side: to_string_custom vs to_vec_custom for generated values x all 576 printer option sets. Oracle: every str reachable from a returned value passes str::from_utf8 (the verif-hooks feature additionally asserts validity at each from_utf8_unchecked site); a payload of bytes >= 0x80 that is not valid UTF-8 inside a symbol, keyword, string or character makes the parse fail, inside a comment it is skipped; a valid payload arrives unchanged. non-trivial = the input contains a byte >= 0x80 or an escape producing one; distinct by digest of (input, options)",
    assumptions: &[
        "validity is checked with std::str::from_utf8 on the bytes of every returned str, and by the hook assertions at creation time; no memory model is involved",
    ],
    run,
    replay,
    builds: &["ff"],
};

#[derive(Clone, Debug, Serialize, Deserialize, Hash)]
pub struct Case {
    pub input: Vec<u8>,
    pub q: usize,
    /// index into CONTEXTS, or 255 for free-form input
    pub ctx: u8,
    pub payload: Vec<u8>,
}

struct Context {
    name: &'static str,
    pre: &'static [u8],
    post: &'static [u8],
    /// payload sits inside a symbol / keyword / string / char token
    in_token: bool,
    /// a valid high payload must come back verbatim inside this str kind
    verbatim: Option<&'static str>,
    elisp: bool,
}

const CONTEXTS: &[Context] = &[
    Context { name: "symbol", pre: b"ab", post: b"cd", in_token: true, verbatim: Some("symbol"), elisp: false },
    Context { name: "symbol-in-list", pre: b"(x ab", post: b"cd)", in_token: true, verbatim: None, elisp: false },
    Context { name: "symbol-initial", pre: b"", post: b"x", in_token: true, verbatim: None, elisp: false },
    Context { name: "keyword", pre: b"#:k", post: b"", in_token: true, verbatim: Some("keyword"), elisp: false },
    Context { name: "string", pre: b"\"ab", post: b"cd\"", in_token: true, verbatim: Some("string"), elisp: false },
    Context { name: "string-after-escape", pre: b"\"\\x41;", post: b"\\n\"", in_token: true, verbatim: Some("string"), elisp: false },
    Context { name: "string-before-escape", pre: b"\"\xc3\xa9", post: b"\\x3bb;z\"", in_token: true, verbatim: Some("string"), elisp: false },
    Context { name: "string-in-vector", pre: b"#(1 \"", post: b"\" 2)", in_token: true, verbatim: None, elisp: false },
    Context { name: "char", pre: b"#\\", post: b"", in_token: true, verbatim: None, elisp: false },
    Context { name: "char-in-list", pre: b"(#\\", post: b" a)", in_token: true, verbatim: None, elisp: false },
    Context { name: "comment", pre: b";", post: b"\nx", in_token: false, verbatim: None, elisp: false },
    Context { name: "comment-at-end", pre: b"x ;", post: b"", in_token: false, verbatim: None, elisp: false },
    Context { name: "elisp-string", pre: b"\"ab", post: b"cd\"", in_token: true, verbatim: Some("string"), elisp: true },
    Context { name: "elisp-string-after-octal", pre: b"\"\\101", post: b"\"", in_token: true, verbatim: None, elisp: true },
    Context { name: "elisp-string-before-octal", pre: b"\"", post: b"\\377\"", in_token: true, verbatim: None, elisp: true },
    Context { name: "elisp-string-after-hex", pre: b"\"\\x41\\ ", post: b"z\"", in_token: true, verbatim: None, elisp: true },
    Context { name: "elisp-string-uni-escape", pre: b"\"\\u00e9", post: b"\\N{U+3bb}\"", in_token: true, verbatim: Some("string"), elisp: true },
    Context { name: "elisp-char", pre: b"?", post: b"", in_token: true, verbatim: None, elisp: true },
    Context { name: "elisp-string-after-ctrl", pre: b"\"a\\^", post: b"\"", in_token: true, verbatim: None, elisp: true },
    Context { name: "elisp-string-after-meta", pre: b"\"\\M-", post: b"b\"", in_token: true, verbatim: None, elisp: true },
    Context { name: "elisp-char-after-ctrl", pre: b"?\\C-", post: b"", in_token: true, verbatim: None, elisp: true },
    // names that run to the end of the input, with each kind of first character
    Context { name: "sign-led-symbol-at-end", pre: b"-", post: b"", in_token: true, verbatim: None, elisp: false },
    Context { name: "plus-led-symbol-at-end", pre: b"+a", post: b"", in_token: true, verbatim: None, elisp: false },
    Context { name: "non-ascii-led-symbol-at-end", pre: b"\xc3\xa9", post: b"", in_token: true, verbatim: None, elisp: false },
    Context { name: "non-ascii-led-symbol-at-end-of-list", pre: b"(a b \xce\xbbx", post: b"", in_token: true, verbatim: None, elisp: false },
    Context { name: "dot-led-symbol-at-end", pre: b".a", post: b"", in_token: true, verbatim: None, elisp: false },
    Context { name: "keyword-at-end", pre: b"#:\xc3\xa9", post: b"", in_token: true, verbatim: None, elisp: false },
    Context { name: "ascii-symbol-at-end", pre: b"ab", post: b"", in_token: true, verbatim: None, elisp: false },
    Context { name: "char-after-ascii", pre: b"#\\a", post: b"", in_token: true, verbatim: None, elisp: false },
    Context { name: "char-name-middle", pre: b"(#\\spa", post: b"ce)", in_token: true, verbatim: None, elisp: false },
    Context { name: "char-hex-digits", pre: b"#\\x4", post: b" 1", in_token: true, verbatim: None, elisp: false },
    Context { name: "elisp-char-after-backslash", pre: b"?\\", post: b"", in_token: true, verbatim: None, elisp: true },
    Context { name: "elisp-char-after-backslash-in-list", pre: b"(?\\", post: b" a)", in_token: true, verbatim: None, elisp: true },
    Context { name: "elisp-char-after-meta", pre: b"?\\M-", post: b"", in_token: true, verbatim: None, elisp: true },
    // an error that consumes only the first byte of the payload: an iterating
    // caller continues in the middle of a character
    Context { name: "after-hash", pre: b"(a) #", post: b"a b", in_token: true, verbatim: None, elisp: false },
    Context { name: "after-hash-in-list", pre: b"(#", post: b"a: b)", in_token: true, verbatim: None, elisp: false },
    Context { name: "after-string-escape", pre: b"\"\\", post: b"a\" b", in_token: true, verbatim: None, elisp: false },
    Context { name: "after-elisp-char-escape", pre: b"?\\^", post: b"a b", in_token: true, verbatim: None, elisp: true },
    Context { name: "after-close-paren", pre: b")", post: b"a b", in_token: true, verbatim: None, elisp: false },
];

fn strs_valid(v: &Value, bad: &mut Option<String>) {
    match v {
        Value::String(s) | Value::Symbol(s) | Value::Keyword(s) => {
            if std::str::from_utf8(s.as_bytes()).is_err() {
                *bad = Some(bytes_lossy(s.as_bytes()));
            }
        }
        Value::Cons(_) => {
            let mut cur = v;
            while let Value::Cons(c) = cur {
                strs_valid(c.car(), bad);
                cur = c.cdr();
            }
            strs_valid(cur, bad);
        }
        Value::Vector(xs) => {
            for x in xs.iter() {
                strs_valid(x, bad);
            }
        }
        _ => {}
    }
}

fn find_str<'a>(v: &'a Value, kind: &str) -> Option<&'a str> {
    match (v, kind) {
        (Value::String(s), "string") | (Value::Symbol(s), "symbol") | (Value::Keyword(s), "keyword") => Some(s),
        _ => None,
    }
}

pub fn check_case(c: &Case) -> CaseResult {
    let q = QOpt::from_index(c.q);
    let case = || json!({"case": c});
    let ctx = CONTEXTS.get(c.ctx as usize);
    let ctx_name = ctx.map_or("free", |x| x.name);
    let fail = |sig: String, msg: String| Failure::new(format!("C17 ctx={} {}", ctx_name, sig), format!("{} [input {:?}, parser options #{}]", msg, bytes_lossy(&c.input), c.q), case());
    let high = !c.payload.is_empty() && c.payload.iter().all(|b| *b >= 0x80);
    let payload_valid = std::str::from_utf8(&c.payload).is_ok();
    let whole_valid = std::str::from_utf8(&c.input).ok();
    let payload_class = if c.payload.is_empty() {
        "none"
    } else if payload_valid {
        "valid"
    } else {
        match c.payload[0] {
            0x80..=0xBF => "stray-continuation",
            0xC0 | 0xC1 => "overlong-2",
            0xE0 if c.payload.len() > 1 && c.payload[1] < 0xA0 => "overlong-3",
            0xED if c.payload.len() > 1 && c.payload[1] >= 0xA0 => "surrogate",
            0xF0 if c.payload.len() > 1 && c.payload[1] < 0x90 => "overlong-4",
            0xF4 if c.payload.len() > 1 && c.payload[1] >= 0x90 => "above-10ffff",
            0xF5..=0xFF => "invalid-lead",
            _ => "truncated-or-bad-continuation",
        }
    };
    let opts = q.to_lexpr();
    let mut results: Vec<(&'static str, Result<Result<Value, lexpr::parse::Error>, String>)> = Vec::new();
    if let Some(s) = whole_valid {
        results.push(("str", catch(|| lexpr::from_str_custom(s, opts))));
        results.push(("str-datum", catch(|| lexpr::datum::from_str_custom(s, opts).map(Value::from))));
    }
    results.push(("slice", catch(|| lexpr::from_slice_custom(&c.input, opts))));
    results.push(("slice-datum", catch(|| lexpr::datum::from_slice_custom(&c.input, opts).map(Value::from))));
    results.push(("reader", catch(|| lexpr::from_reader_custom(Cursor::new(&c.input[..]), opts))));
    results.push(("reader-datum", catch(|| lexpr::datum::from_reader_custom(Cursor::new(&c.input[..]), opts).map(Value::from))));
    // iterated parsing continues after errors, possibly in the middle of a
    // multi-byte character whose lead byte the error consumed: every item of
    // every stream has to be well-formed too
    {
        let cap = c.input.len() + 2;
        macro_rules! iterate {
            ($name:expr, $mk:expr, $datum:expr) => {{
                let r = catch(|| {
                    let mut p = $mk;
                    let mut bad: Option<String> = None;
                    for _ in 0..cap {
                        let item = if $datum { p.next_datum().map(|o| o.map(Value::from)) } else { p.next_value() };
                        match item {
                            Ok(Some(v)) => strs_valid(&v, &mut bad),
                            Ok(None) => break,
                            Err(_) => {}
                        }
                        if bad.is_some() {
                            break;
                        }
                    }
                    bad
                });
                match r {
                    Err(pm) => {
                        return Err(fail(
                            format!("src={} panic={} payload={}", $name, panic_sig(&pm), payload_class),
                            format!("{} panicked: {}", $name, pm),
                        ))
                    }
                    Ok(Some(b)) => {
                        return Err(fail(
                            format!("src={} ill-formed-str payload={}", $name, payload_class),
                            format!("{} yielded a str that is not well-formed UTF-8: {:?}", $name, b),
                        ))
                    }
                    Ok(None) => {}
                }
            }};
        }
        if let Some(s) = whole_valid {
            iterate!("str-iter", lexpr::Parser::from_str_custom(s, opts), false);
            iterate!("str-datum-iter", lexpr::Parser::from_str_custom(s, opts), true);
        }
        iterate!("slice-iter", lexpr::Parser::from_slice_custom(&c.input, opts), false);
        iterate!("slice-datum-iter", lexpr::Parser::from_slice_custom(&c.input, opts), true);
        iterate!("reader-iter", lexpr::Parser::from_reader_custom(Cursor::new(&c.input[..]), opts), false);
        iterate!("reader-datum-iter", lexpr::Parser::from_reader_custom(Cursor::new(&c.input[..]), opts), true);
    }
    let mut any_ok = false;
    for (src, r) in &results {
        match r {
            Err(pm) => {
                return Err(fail(
                    format!("src={} panic={} payload={}", src, panic_sig(pm), payload_class),
                    format!("{} panicked: {}", src, pm),
                ))
            }
            Ok(Ok(v)) => {
                any_ok = true;
                let mut bad = None;
                strs_valid(v, &mut bad);
                if let Some(b) = bad {
                    return Err(fail(
                        format!("src={} ill-formed-str payload={}", src, payload_class),
                        format!("{} returned a str that is not well-formed UTF-8: {:?}", src, b),
                    ));
                }
                if let Some(cx) = ctx {
                    if high && !payload_valid && cx.in_token {
                        return Err(fail(
                            format!("src={} accepted-invalid payload={}", src, payload_class),
                            format!("{} accepted ill-formed UTF-8 {:?} inside a {}: {}", src, bytes_lossy(&c.payload), cx.name, short(v)),
                        ));
                    }
                    if high && payload_valid {
                        if let Some(kind) = cx.verbatim {
                            let needle = std::str::from_utf8(&c.payload).unwrap();
                            match find_str(v, kind) {
                                Some(s) if s.contains(needle) => {}
                                other => {
                                    return Err(fail(
                                        format!("src={} payload-changed", src),
                                        format!("{} read the valid payload {:?} as {:?}", src, needle, other),
                                    ))
                                }
                            }
                        }
                    }
                }
            }
            Ok(Err(e)) => {
                if let Some(cx) = ctx {
                    if !cx.in_token && e.classify() != lexpr::parse::error::Category::Eof && !c.payload.contains(&b'\n') {
                        return Err(fail(
                            format!("src={} comment-not-skipped payload={}", src, payload_class),
                            format!("{} failed on bytes inside a comment: {}", src, e),
                        ));
                    }
                }
            }
        }
    }
    let nt = c.input.iter().any(|b| *b >= 0x80) || c.input.windows(2).any(|w| w == b"\\x" || w == b"\\u" || w == b"\\3" || w == b"\\2");
    let mut ev = Eval::new(nt, mix(digest_of(&c.input), c.q as u64));
    ev = ev.class(match payload_class {
        "none" => "payload:none",
        "valid" => "payload:valid",
        "stray-continuation" => "payload:stray-continuation",
        "overlong-2" => "payload:overlong-2",
        "overlong-3" => "payload:overlong-3",
        "overlong-4" => "payload:overlong-4",
        "surrogate" => "payload:surrogate",
        "above-10ffff" => "payload:above-10ffff",
        "invalid-lead" => "payload:invalid-lead",
        _ => "payload:truncated-or-bad-continuation",
    });
    ev = ev.class(if any_ok { "result:accepted" } else { "result:rejected" });
    if ctx.map_or(false, |c| c.elisp) {
        ev = ev.class("ctx:elisp");
    }
    Ok(ev)
}

fn build(ctx: usize, payload: &[u8]) -> Case {
    let cx = &CONTEXTS[ctx];
    let mut input = cx.pre.to_vec();
    input.extend_from_slice(payload);
    input.extend_from_slice(cx.post);
    Case {
        input,
        q: if cx.elisp { QOpt::elisp().index() } else { 0 },
        ctx: ctx as u8,
        payload: payload.to_vec(),
    }
}

/// Output side: the printer's String equals the bytes it writes and is UTF-8.
pub fn check_output(mv: &MV, pi: usize) -> CaseResult {
    let p = POpt::from_index(pi);
    let v = mv.to_value();
    let case = || json!({"value": mv, "p": pi});
    let r = catch(|| {
        let s = lexpr::to_string_custom(&v, p.to_lexpr());
        let b = lexpr::to_vec_custom(&v, p.to_lexpr());
        let mut w = Vec::new();
        let c = lexpr::to_writer_custom(&mut w, &v, p.to_lexpr()).map(|_| w);
        // a sink that takes one byte per call still receives the same bytes
        // (a cut inside a multi-byte character must not lose its rest)
        struct OneByteSink(Vec<u8>);
        impl std::io::Write for OneByteSink {
            fn write(&mut self, data: &[u8]) -> std::io::Result<usize> {
                match data.first() {
                    Some(b) => {
                        self.0.push(*b);
                        Ok(1)
                    }
                    None => Ok(0),
                }
            }
            fn flush(&mut self) -> std::io::Result<()> {
                Ok(())
            }
        }
        let mut one = OneByteSink(Vec::new());
        let c = match (c, lexpr::to_writer_custom(&mut one, &v, p.to_lexpr())) {
            (Ok(w), Ok(())) if w == one.0 => Ok(w),
            (Ok(w), Ok(())) => Ok([&w[..], b" | one byte per call: ", &one.0[..]].concat()),
            (Err(e), _) | (_, Err(e)) => Err(e),
        };
        (s, b, c)
    });
    match r {
        Err(pm) => Err(Failure::new(format!("C17 output panic={}", panic_sig(&pm)), pm, case())),
        Ok((Ok(s), Ok(b), Ok(w))) => {
            if std::str::from_utf8(s.as_bytes()).is_err() {
                return Err(Failure::new("C17 output ill-formed-string", format!("to_string_custom returned ill-formed UTF-8: {}", bytes_lossy(s.as_bytes())), case()));
            }
            if s.as_bytes() != &b[..] || b != w {
                return Err(Failure::new("C17 output string-differs-from-bytes", format!("String {:?} vs bytes {:?}", clip(&s, 200), bytes_lossy(&b)), case()));
            }
            let nt = !s.is_ascii();
            Ok(Eval::new(nt, digest_of(&(mv, pi))).class("output:checked"))
        }
        Ok(other) => Err(Failure::new("C17 output print-error", format!("printing failed: {:?}", other.0.err()), case())),
    }
}

fn four_byte_payloads() -> Vec<Vec<u8>> {
    let mut v: Vec<Vec<u8>> = Vec::new();
    for lead in [0xF0u8, 0xF1, 0xF3, 0xF4, 0xF5, 0xF7, 0xF8, 0xFC, 0xFE, 0xFF] {
        for b1 in [0x7Fu8, 0x80, 0x8F, 0x90, 0x9F, 0xA0, 0xBF, 0xC0] {
            for b2 in [0x7Fu8, 0x80, 0xBF, 0xC0] {
                for b3 in [0x7Fu8, 0x80, 0xBF, 0xC0] {
                    v.push(vec![lead, b1, b2, b3]);
                }
            }
            v.push(vec![lead, b1]);
            v.push(vec![lead, b1, 0x80]);
        }
        v.push(vec![lead]);
    }
    for b1 in 0xA0u8..=0xBF {
        v.push(vec![0xED, b1, 0x80]);
    }
    for b1 in 0x80u8..=0x9F {
        v.push(vec![0xE0, b1, 0x80]);
    }
    v.push("\u{10FFFF}".as_bytes().to_vec());
    v.push("\u{10000}".as_bytes().to_vec());
    v.push("\u{FFFF}\u{0080}".as_bytes().to_vec());
    v
}

fn run(ctx: &mut Ctx) {
    let tier = ctx.tier;
    let nctx = CONTEXTS.len();
    // exhaustive 1- and 2-byte payloads in every context
    ctx.par_sweep("payload<=2", (0u32..(256 + 65536)).into_par_iter().flat_map_iter(move |i| {
        let payload: Vec<u8> = if i < 256 { vec![i as u8] } else { let j = i - 256; vec![(j >> 8) as u8, j as u8] };
        (0..nctx).map(move |c| build(c, &payload))
    }), |c| check_case(&c));
    ctx.exhaustive.push(format!("every 1- and 2-byte payload in {} contexts x 3 sources x 2 APIs", nctx));
    if tier == Tier::Thorough {
        ctx.par_sweep("payload=3", (0u32..(128 << 16)).into_par_iter().flat_map_iter(move |i| {
            let payload = vec![0x80 | (i >> 16) as u8, (i >> 8) as u8, i as u8];
            (0..nctx).map(move |c| build(c, &payload))
        }), |c| check_case(&c));
        ctx.exhaustive.push("every 3-byte payload with a lead byte >= 0x80 in every context".into());
    } else {
        // structured 3-byte sample: all leads E0..EF x boundary continuations
        let mut p3 = Vec::new();
        for lead in 0xE0u8..=0xEF {
            for b1 in [0x7Fu8, 0x80, 0x9F, 0xA0, 0xBF, 0xC0] {
                for b2 in [0x7Fu8, 0x80, 0xBF, 0xC0] {
                    p3.push(vec![lead, b1, b2]);
                }
            }
        }
        ctx.par_sweep("payload=3-structured", p3.into_par_iter().flat_map_iter(move |p| (0..nctx).map(move |c| build(c, &p))), |c| check_case(&c));
    }
    let p4 = four_byte_payloads();
    ctx.par_sweep("payload=4-structured", p4.into_par_iter().flat_map_iter(move |p| (0..nctx).map(move |c| build(c, &p))), |c| check_case(&c));
    // carry-over: a token that leaves raw bytes behind (unibyte string, byte
    // vector, escaped character) followed by a token that is assembled from a
    // prefix, under every parser option set; nothing of the first may show up
    // in the text of the second
    {
        let first: [&[u8]; 7] = [b"\"\\200\"", b"\"\\377\\300\"", b"\"\\xff\"", b"#u8(255 128)", b"\"\xce\xbb\\200\"", b"?\\377", b"\"\\M-a\""];
        let second: [&[u8]; 14] = [b"#%app", b"-x", b".a", b"+.b", b":k", b"k:", b"#:k", b"|a b|", b"abc", b"#\\x", b"\"s\"", b"1.5", b"...", b"#%\xce\xbb"];
        let mut cases = Vec::new();
        for q in 0..N_QOPT {
            for a in first {
                for b in second {
                    for wrap in [false, true] {
                        let mut input = Vec::new();
                        if wrap {
                            input.push(b'(');
                        }
                        input.extend_from_slice(a);
                        input.push(b' ');
                        input.extend_from_slice(b);
                        if wrap {
                            input.push(b')');
                        }
                        cases.push(Case { input, q, ctx: 255, payload: Vec::new() });
                    }
                }
            }
        }
        ctx.par_sweep("carry-over", cases.into_par_iter(), |c| check_case(&c));
    }
    // long tokens: the payload at and around the sizes at which code reading a
    // long string or name works block by block (256 B .. 64 KiB of content
    // before it), so that it straddles such a boundary
    {
        let mut payloads: Vec<Vec<u8>> = (0x80u32..=0xFF).map(|b| vec![b as u8]).collect();
        for lead in 0xC0u32..=0xFF {
            for cont in [0x7Fu8, 0x80, 0xBF, 0xC0] {
                payloads.push(vec![lead as u8, cont]);
            }
        }
        for lead in 0xE0u8..=0xEF {
            for b1 in [0x7Fu8, 0x80, 0x9F, 0xA0, 0xBF, 0xC0] {
                for b2 in [0x7Fu8, 0x80, 0xBF, 0xC0] {
                    payloads.push(vec![lead, b1, b2]);
                }
            }
        }
        payloads.extend(four_byte_payloads());
        payloads.push(vec![0xC3, 0xA9]);
        payloads.push(vec![0xE2, 0x82, 0xAC]);
        let bounds: Vec<usize> = match tier {
            Tier::Quick => vec![256, 1024, 4096, 8192],
            Tier::Thorough => vec![256, 1024, 4096, 8192, 16384, 65536],
        };
        let forms: [(&[u8], &[u8], usize); 4] = [(b"\"", b"z\"", 0), (b"", b"z", 0), (b"\"", b"z\"", QOpt::elisp().index()), (b"(x \"", b"\" y)", 0)];
        let mut cases = Vec::new();
        for &b in &bounds {
            for len in b - 4..=b + 1 {
                for (fi, (pre, post, q)) in forms.iter().enumerate() {
                    for shifted in [false, true] {
                        // every payload on the small boundaries, a tenth of them (rotating) on the large ones
                        let step = if b <= 4096 { 1 } else { 7 };
                        for (pi, pl) in payloads.iter().enumerate() {
                            if (pi + len + fi) % step != 0 {
                                continue;
                            }
                            let mut input = Vec::with_capacity(len + 16);
                            input.extend_from_slice(pre);
                            if shifted {
                                input.extend_from_slice("é".as_bytes());
                            }
                            while input.len() < pre.len() + len {
                                input.push(b'a');
                            }
                            input.extend_from_slice(pl);
                            input.extend_from_slice(post);
                            cases.push(Case { input, q: *q, ctx: 255, payload: pl.clone() });
                        }
                    }
                }
            }
        }
        ctx.par_sweep("long-token", cases.into_par_iter(), |c| check_case(&c));
    }
    // free-form inputs
    let parent = &*ctx;
    let children: Vec<Ctx> = (0..16u32)
        .into_par_iter()
        .map(|w| {
            let mut c = parent.fork();
            let g = (prop_oneof![3 => g_string_literal(), 2 => g_input(200).prop_map(|(b, _)| b)], g_qopt_index())
                .prop_map(|(input, q)| Case { input, q, ctx: 255, payload: Vec::new() });
            c.run_prop(&format!("free/{}", w), tier.pick(5_000, 150_000), g, check_case);
            let cfg = ValueCfg::default_dialect(3, 20);
            c.run_prop(&format!("output/{}", w), tier.pick(2_000, 40_000), (g_value(cfg), 0usize..N_POPT), |(v, pi)| check_output(v, *pi));
            c
        })
        .collect();
    for c in children {
        ctx.absorb(c);
    }
    // output side across all 576 printer option sets on a fixed non-ASCII battery
    let battery = vec![
        MV::Str("é\u{1F600}\u{7f}\u{1}".into()),
        MV::Sym("λx".into()),
        MV::Kw("ключ".into()),
        MV::Char(0x10FFFF),
        MV::Bytes(vec![0xff, 0x80]),
        MV::list(vec![MV::Str("\u{80}".into()), MV::Char(0xe9)]),
    ];
    for pi in 0..N_POPT {
        for b in &battery {
            ctx.observe("output-battery", check_output(b, pi));
        }
    }
    ctx.flush_failures();
    ctx.exhaustive.push("non-ASCII output battery under all 576 printer option sets".into());
    for i in [0usize, 4, 8, 12, 14] {
        let c = build(i, &[0xe2, 0x82]);
        ctx.add_sample("payload", json!({"context": CONTEXTS[i].name, "input": bytes_lossy(&c.input)}));
    }
    ctx.required_classes = vec![
        "payload:valid", "payload:stray-continuation", "payload:overlong-2", "payload:overlong-3", "payload:overlong-4",
        "payload:surrogate", "payload:above-10ffff", "payload:invalid-lead", "payload:truncated-or-bad-continuation",
        "result:accepted", "result:rejected", "ctx:elisp", "output:checked",
    ];
}

fn replay(_sub: &str, case: &Json) -> Option<CaseResult> {
    if let Some(c) = case.get("case") {
        let c: Case = serde_json::from_value(c.clone()).ok()?;
        return Some(check_case(&c));
    }
    let mv: MV = serde_json::from_value(case.get("value")?.clone()).ok()?;
    Some(check_output(&mv, case.get("p")?.as_u64()? as usize))
}

/// libFuzzer entry: raw bytes (mode % 3 == 0), a generated input, or a printed value.
pub fn fuzz(f: &mut FuzzIn) -> Option<CaseResult> {
    match f.mode % 3 {
        0 => {
            let (q, input) = f.raw_q_input();
            if input.len() > 300 {
                return None;
            }
            Some(check_case(&Case { input: input.to_vec(), q, ctx: 255, payload: Vec::new() }))
        }
        1 => {
            let (input, q) = f.draw(&(prop_oneof![3 => g_string_literal(), 2 => g_input(200).prop_map(|(b, _)| b)], g_qopt_index()))?;
            Some(check_case(&Case { input, q, ctx: 255, payload: Vec::new() }))
        }
        _ => {
            if f.raw.len() < 2 {
                return None;
            }
            let pi = u16::from_le_bytes([f.raw[0], f.raw[1]]) as usize % N_POPT;
            Some(check_output(&f.mv(2, ValueCfg::default_dialect(3, 20), 4), pi))
        }
    }
}
