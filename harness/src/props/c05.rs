//! C05 — numeric literals denote their exact mathematical value
//! (exact bignum oracle M_big).

use proptest::collection::vec;
use proptest::prelude::*;
use serde::{Deserialize, Serialize};
use serde_json::{json, Value as Json};

use crate::big::*;
use crate::engine::*;
use crate::gen::*;
use crate::model::*;
use crate::mv::*;
use crate::opts::QOpt;
use crate::props::Prop;
use crate::util::*;

pub const PROP: Prop = Prop {
    id: "C05",
    level: "exploration",
    rule: "(round 9: exponents with 7-40 leading zeros) (rounds 6-7: every literal is also read after other tokens of one parse - after a sign, after a string with an escape, between sign-led symbols, from a stream after a symbol and a string, inside a vector - and integer literals of a byte's value as elements of #u8( and #vu8( byte vectors) (decimal literals also take their digit strings from the integer boundaries - 2^k and 10^k with small offsets, the 64-bit limits and their tenths, 2^64+d - with up to two more digits and the decimal point at every position) literals generated from the grammar [#b|#o|#d|#x][+|-]0*digits (all four radixes, 64-bit boundaries 2^k, 2^k+-1, 10^k+-1 up to 2^70, random digit strings up to 400 digits, both hex cases) and [+|-]digits[.digits][(e|E)[+|-]digits] (1-400 digits, exponents in [-400,400] and absurd ones, exact halfway cases and their neighbours built with the bignum, subnormals, overflow band), plus every generated double and integer through the printer; parsed under the default options and under options with leading-digit symbols; oracle = exact rational arithmetic (M_big): exact integer in range, correctly rounded where the statement demands it, otherwise within 2^-50 relative (or one subnormal unit), out-of-range error at or above 2^1024, never inf/NaN; non-trivial = not a plain unsigned decimal of at most 9 digits; distinct by literal text and option variant",
    assumptions: &[
        "correct rounding is demanded only when the digits fit 2^53 and |exponent| <= 22 under the written, effective and scientific reading of 'exponent' (both builds), and additionally for <= 19 significant digits in the noff build",
        "in the band where x*(1+2^-50) crosses the overflow threshold either a finite in-tolerance result or the out-of-range error is accepted",
        "M_big is cross-checked at start-up against u128 arithmetic and str::parse::<f64> on 20000 random literals",
    ],
    run,
    replay,
    builds: &["ff", "noff"],
};

#[derive(Clone, Debug, Serialize, Deserialize, Hash, PartialEq)]
pub enum Lit {
    Int {
        radix: u32,
        /// write the radix prefix (always true unless radix is 10)
        prefix: bool,
        /// 0 none, 1 '+', 2 '-'
        sign: u8,
        zeros: u8,
        /// magnitude digits in `radix` (no leading zeros unless the value is 0)
        digits: String,
    },
    Dec {
        sign: u8,
        int_digits: String,
        frac: Option<String>,
        /// (upper-case E, exponent sign 0/1/2, digits)
        exp: Option<(bool, u8, String)>,
    },
}

impl Lit {
    pub fn text(&self) -> String {
        let sgn = |s: u8| match s {
            1 => "+",
            2 => "-",
            _ => "",
        };
        match self {
            Lit::Int { radix, prefix, sign, zeros, digits } => {
                let pre = match (*radix, *prefix) {
                    (2, _) => "#b",
                    (8, _) => "#o",
                    (16, _) => "#x",
                    (_, true) => "#d",
                    _ => "",
                };
                format!("{}{}{}{}", pre, sgn(*sign), "0".repeat(*zeros as usize), digits)
            }
            Lit::Dec { sign, int_digits, frac, exp } => {
                let mut s = format!("{}{}", sgn(*sign), int_digits);
                if let Some(f) = frac {
                    s.push('.');
                    s.push_str(f);
                }
                if let Some((up, es, d)) = exp {
                    s.push(if *up { 'E' } else { 'e' });
                    s.push_str(sgn(*es));
                    s.push_str(d);
                }
                s
            }
        }
    }
    /// The literal a text spells, for texts inside the generated domain (radix
    /// prefixes in lower case, at least one integer digit, a non-empty
    /// fraction if there is a dot, and a fraction or an exponent for `Dec`).
    pub fn from_text(t: &str) -> Option<Lit> {
        let (radix, prefix, rest) = match t.get(..2) {
            Some("#b") => (2u32, true, &t[2..]),
            Some("#o") => (8, true, &t[2..]),
            Some("#x") => (16, true, &t[2..]),
            Some("#d") => (10, true, &t[2..]),
            _ => (10, false, t),
        };
        let (sign, rest) = match rest.as_bytes().first()? {
            b'+' => (1u8, &rest[1..]),
            b'-' => (2u8, &rest[1..]),
            _ => (0u8, rest),
        };
        if rest.is_empty() || rest.len() > 420 {
            return None;
        }
        if rest.chars().all(|c| c.is_digit(radix)) {
            let trimmed = rest.trim_start_matches('0');
            let (zeros, digits) = if trimmed.is_empty() { (rest.len() - 1, "0") } else { (rest.len() - trimmed.len(), trimmed) };
            if zeros > 200 {
                return None;
            }
            return Some(Lit::Int { radix, prefix, sign, zeros: zeros as u8, digits: digits.to_string() });
        }
        if radix != 10 || prefix {
            return None;
        }
        let (mant, exp) = match rest.find(|c| c == 'e' || c == 'E') {
            Some(i) => {
                let e = &rest[i + 1..];
                let (es, ed) = match e.as_bytes().first()? {
                    b'+' => (1u8, &e[1..]),
                    b'-' => (2u8, &e[1..]),
                    _ => (0u8, e),
                };
                if ed.is_empty() || ed.len() > 24 || !ed.bytes().all(|b| b.is_ascii_digit()) {
                    return None;
                }
                (&rest[..i], Some((rest.as_bytes()[i] == b'E', es, ed.to_string())))
            }
            None => (rest, None),
        };
        let (int_digits, frac) = match mant.split_once('.') {
            Some((i, f)) => (i, Some(f)),
            None => (mant, None),
        };
        if int_digits.is_empty() || !int_digits.bytes().all(|b| b.is_ascii_digit()) {
            return None;
        }
        if let Some(f) = frac {
            if f.is_empty() || !f.bytes().all(|b| b.is_ascii_digit()) {
                return None;
            }
        }
        if frac.is_none() && exp.is_none() {
            return None;
        }
        Some(Lit::Dec { sign, int_digits: int_digits.to_string(), frac: frac.map(String::from), exp })
    }
    fn neg(&self) -> bool {
        match self {
            Lit::Int { sign, .. } | Lit::Dec { sign, .. } => *sign == 2,
        }
    }
}

#[derive(Debug, Clone, PartialEq)]
enum Got {
    UInt(u64),
    NInt(i64),
    Float(f64),
    Err(String),
    Other(String),
}

fn parse_with(text: &str, digits_opt: bool) -> Result<Got, String> {
    let q = if digits_opt {
        QOpt { digits: true, ..QOpt::default_set() }
    } else {
        QOpt::default_set()
    };
    catch(|| match lexpr::from_str_custom(text, q.to_lexpr()) {
        Err(e) => Got::Err(err_text(&e)),
        Ok(v) => match v.as_number() {
            Some(n) => {
                if n.is_f64() {
                    Got::Float(n.as_f64().unwrap())
                } else if let Some(u) = n.as_u64() {
                    Got::UInt(u)
                } else {
                    Got::NInt(n.as_i64().unwrap())
                }
            }
            None => Got::Other(format!("{:?}", v)),
        },
    })
}

fn digits_bucket(n: usize) -> &'static str {
    match n {
        0..=15 => "<=15",
        16..=19 => "16-19",
        20..=40 => "20-40",
        _ => ">40",
    }
}

pub fn check_lit(lit: &Lit, digits_opt: bool) -> CaseResult {
    let text = lit.text();
    let mut ev_bytes_class = false;
    let case = || json!({"lit": lit, "digits_opt": digits_opt});
    let got = match parse_with(&text, digits_opt) {
        Ok(g) => g,
        Err(pm) => {
            return Err(Failure::new(
                format!("C05 panic={}", panic_sig(&pm)),
                format!("parsing {:?} panicked: {}", clip(&text, 120), pm),
                case(),
            ))
        }
    };
    // the same literal after other tokens of one parse (tokens that leave
    // bytes in the parser's scratch space: a sign-led symbol, a string with an
    // escape, any symbol when reading from a stream) reads as it does alone
    {
        let q = if digits_opt { QOpt { digits: true, ..QOpt::default_set() } } else { QOpt::default_set() };
        let alone: Result<MV, String> = match &got {
            Got::UInt(u) => Ok(MV::U(*u)),
            Got::NInt(i) => Ok(MV::I(*i)),
            Got::Float(f) => Ok(MV::F(f.to_bits())),
            Got::Err(e) => Err(e.clone()),
            Got::Other(o) => Err(format!("other:{}", o)),
        };
        let contexts = [("(- {})", 1usize, false), ("(\"a\\n\" {})", 1, false), ("(-> {} +x {})", 1, false), ("(max \"s\" {})", 2, true), ("#(sym {})", 1, true)];
        for (tpl, at, stream) in contexts {
            let t2 = tpl.replace("{}", &text);
            let r = catch(|| {
                if stream {
                    lexpr::from_reader_custom(std::io::Cursor::new(t2.as_bytes()), q.to_lexpr())
                } else {
                    lexpr::from_str_custom(&t2, q.to_lexpr())
                }
            });
            let inner: Result<MV, String> = match r {
                Err(pm) => Err(format!("panic: {}", pm)),
                Ok(Err(e)) => Err(err_text(&e)),
                Ok(Ok(v)) => {
                    let m = MV::from_value(&v);
                    let item = match &m {
                        MV::List(xs, _) | MV::Vec(xs) => xs.get(at).cloned(),
                        _ => None,
                    };
                    item.ok_or_else(|| "shape".to_string())
                }
            };
            let same = match (&alone, &inner) {
                (Ok(a), Ok(b)) => a == b,
                (Err(a), Err(b)) => a == b || (a.starts_with("other:") && !b.is_empty()),
                // alone the text may be something else than a number (a symbol under leading-digit symbols): skip
                _ => matches!(&got, Got::Other(_)),
            };
            if !same {
                return Err(Failure::new(
                    format!("C05 in-context differs context={} {}", tpl.replace("{}", "N"), if stream { "src=reader" } else { "src=str" }),
                    format!("{:?} alone reads as {} but inside {:?} as {}", clip(&text, 80), short(&alone), clip(&t2, 100), short(&inner)),
                    case(),
                ));
            }
        }
    }
    // an integer literal of a byte's value as an element of a byte vector
    if let (Lit::Int { .. }, Got::UInt(u), false) = (lit, &got, digits_opt) {
        if *u <= 255 {
            for open in ["#u8(", "#vu8("] {
                for (tpl, stream) in [("{o}{n})", false), ("{o}1 {n} 255)", true), ("(x {o}{n} 0))", false)] {
                    let t2 = tpl.replace("{o}", open).replace("{n}", &text);
                    let r = catch(|| if stream { lexpr::from_reader(std::io::Cursor::new(t2.as_bytes())) } else { lexpr::from_str(&t2) });
                    let want: Vec<u8> = if tpl.contains("1 {n}") { vec![1, *u as u8, 255] } else if tpl.starts_with("(x") { vec![*u as u8, 0] } else { vec![*u as u8] };
                    let got_bytes: Result<Vec<u8>, String> = match r {
                        Err(pm) => Err(format!("panic: {}", pm)),
                        Ok(Err(e)) => Err(err_text(&e)),
                        Ok(Ok(v)) => {
                            let b = if tpl.starts_with("(x") { v.get(1).and_then(|x| x.as_bytes()).map(|b| b.to_vec()) } else { v.as_bytes().map(|b| b.to_vec()) };
                            b.ok_or_else(|| format!("not a byte vector: {}", v))
                        }
                    };
                    if got_bytes.as_ref().ok() != Some(&want) {
                        return Err(Failure::new(
                            format!("C05 in-bytevector differs open={} {}", open, if stream { "src=reader" } else { "src=str" }),
                            format!("{:?} alone reads as {} but {:?} reads as {:?}", clip(&text, 80), u, clip(&t2, 100), got_bytes),
                            case(),
                        ));
                    }
                }
            }
            ev_bytes_class = true;
        }
    }
    let opt = if digits_opt { " opts=leading-digit-symbols" } else { "" };
    let mut classes: Vec<&'static str> = Vec::new();
    if ev_bytes_class {
        classes.push("context:byte-vector");
    }
    let verdict: Result<(), (String, String)> = match lit {
        Lit::Int { radix, digits, sign, zeros, prefix } => {
            let v = Big::from_digits(digits, *radix).expect("generator produced valid digits");
            let neg = lit.neg();
            classes.push(match radix {
                2 => "int:radix2",
                8 => "int:radix8",
                16 => "int:radix16",
                _ => "int:radix10",
            });
            if *sign == 1 {
                classes.push("int:plus-sign");
            }
            if neg {
                classes.push("int:negative");
            }
            if *zeros > 0 {
                classes.push("int:leading-zeros");
            }
            if *prefix && *radix == 10 {
                classes.push("int:#d");
            }
            let in_range = match v.to_u128() {
                Some(m) => {
                    if neg {
                        m <= 1u128 << 63
                    } else {
                        m <= u64::MAX as u128
                    }
                }
                None => false,
            };
            let range = if in_range {
                let m = v.to_u128().unwrap();
                if m >= 1u128 << 63 {
                    classes.push("int:>=2^63");
                    ">=2^63"
                } else {
                    "small"
                }
            } else {
                classes.push("int:out-of-64-bit-range");
                "out-of-range"
            };
            let sig = |what: &str| format!("kind=int radix={} range={} {}{}", radix, range, what, opt);
            if in_range {
                let m = v.to_u128().unwrap();
                let want = if neg && m != 0 { Got::NInt((-(m as i128)) as i64) } else { Got::UInt(m as u64) };
                if got == want {
                    Ok(())
                } else {
                    Err((
                        sig(&format!("got={}", got_class(&got))),
                        format!("{:?} should be the exact integer {:?} but parsed to {:?}", clip(&text, 120), want, got),
                    ))
                }
            } else {
                let x = Exact::from_parts(&v, 10, 0);
                match &got {
                    Got::Float(r) => {
                        if at_least_2_1024(&x) {
                            Err((sig("got=float want=out-of-range-error"), format!("{:?} is >= 2^1024 but parsed to {:?}", clip(&text, 120), r)))
                        } else if r.is_sign_negative() != neg || !within_tolerance(r.abs(), &x) {
                            Err((
                                sig("got=float-out-of-tolerance"),
                                format!("{:?} (true value {} in radix {}) parsed to {:?}, outside relative error 2^-50", clip(&text, 120), clip(&v.to_decimal(), 60), radix, r),
                            ))
                        } else {
                            Ok(())
                        }
                    }
                    Got::Err(e) if e == "number out of range" && near_overflow(&x) => Ok(()),
                    // as for decimal literals below: with leading-digit symbols a
                    // digit-initial token that is not a representable number is
                    // read as a symbol; the statement does not cover that option
                    Got::Other(_) if digits_opt && lit_starts_with_digit(lit) && near_overflow(&x) => Ok(()),
                    other => Err((
                        sig(&format!("got={}", got_class(other))),
                        format!("{:?} should be a float approximating {} but parsed to {:?}", clip(&text, 120), clip(&v.to_decimal(), 60), other),
                    )),
                }
            }
        }
        Lit::Dec { int_digits, frac, exp, .. } => {
            let l = parse_dec_lit(&text).expect("generator produced a decimal literal");
            let neg = lit.neg();
            let d = Big::from_digits(if l.digits.is_empty() { "0" } else { &l.digits }, 10).unwrap();
            let sigd = l.sig_digits();
            classes.push(match (frac.is_some(), exp.is_some()) {
                (true, true) => "dec:frac+exp",
                (true, false) => "dec:frac",
                _ => "dec:exp-no-frac",
            });
            classes.push(match sigd {
                0..=15 => "dec:<=15-digits",
                16..=19 => "dec:16-19-digits",
                _ => "dec:>19-digits",
            });
            let _ = int_digits;
            let form = format!(
                "kind=dec form={} digits={}",
                match (frac.is_some(), exp.is_some()) {
                    (true, true) => "frac+exp",
                    (true, false) => "frac",
                    _ => "exp",
                },
                digits_bucket(sigd)
            );
            let sig = |what: &str| format!("{} {}{}", form, what, opt);
            if d.is_zero() {
                classes.push("dec:zero");
                match &got {
                    Got::Float(r) if *r == 0.0 => Ok(()),
                    other => Err((sig(&format!("zero got={}", got_class(other))), format!("{:?} is zero but parsed to {:?}", clip(&text, 120), other))),
                }
            } else if l.eff_exp.abs() > 5000 {
                // absurd exponents: overflow -> error, underflow -> zero
                classes.push("dec:absurd-exponent");
                let huge = l.eff_exp > 0;
                match (&got, huge) {
                    (Got::Err(e), true) if e == "number out of range" => Ok(()),
                    (Got::Other(_), true) if digits_opt && lit_starts_with_digit(lit) => Ok(()),
                    (Got::Float(r), false) if r.abs() <= 5e-324 => Ok(()),
                    (other, _) => Err((
                        sig(&format!("absurd-exponent got={}", got_class(other))),
                        format!("{:?} parsed to {:?}", clip(&text, 120), other),
                    )),
                }
            } else {
                let x = Exact::from_parts(&d, 10, l.eff_exp);
                let must_round = l.must_be_exact_any_build() || (cfg!(not(feature = "ff")) && sigd <= 19);
                if must_round {
                    classes.push("dec:must-be-correctly-rounded");
                }
                if at_least_2_1024(&x) {
                    classes.push("dec:overflow");
                    match &got {
                        Got::Err(e) if e == "number out of range" => Ok(()),
                        // with leading-digit symbols a token that is not a
                        // representable number is read as a symbol; the
                        // statement does not cover that option, so only
                        // "never infinity or NaN" is asserted there
                        Got::Other(_) if digits_opt && lit_starts_with_digit(lit) => Ok(()),
                        other => Err((
                            sig(&format!("overflow got={}", got_class(other))),
                            format!("{:?} is >= 2^1024 and must be rejected as out of range, but parsed to {:?}", clip(&text, 120), other),
                        )),
                    }
                } else {
                    let band = near_overflow(&x);
                    if band {
                        classes.push("dec:overflow-band");
                    }
                    match &got {
                        Got::Float(r) => {
                            if !r.is_finite() {
                                Err((sig("got=non-finite"), format!("{:?} parsed to {:?}", clip(&text, 120), r)))
                            } else if r.is_sign_negative() != neg && *r != 0.0 {
                                Err((sig("got=wrong-sign"), format!("{:?} parsed to {:?}", clip(&text, 120), r)))
                            } else if must_round && !overflows(&x) {
                                if is_correctly_rounded(r.abs(), &x) {
                                    Ok(())
                                } else {
                                    let reference: f64 = text.trim_start_matches('+').parse().unwrap_or(f64::NAN);
                                    Err((
                                        sig("got=not-correctly-rounded"),
                                        format!("{:?} must be correctly rounded ({:?}) but parsed to {:?}", clip(&text, 120), reference, r),
                                    ))
                                }
                            } else if within_tolerance(r.abs(), &x) {
                                if r.abs() < f64::MIN_POSITIVE {
                                    classes.push("dec:subnormal-result");
                                }
                                Ok(())
                            } else {
                                Err((
                                    sig("got=float-out-of-tolerance"),
                                    format!("{:?} parsed to {:?}, outside max(2^-50 relative, 2^-1074) of the true value", clip(&text, 120), r),
                                ))
                            }
                        }
                        Got::Err(e) if e == "number out of range" && band => Ok(()),
                        Got::Other(_) if band && digits_opt && lit_starts_with_digit(lit) => Ok(()),
                        other => Err((
                            sig(&format!("got={}", got_class(other))),
                            format!("{:?} is a decimal literal but parsed to {:?}", clip(&text, 120), other),
                        )),
                    }
                }
            }
        }
    };
    match verdict {
        Ok(()) => {
            let trivial = matches!(lit, Lit::Int { radix: 10, prefix: false, sign: 0, zeros: 0, digits } if digits.len() <= 9);
            Ok(Eval::new(!trivial, digest_of(&(text, digits_opt))).classes(&classes))
        }
        Err((sig, msg)) => Err(Failure::new(format!("C05 {}", sig), msg, case()).with_classes(classes)),
    }
}

fn lit_starts_with_digit(l: &Lit) -> bool {
    l.text().as_bytes()[0].is_ascii_digit()
}

fn got_class(g: &Got) -> String {
    match g {
        Got::UInt(_) | Got::NInt(_) => "exact-int".into(),
        Got::Float(_) => "float".into(),
        Got::Err(e) => format!("error:{}", e),
        Got::Other(_) => "non-number".into(),
    }
}

/// Printer clause: the text of every number is a literal of the grammar and
/// reads back as the same number.
pub fn check_printed(mv: &MV) -> CaseResult {
    let case = || json!({"number": mv});
    let text = lexpr::to_string(&mv.to_value()).unwrap_or_default();
    let grammar_ok = match mv {
        MV::F(_) => parse_dec_lit(&text).map_or(false, |l| l.has_frac || l.has_exp) && !text.starts_with('+'),
        _ => {
            let body = text.strip_prefix('-').unwrap_or(&text);
            !body.is_empty() && body.bytes().all(|c| c.is_ascii_digit())
        }
    };
    if !grammar_ok {
        return Err(Failure::new(
            "C05 printed-number-not-in-grammar",
            format!("printer emitted {:?} for {:?}", text, mv),
            case(),
        ));
    }
    match parse_with(&text, false) {
        Err(pm) => Err(Failure::new(format!("C05 printed panic={}", panic_sig(&pm)), pm, case())),
        Ok(got) => {
            let ok = match (mv, &got) {
                (MV::U(u), Got::UInt(g)) => u == g,
                (MV::I(i), Got::NInt(g)) => i == g,
                (MV::F(b), Got::Float(g)) => float_roundtrip_ok(f64::from_bits(*b), *g, &text),
                _ => false,
            };
            if ok {
                let cls = match mv {
                    MV::F(_) => "printed:float",
                    _ => "printed:int",
                };
                Ok(Eval::new(true, digest_of(mv)).class(cls))
            } else {
                Err(Failure::new(
                    format!("C05 printed-readback kind={} got={}", mv.kind(), got_class(&got)),
                    format!("printed number {:?} reads back as {:?}", text, got),
                    case(),
                ))
            }
        }
    }
}

// ------------------------------------------------------------------ generators

fn digits_in(radix: u32, max_len: usize) -> BS<String> {
    let alphabet: Vec<char> = "0123456789abcdef".chars().take(radix as usize).collect();
    let a2 = alphabet.clone();
    (vec(0..radix as usize, 0..max_len), 1..radix as usize)
        .prop_map(move |(ds, first)| {
            let mut s = String::new();
            s.push(a2[first]);
            for d in ds {
                s.push(alphabet[d]);
            }
            s
        })
        .boxed()
}

fn mixed_case(s: String, mode: u8) -> String {
    match mode % 3 {
        0 => s,
        1 => s.to_ascii_uppercase(),
        _ => s
            .chars()
            .enumerate()
            .map(|(i, c)| if i % 2 == 0 { c.to_ascii_uppercase() } else { c })
            .collect(),
    }
}

/// Integer magnitudes around the places where an accumulator changes
/// representation: powers of two and ten with small offsets, the 64-bit limits.
fn g_magnitude() -> BS<Big> {
    prop_oneof![
        4 => (0u32..=70, -2i32..=2).prop_map(|(k, d)| {
            let mut b = Big::pow(2, k);
            if d >= 0 { b.add_small(d as u32); b } else { b.abs_diff(&Big::from_u64((-d) as u64)) }
        }),
        2 => (0u32..=21, -2i32..=2).prop_map(|(k, d)| {
            let mut b = Big::pow(10, k);
            if d >= 0 { b.add_small(d as u32); b } else { b.abs_diff(&Big::from_u64((-d) as u64)) }
        }),
        2 => prop_oneof![Just(u64::MAX), Just(i64::MAX as u64), Just(1u64 << 63), Just((1u64 << 63) + 1), Just(u64::MAX - 1), Just(u64::MAX / 10), Just(u64::MAX / 10 + 1), Just(u64::MAX / 100)].prop_map(Big::from_u64),
        1 => (0u128..40).prop_map(|d| Big::from_u128((1u128 << 64) + d)),
    ]
    .boxed()
}

fn g_int_lit() -> BS<Lit> {
    let magnitude = prop_oneof![
        4 => (0u32..=70, -2i32..=2).prop_map(|(k, d)| {
            let mut b = Big::pow(2, k);
            if d >= 0 { b.add_small(d as u32); b } else { b.abs_diff(&Big::from_u64((-d) as u64)) }
        }),
        2 => (0u32..=21, -2i32..=2).prop_map(|(k, d)| {
            let mut b = Big::pow(10, k);
            if d >= 0 { b.add_small(d as u32); b } else { b.abs_diff(&Big::from_u64((-d) as u64)) }
        }),
        2 => any::<u64>().prop_map(Big::from_u64),
        1 => (any::<u64>(), 0u32..8).prop_map(|(u, s)| Big::from_u64(u).shl(s)),
        1 => (0u64..1000).prop_map(Big::from_u64),
        1 => prop_oneof![Just(u64::MAX), Just(i64::MAX as u64), Just(1u64 << 63), Just((1u64 << 63) + 1), Just(u64::MAX - 1)].prop_map(Big::from_u64),
        1 => Just(Big::from_u128(1u128 << 64)),
        1 => Just(Big::from_u128((1u128 << 64) + 1)),
    ];
    let radix = prop_oneof![Just(2u32), Just(8u32), Just(10u32), Just(16u32)];
    let from_mag = (magnitude, radix.clone(), any::<bool>(), 0u8..3, prop_oneof![3 => Just(0u8), 1 => 1u8..4], any::<u8>())
        .prop_map(|(m, radix, prefix, sign, zeros, case)| Lit::Int {
            radix,
            prefix: prefix || radix != 10,
            sign,
            zeros,
            digits: mixed_case(m.to_radix(radix), case),
        });
    let long = (radix, 0u8..3, any::<u8>())
        .prop_flat_map(|(radix, sign, case)| {
            digits_in(radix, 400).prop_map(move |d| Lit::Int {
                radix,
                prefix: true,
                sign,
                zeros: 0,
                digits: mixed_case(d, case),
            })
        });
    prop_oneof![4 => from_mag, 1 => long].boxed()
}

fn g_exp() -> BS<Option<(bool, u8, String)>> {
    prop_oneof![
        3 => Just(None),
        5 => (any::<bool>(), 0u8..3, 0u32..=30, 0usize..3).prop_map(|(up, s, e, z)| Some((up, s, format!("{}{}", "0".repeat(z), e)))),
        // zero-padded exponents: the digit count says nothing about the size
        2 => (any::<bool>(), 0u8..3, 0u32..=330, proptest::sample::select(vec![7usize, 8, 9, 10, 11, 12, 19, 20, 40])).prop_map(|(up, s, e, z)| Some((up, s, format!("{}{}", "0".repeat(z), e)))),
        3 => (any::<bool>(), 0u8..3, 0u32..=400).prop_map(|(up, s, e)| Some((up, s, e.to_string()))),
        1 => (any::<bool>(), 0u8..3, prop_oneof![Just("99999999999"), Just("2147483647"), Just("2147483648"), Just("4294967296"), Just("99999999999999999999999")])
            .prop_map(|(up, s, e)| Some((up, s, e.to_string()))),
    ]
    .boxed()
}

fn g_dec_lit() -> BS<Lit> {
    let ndigits = prop_oneof![6 => 1usize..=17, 3 => 17usize..=25, 2 => 25usize..=60, 1 => 60usize..=400];
    let generic = (ndigits, any::<u64>(), 0u8..3, g_exp(), 0u8..4).prop_flat_map(|(n, split_seed, sign, exp, zeros)| {
        vec(0u8..10, n).prop_map(move |ds| {
            let mut s: String = ds.iter().map(|d| (b'0' + d) as char).collect();
            // optional run of zeros to exercise trailing/leading zeros
            if zeros == 1 {
                s = format!("{}{}", s, "0".repeat(1 + (split_seed % 25) as usize));
            } else if zeros == 2 {
                s = format!("{}{}", "0".repeat(1 + (split_seed % 25) as usize), s);
            }
            let cut = 1 + (split_seed as usize % s.len());
            let (i, f) = s.split_at(cut.min(s.len()));
            let frac = if f.is_empty() { None } else { Some(f.to_string()) };
            let mut exp = exp.clone();
            if frac.is_none() && exp.is_none() {
                exp = Some((false, 0, "0".to_string()));
            }
            Lit::Dec { sign, int_digits: i.to_string(), frac, exp }
        })
    });
    // halfway cases: (2m+1) * 2^(q-1) written out exactly, and neighbours
    let halfway = (g_float(), 0u8..3, 0u8..3).prop_map(|(bits, sign, nudge)| {
        let r = f64::from_bits(bits).abs();
        let (m, q) = decompose(if r == 0.0 { 1.0 } else { r });
        let odd = Big::from_u128(2 * m as u128 + 1);
        let q1 = q - 1;
        let (mut digits, e10) = if q1 >= 0 {
            (odd.shl(q1 as u32).to_decimal(), 0i64)
        } else if -q1 <= 320 {
            (odd.mul(&Big::pow(5, (-q1) as u32)).to_decimal(), q1 as i64)
        } else {
            // too long to write exactly: fall back to 17-digit form
            (format!("{:e}", r).replace('.', "").split('e').next().unwrap().to_string(), 0)
        };
        let mut e10 = e10;
        match nudge {
            1 => {
                digits.push('1');
                e10 -= 1;
            }
            2 => {
                // decrement the last digit position by appending 9s after borrowing: x - tiny
                let mut b = Big::from_digits(&digits, 10).unwrap();
                b.mul_small(10);
                let b = b.abs_diff(&Big::from_u64(1));
                digits = b.to_decimal();
                e10 -= 1;
            }
            _ => {}
        }
        let exp = if e10 == 0 { Some((false, 0u8, "0".to_string())) } else { Some((false, if e10 < 0 { 2 } else { 0 }, e10.abs().to_string())) };
        Lit::Dec { sign, int_digits: digits, frac: None, exp }
    });
    // doubles through their shortest form, re-spelled
    let shortest = (g_float(), 0u8..2).prop_map(|(bits, sign)| {
        let t = format!("{:e}", f64::from_bits(bits).abs());
        let (mant, e) = t.split_once('e').unwrap();
        let (i, f) = match mant.split_once('.') {
            Some((i, f)) => (i.to_string(), Some(f.to_string())),
            None => (mant.to_string(), None),
        };
        let en: i64 = e.parse().unwrap();
        Lit::Dec { sign, int_digits: i, frac: f, exp: Some((false, if en < 0 { 2 } else { 0 }, en.abs().to_string())) }
    });
    // overflow band and threshold
    let overflow = (prop_oneof![Just("17976931348623157"), Just("17976931348623158"), Just("17976931348623159"), Just("1797693134862315807"), Just("1797693134862315708"), Just("179769313486231580793728971405303415079934132710037826936173778980444968292764750946649017977587207096330286416692887910946555547851940402630657488671505820681908902000708383676273854845817711531764475730270069855571366959622842914819860834936475292719074168444365510704342711559699508093042880177904174497791"), Just("179769313486231580793728971405303415079934132710037826936173778980444968292764750946649017977587207096330286416692887910946555547851940402630657488671505820681908902000708383676273854845817711531764475730270069855571366959622842914819860834936475292719074168444365510704342711559699508093042880177904174497792"), Just("2"), Just("1")], 0u8..3, 290i64..=310)
        .prop_map(|(d, sign, e)| {
            let e = if d.len() > 100 { 0 } else { e - d.len() as i64 + 1 };
            Lit::Dec { sign, int_digits: d.to_string(), frac: None, exp: Some((false, if e < 0 { 2 } else { 0 }, e.abs().to_string())) }
        });
    // the digit strings of the integer boundaries, with up to two more digits,
    // cut into integer and fraction part at every position: the significand
    // accumulator meets its limit in the middle of the fraction
    let boundary = (g_magnitude(), prop_oneof![Just(String::new()), "[0-9]", "[0-9]{2}"], any::<u64>(), 0u8..3, g_exp()).prop_map(|(m, extra, cut_seed, sign, exp)| {
        let s = format!("{}{}", m.to_decimal(), extra);
        let cut = 1 + (cut_seed as usize % s.len());
        let (i, f) = s.split_at(cut);
        let frac = if f.is_empty() { None } else { Some(f.to_string()) };
        let exp = if frac.is_none() && exp.is_none() { Some((false, 0u8, "0".to_string())) } else { exp };
        Lit::Dec { sign, int_digits: i.to_string(), frac, exp }
    });
    // the first k digits (k = 16..25) of the three magnitudes that decide
    // overflow - f64::MAX, the rounding threshold f64::MAX + half an ulp, and
    // 2^1024 - nudged in the last place: the fast path computes these with an
    // error of a few ulps, which is exactly what decides between MAX and overflow
    let threshold = (0u8..3, 16usize..=25, -3i64..=3, 0u8..3, any::<bool>()).prop_map(|(which, k, delta, sign, as_frac)| {
        let base = match which {
            0 => Big::from_u64((1u64 << 53) - 1).shl(971),
            1 => Big::from_u64((1u64 << 54) - 1).shl(970),
            _ => Big::from_u64(1).shl(1024),
        };
        let full = base.to_decimal();
        let mut head = Big::from_digits(&full[..k], 10).unwrap();
        if delta >= 0 {
            head.add_small(delta as u32);
        } else {
            head = head.abs_diff(&Big::from_u64((-delta) as u64));
        }
        let digits = head.to_decimal();
        let e10 = full.len() as i64 - k as i64;
        if as_frac {
            // d.ddd e308
            let (i, f) = digits.split_at(1);
            let e = e10 + f.len() as i64;
            Lit::Dec { sign, int_digits: i.to_string(), frac: Some(f.to_string()), exp: Some((false, 0, e.to_string())) }
        } else {
            Lit::Dec { sign, int_digits: digits, frac: None, exp: Some((false, 0, e10.to_string())) }
        }
    });
    prop_oneof![6 => generic, 3 => halfway, 3 => shortest, 1 => overflow, 3 => boundary, 1 => threshold].boxed()
}

pub fn g_lit() -> BS<(Lit, bool)> {
    (prop_oneof![2 => g_int_lit(), 3 => g_dec_lit()], prop_oneof![3 => Just(false), 1 => Just(true)]).boxed()
}

fn run(ctx: &mut Ctx) {
    let tier = ctx.tier;
    use rayon::prelude::*;
    let parent = &*ctx;
    let children: Vec<Ctx> = (0..16u32)
        .into_par_iter()
        .map(|w| {
            let mut c = parent.fork();
            c.run_prop(&format!("literals/{}", w), tier.pick(30_000, 600_000), g_lit(), |(l, d)| check_lit(l, *d));
            c.run_prop(&format!("printed-floats/{}", w), tier.pick(10_000, 300_000), g_float().prop_map(MV::F), check_printed);
            c.run_prop(&format!("printed-ints/{}", w), tier.pick(1_000, 30_000), g_int().prop_map(MV::int), check_printed);
            c
        })
        .collect();
    for c in children {
        ctx.absorb(c);
    }
    // the whole 64-bit boundary table in all four radixes, both signs
    let mut table: Vec<(Lit, bool)> = Vec::new();
    for k in 0..=66u32 {
        for d in -1i32..=1 {
            let mut b = Big::pow(2, k);
            let b = if d >= 0 {
                b.add_small(d as u32);
                b
            } else {
                b.abs_diff(&Big::from_u64(1))
            };
            for radix in [2u32, 8, 10, 16] {
                for sign in 0u8..3 {
                    table.push((
                        Lit::Int { radix, prefix: radix != 10, sign, zeros: 0, digits: b.to_radix(radix) },
                        false,
                    ));
                }
            }
        }
    }
    ctx.par_sweep("int-boundary-table", table.par_iter(), |(l, d)| check_lit(l, *d));
    ctx.exhaustive.push(format!(
        "2^k-1, 2^k, 2^k+1 for k = 0..66 in radix 2, 8, 10, 16 with no sign, + and - ({} literals)",
        table.len()
    ));
    for (l, d) in ctx.sample_values("literals", &g_lit(), 10) {
        ctx.add_sample("literals", json!({"text": clip(&l.text(), 100), "leading_digit_symbols": d}));
    }
    ctx.required_classes = vec![
        "int:radix2", "int:radix8", "int:radix10", "int:radix16", "int:negative", "int:plus-sign",
        "int:leading-zeros", "int:>=2^63", "int:out-of-64-bit-range", "int:#d",
        "dec:frac+exp", "dec:frac", "dec:exp-no-frac", "dec:<=15-digits", "dec:16-19-digits",
        "dec:>19-digits", "dec:zero", "dec:absurd-exponent", "dec:must-be-correctly-rounded",
        "dec:overflow", "dec:overflow-band", "dec:subnormal-result", "printed:float", "printed:int",
    ];
}

fn replay(_sub: &str, case: &Json) -> Option<CaseResult> {
    if let Some(l) = case.get("lit") {
        let lit: Lit = serde_json::from_value(l.clone()).ok()?;
        let d = case.get("digits_opt").and_then(|d| d.as_bool()).unwrap_or(false);
        return Some(check_lit(&lit, d));
    }
    if let Some(n) = case.get("number") {
        let mv: MV = serde_json::from_value(n.clone()).ok()?;
        return Some(check_printed(&mv));
    }
    None
}

/// libFuzzer entry: a generated numeric literal or a printed number.
pub fn fuzz(f: &mut FuzzIn) -> Option<CaseResult> {
    match f.mode % 4 {
        0 | 3 => {
            // the bytes spell the literal: libFuzzer mutates digits, signs,
            // prefixes and exponents directly
            let (h, rest) = f.raw.split_first()?;
            let lit = Lit::from_text(std::str::from_utf8(rest).ok()?)?;
            debug_assert_eq!(lit.text(), std::str::from_utf8(rest).unwrap());
            Some(check_lit(&lit, h & 1 == 1))
        }
        1 => {
            let (l, d) = f.draw(&g_lit())?;
            Some(check_lit(&l, d))
        }
        _ => {
            let v = f.draw(&prop_oneof![g_float().prop_map(MV::F), g_int().prop_map(MV::int)])?;
            Some(check_printed(&v))
        }
    }
}
