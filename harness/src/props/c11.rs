//! C11 — source spans delimit exactly the text of each datum, identically
//! for all three input sources.

use std::io::{BufReader, Cursor};

use lexpr::datum::Ref;
use lexpr::parse::Span;
use proptest::collection::vec;
use proptest::prelude::*;
use serde::{Deserialize, Serialize};
use serde_json::{json, Value as Json};

use crate::engine::*;
use crate::gen::*;
use crate::layout::*;
use crate::model::*;
use crate::mv::*;
use crate::opts::*;
use crate::props::Prop;
use crate::util::*;

pub const PROP: Prop = Prop {
    id: "C11",
    level: "exploration",
    rule: "(round 8: what ListIter::peek shows is what next yields, value and span, at every step of every list walk) (rounds 6-7: spans after a transient stream failure between two datums; the model-free walk goes on after syntax errors, from every source kind) (plus a model-free walk - inside the input, non-empty, containment, sibling order, covered text re-parses to the sub-datum, shorthand heads, equal spans from every source kind - over every datum of token-alphabet sequences, mutated printed text, string/character/numeric literals and arbitrary bytes) (a cloned datum and Datum::from(sub-datum) have to report the same spans as the original) values from G_value restricted to what the chosen parser option set reads back verbatim, rendered by G_layout with alternative spellings and generated trivia (spaces, tabs, CR, LF, CRLF, form feed, comments with non-ASCII text) at every token boundary, so that the byte range of every datum and sub-datum is known by construction; parsed as a datum from &str, &[u8], an unbuffered reader and a BufReader; oracle: reported start/end of every datum reachable through list_iter/vector_iter equals the layout's own position map (1-based line, 0-based byte column, end exclusive), plus the clauses of the statement checked independently of the map (inside the input, non-empty, inside the parent, after the preceding sibling, text re-parses to the sub-datum, shorthand head covers the shorthand characters), and identical spans from all sources; non-trivial = at least one sub-datum and (at least 2 lines, or a non-ASCII byte before a datum, or a shorthand, or a dotted tail); distinct by digest of (value, options, choices)",
    assumptions: &[
        "layout text that the parser does not read back as the generated value is excluded here and counted (that defect class belongs to C12/C13); more than 2% of such cases makes the run inconclusive",
        "floats are compared with the C05 tolerance when re-parsing",
    ],
    run,
    replay,
    builds: &["ff"],
};

#[derive(Clone, Debug, Serialize, Deserialize, Hash)]
pub struct Case {
    pub value: MV,
    pub q: usize,
    pub choices: Vec<u32>,
    pub trivia: u8,
    pub alt: bool,
}

pub type Pos = (usize, usize);

fn pos_of(p: lexpr::parse::Position) -> Pos {
    (p.line(), p.column())
}

fn span_of(s: Span) -> (Pos, Pos) {
    (pos_of(s.start()), pos_of(s.end()))
}

/// Children of a datum reference in layout order.
fn ref_children<'a>(r: &Ref<'a>) -> Vec<Ref<'a>> {
    if let Some(it) = r.vector_iter() {
        return it.collect();
    }
    if let Some(mut it) = r.list_iter() {
        // the iterator yields `None` as the dot marker before a dotted tail, so
        // it cannot simply be collected
        let mut out = Vec::new();
        let mut guard = 0;
        while !it.is_empty() && guard < 1_000_000 {
            guard += 1;
            // what `peek` shows is what `next` then yields: same value, same span
            let peeked = it.peek().map(|p| (span_of(p.span()), p.value() as *const lexpr::Value));
            let got = it.next();
            let yielded = got.as_ref().map(|x| (span_of(x.span()), x.value() as *const lexpr::Value));
            if peeked != yielded {
                PEEK_MISMATCH.with(|m| {
                    if m.borrow().is_none() {
                        *m.borrow_mut() = Some(format!(
                            "list_iter: peek() showed {:?} but next() yielded {:?} at step {} of {}",
                            peeked.map(|p| p.0),
                            yielded.map(|y| y.0),
                            guard,
                            r.value()
                        ));
                    }
                });
            }
            if let Some(x) = got {
                out.push(x);
            }
        }
        return out;
    }
    Vec::new()
}

thread_local! {
    /// Set by `ref_children` when `ListIter::peek` and `next` disagree; taken by the checks after their walks.
    static PEEK_MISMATCH: std::cell::RefCell<Option<String>> = std::cell::RefCell::new(None);
}

fn take_peek_mismatch() -> Result<(), (String, String)> {
    match PEEK_MISMATCH.with(|m| m.borrow_mut().take()) {
        Some(msg) => Err(("accessor=list_iter which=peek-differs-from-next".into(), msg)),
        None => Ok(()),
    }
}

fn node_children(n: &Node) -> Vec<&Node> {
    let mut v: Vec<&Node> = n.children.iter().collect();
    if let Some(t) = &n.tail {
        v.push(t);
    }
    v
}

pub fn float_ok(a: f64, b: f64) -> bool {
    a.to_bits() == b.to_bits() || within_c05(a, b)
}

fn same_value(expected: &MV, got: &lexpr::Value) -> bool {
    mv_diff(&expected.normalize(), &MV::from_value(got), &float_ok).is_none()
}

struct Walk<'t> {
    text: &'t str,
    q: QOpt,
    src: &'static str,
    nodes: usize,
    shorthand: bool,
    dotted: bool,
}

impl<'t> Walk<'t> {
    fn check(&mut self, r: Ref<'_>, n: &Node, parent: Option<(usize, usize)>, prev_end: Option<usize>) -> Result<(), (String, String)> {
        self.nodes += 1;
        let (s, e) = span_of(r.span());
        let exp_s = line_col(self.text, n.start);
        let exp_e = line_col(self.text, n.end);
        let what = |which: &str, got: Pos, exp: Pos| -> (String, String) {
            let delta = if got.0 != exp.0 {
                format!("line{:+}", got.0 as i64 - exp.0 as i64)
            } else {
                format!("col{:+}", got.1 as i64 - exp.1 as i64)
            };
            (
                format!("src={} node={} which={} delta={}", self.src, n.token, which, delta),
                format!(
                    "{} of the {} datum {:?} reported as line {} column {}, expected line {} column {} (text {:?})",
                    which,
                    n.token,
                    clip(&self.text[n.start..n.end], 60),
                    got.0,
                    got.1,
                    exp.0,
                    exp.1,
                    clip(self.text, 200)
                ),
            )
        };
        if s != exp_s {
            return Err(what("start", s, exp_s));
        }
        if e != exp_e {
            return Err(what("end", e, exp_e));
        }
        // ---- the clauses of the statement, independent of the map
        let lines = 1 + self.text.bytes().filter(|b| *b == b'\n').count();
        if s.0 < 1 || e.0 > lines {
            return Err((format!("src={} node={} which=outside-input", self.src, n.token), "span outside the input".into()));
        }
        let so = offset_of(self.text.as_bytes(), s.0, s.1);
        let eo = offset_of(self.text.as_bytes(), e.0, e.1);
        if eo <= so {
            return Err((format!("src={} node={} which=empty", self.src, n.token), format!("empty or inverted span {:?}..{:?}", s, e)));
        }
        if let Some((ps, pe)) = parent {
            if so < ps || eo > pe {
                return Err((format!("src={} node={} which=containment", self.src, n.token), format!("span {}..{} not inside its parent {}..{}", so, eo, ps, pe)));
            }
        }
        if let Some(pe) = prev_end {
            if so < pe {
                return Err((format!("src={} node={} which=order", self.src, n.token), format!("span starts at {} before its preceding sibling ends at {}", so, pe)));
            }
        }
        if n.kind == NodeKind::QuoteHead {
            let sh = &self.text[so..eo];
            if !["'", "`", ",", ",@"].contains(&sh) {
                return Err((format!("src={} node=quote-shorthand which=head-text", self.src), format!("shorthand head span covers {:?}", sh)));
            }
        } else {
            let piece = &self.text[so..eo];
            match lexpr::from_str_custom(piece, self.q.to_lexpr()) {
                Ok(v) if v == *r.value() || same_value(&MV::from_value(r.value()), &v) => {}
                other => {
                    return Err((
                        format!("src={} node={} which=reparse", self.src, n.token),
                        format!("text {:?} covered by the span re-parses to {} but the sub-datum is {}", clip(piece, 80), short(&other), short(r.value())),
                    ))
                }
            }
        }
        // ---- children
        let rc = ref_children(&r);
        let nc = node_children(n);
        if rc.len() != nc.len() {
            return Err((
                format!("src={} node={} which=child-count", self.src, n.token),
                format!("datum exposes {} sub-datums, the layout has {}", rc.len(), nc.len()),
            ));
        }
        if n.kind == NodeKind::Quote {
            self.shorthand = true;
        }
        if n.tail.is_some() {
            self.dotted = true;
        }
        let mut prev = None;
        for (cr, cn) in rc.into_iter().zip(nc) {
            self.check(cr, cn, Some((so, eo)), prev)?;
            prev = Some(cn.end);
        }
        Ok(())
    }
}

fn flat_spans(r: Ref<'_>, out: &mut Vec<(Pos, Pos)>) {
    out.push(span_of(r.span()));
    for c in ref_children(&r) {
        flat_spans(c, out);
    }
}

pub fn check_case(c: &Case) -> CaseResult {
    let q = QOpt::from_index(c.q);
    let case = || json!({"case": c});
    let cfg = LayoutCfg { trivia: c.trivia, alt: c.alt, ff: true };
    let l = layout(&c.value, &q, cfg, &c.choices);
    let text = l.text.clone();
    let fail = |sig: String, msg: String| Failure::new(format!("C11 {}", sig), format!("{} [text {:?}, parser options #{}]", msg, clip(&text, 300), c.q), case());
    let r = catch(|| -> Result<Option<(bool, Vec<&'static str>)>, (String, String)> {
        let opts = q.to_lexpr();
        let sources: Vec<(&'static str, lexpr::parse::Result<lexpr::Datum>)> = vec![
            ("str", lexpr::datum::from_str_custom(&text, opts)),
            ("slice", lexpr::datum::from_slice_custom(text.as_bytes(), opts)),
            ("reader", lexpr::datum::from_reader_custom(Cursor::new(text.as_bytes()), opts)),
            ("bufreader", lexpr::datum::from_reader_custom(BufReader::with_capacity(3, Cursor::new(text.as_bytes())), opts)),
        ];
        // layout text must be read back as the value (else: not this property)
        for (_, r) in &sources {
            match r {
                Ok(d) if same_value(&c.value, d.value()) => {}
                _ => return Ok(None),
            }
        }
        let mut classes: Vec<&'static str> = Vec::new();
        let mut nontrivial = false;
        let mut reference: Option<Vec<(Pos, Pos)>> = None;
        for (src, r) in &sources {
            let d = r.as_ref().unwrap();
            let mut w = Walk { text: &text, q, src, nodes: 0, shorthand: false, dotted: false };
            let _ = take_peek_mismatch();
            w.check(d.as_ref(), &l.root, None, None)?;
            let mut flat = Vec::new();
            flat_spans(d.as_ref(), &mut flat);
            take_peek_mismatch()?;
            // owned copies carry the same spans: the whole datum cloned, and
            // every direct sub-datum turned into a datum of its own
            {
                let copy = d.clone();
                let mut cflat = Vec::new();
                flat_spans(copy.as_ref(), &mut cflat);
                if cflat != flat || copy != *d {
                    return Err((format!("src={} which=clone-differs", src), "a cloned datum reports other spans than the original (or is not equal to it)".into()));
                }
                for child in ref_children(&d.as_ref()) {
                    let mut want = Vec::new();
                    flat_spans(child, &mut want);
                    let owned = lexpr::Datum::from(child);
                    let mut got = Vec::new();
                    flat_spans(owned.as_ref(), &mut got);
                    if got != want {
                        return Err((format!("src={} which=owned-sub-datum-differs", src), format!("Datum::from(sub-datum) reports spans {:?}, the sub-datum itself {:?}", got, want)));
                    }
                }
            }
            match &reference {
                None => reference = Some(flat),
                Some(rf) if *rf != flat => {
                    return Err((format!("src={} which=differs-from-str", src), "spans differ between sources".into()));
                }
                _ => {}
            }
            let multi_line = text.trim_end().contains('\n');
            let non_ascii_before = text[..l.root.end].bytes().any(|b| b >= 0x80);
            nontrivial = w.nodes > 1 && (multi_line || non_ascii_before || w.shorthand || w.dotted);
            if w.shorthand {
                classes.push("shape:shorthand");
            }
            if w.dotted {
                classes.push("shape:dotted-tail");
            }
            if multi_line {
                classes.push("layout:multi-line");
            }
            if non_ascii_before {
                classes.push("layout:non-ascii");
            }
            if text.contains(';') {
                classes.push("layout:comment");
            }
            if text.contains('\r') {
                classes.push("layout:cr");
            }
            if text.contains('\x0c') {
                classes.push("layout:ff");
            }
            if w.nodes > 1 {
                classes.push("shape:sub-datums");
            }
        }
        classes.sort();
        classes.dedup();
        if q.chr == Syn::Elisp || q.string == Syn::Elisp {
            classes.push("dialect:elisp-syntax");
        }
        Ok(Some((nontrivial, classes)))
    });
    match r {
        Err(pm) => Err(fail(format!("panic={}", panic_sig(&pm)), format!("panicked on {:?}: {}", clip(&text, 200), pm))),
        Ok(Err((sig, msg))) => Err(fail(sig, msg)),
        Ok(Ok(None)) => Ok(Eval::new(false, 0).class("excluded:layout-not-read-back")),
        Ok(Ok(Some((nt, classes)))) => Ok(Eval::new(nt, digest_of(c)).classes(&classes).class("checked")),
    }
}

/// Values that a parser with options `q` reads back verbatim from a layout.
pub fn cfg_for_q(q: &QOpt, depth: u32, nodes: u32) -> ValueCfg {
    ValueCfg {
        ident: ident_rules_for_q(q),
        bytes: true,
        keywords: q.kw_octo || q.kw_prefix || q.kw_postfix,
        depth,
        nodes,
        branch: 5,
        str_max: 10,
    }
}

/// Quote forms are added on top of G_value so that shorthands occur often.
pub fn g_layout_value(q: QOpt, depth: u32, nodes: u32) -> BS<MV> {
    let cfg = cfg_for_q(&q, depth, nodes);
    let base = g_value(cfg);
    let quoted = (prop_oneof![Just("quote"), Just("quasiquote"), Just("unquote"), Just("unquote-splicing")], g_value(cfg))
        .prop_map(|(h, v)| MV::list(vec![MV::sym(h), v]));
    let with_quotes = (vec(prop_oneof![3 => base.clone(), 1 => quoted.clone()], 1..5), any::<bool>()).prop_map(|(xs, v)| if v { MV::Vec(xs) } else { MV::list(xs) });
    prop_oneof![4 => base, 2 => quoted, 2 => with_quotes].boxed()
}

pub fn g_case(depth: u32, nodes: u32) -> BS<Case> {
    (crate::gen_text::g_qopt_index(), prop_oneof![1 => Just(0u8), 2 => Just(1u8), 4 => Just(2u8)], prop_oneof![1 => Just(false), 3 => Just(true)])
        .prop_flat_map(move |(qi, trivia, alt)| {
            let q = QOpt::from_index(qi);
            (g_layout_value(q, depth, nodes), vec(any::<u32>(), 0..200)).prop_map(move |(value, choices)| Case { value, q: qi, choices, trivia, alt })
        })
        .boxed()
}

fn run(ctx: &mut Ctx) {
    let tier = ctx.tier;
    use rayon::prelude::*;
    let parent = &*ctx;
    let children: Vec<Ctx> = (0..16u32)
        .into_par_iter()
        .map(|w| {
            let mut c = parent.fork();
            c.run_prop(&format!("layouts/{}", w), tier.pick(1_500, 40_000), g_case(tier.pick(4, 6), tier.pick(30, 80)), check_case);
            // the clauses that need no layout model, on the inputs of the byte-level properties
            c.run_prop(
                &format!("raw/{}", w),
                tier.pick(1_500, 40_000),
                (crate::gen_text::g_input(200), crate::gen_text::g_qopt_index()).prop_map(|((input, _), q)| RawCase { input, q }),
                check_raw,
            );
            c
        })
        .collect();
    for c in children {
        ctx.absorb(c);
    }
    for c in ctx.sample_values("layouts", &g_case(3, 12), 6) {
        let l = layout(&c.value, &QOpt::from_index(c.q), LayoutCfg { trivia: c.trivia, alt: c.alt, ff: true }, &c.choices);
        ctx.add_sample("layouts", json!({"text": clip(&l.text, 160), "parser_index": c.q, "root_span": [l.root.start, l.root.end]}));
    }
    let excluded = ctx.stats.classes.get("excluded:layout-not-read-back").copied().unwrap_or(0);
    let checked = ctx.stats.classes.get("checked").copied().unwrap_or(0);
    ctx.exclude("layout text not read back as the generated value (belongs to C12/C13)", excluded);
    if excluded * 50 > checked + excluded {
        ctx.inconclusive.push(format!("{} of {} layouts were not read back as the generated value", excluded, checked + excluded));
    }
    ctx.required_classes = vec![
        "shape:shorthand", "shape:dotted-tail", "shape:sub-datums", "layout:multi-line", "layout:non-ascii",
        "layout:comment", "layout:cr", "layout:ff", "dialect:elisp-syntax", "checked",
    ];
}

fn replay(_sub: &str, case: &Json) -> Option<CaseResult> {
    if let Some(raw) = case.get("raw") {
        let c: RawCase = serde_json::from_value(raw.clone()).ok()?;
        return Some(check_raw(&c));
    }
    let c: Case = serde_json::from_value(case.get("case")?.clone()).ok()?;
    Some(check_case(&c))
}

// ------------------------------------------------------------------ model-free span check

#[derive(Clone, Debug, Serialize, Deserialize, Hash)]
pub struct RawCase {
    pub input: Vec<u8>,
    pub q: usize,
}

struct RawWalk<'t> {
    input: &'t [u8],
    q: QOpt,
    src: &'static str,
    nodes: usize,
}

impl<'t> RawWalk<'t> {
    fn check(&mut self, r: Ref<'_>, parent: Option<(usize, usize)>, prev_end: Option<usize>) -> Result<usize, (String, String)> {
        self.nodes += 1;
        let kind = MV::from_value(r.value()).kind();
        let (s, e) = span_of(r.span());
        let lines = 1 + self.input.iter().filter(|b| **b == b'\n').count();
        if s.0 < 1 || e.0 > lines || s.0 > e.0 {
            return Err((format!("raw src={} node={} which=outside-input", self.src, kind), format!("span {:?}..{:?} outside the {} lines of the input", s, e, lines)));
        }
        let so = offset_of(self.input, s.0, s.1);
        let eo = offset_of(self.input, e.0, e.1);
        if eo > self.input.len() || line_len(self.input, s.0) < s.1 || line_len(self.input, e.0) < e.1 {
            return Err((format!("raw src={} node={} which=outside-input", self.src, kind), format!("span {:?}..{:?} runs past the end of its line or of the input", s, e)));
        }
        if eo <= so {
            return Err((format!("raw src={} node={} which=empty", self.src, kind), format!("empty or inverted span {:?}..{:?}", s, e)));
        }
        if let Some((ps, pe)) = parent {
            if so < ps || eo > pe {
                return Err((format!("raw src={} node={} which=containment", self.src, kind), format!("span {}..{} not inside its parent {}..{}", so, eo, ps, pe)));
            }
        }
        if let Some(pe) = prev_end {
            if so < pe {
                return Err((format!("raw src={} node={} which=order", self.src, kind), format!("span starts at {} before its preceding sibling ends at {}", so, pe)));
            }
        }
        let piece = &self.input[so..eo];
        let children = ref_children(&r);
        // a quote shorthand: the list starts with the shorthand characters and
        // its head is the corresponding symbol
        let shorthand = match piece {
            [b',', b'@', ..] => Some((",@", "unquote-splicing")),
            [b'\'', ..] => Some(("'", "quote")),
            [b'`', ..] => Some(("`", "quasiquote")),
            [b',', ..] => Some((",", "unquote")),
            _ => None,
        };
        // the head of a quote shorthand (in any position: `(a . 'b)` is the
        // list (a quote b)) covers just the shorthand characters
        let is_shorthand_head = match (r.value().as_symbol(), piece) {
            (Some("quote"), b"'") | (Some("quasiquote"), b"`") | (Some("unquote"), b",") | (Some("unquote-splicing"), b",@") => true,
            _ => false,
        };
        if is_shorthand_head {
            return Ok(eo);
        }
        match lexpr::from_slice_custom(piece, self.q.to_lexpr()) {
            Ok(v) if MV::from_value(&v) == MV::from_value(r.value()) => {}
            other => {
                return Err((
                    format!("raw src={} node={} which=reparse", self.src, kind),
                    format!("text {:?} covered by the span re-parses to {} but the sub-datum is {}", bytes_lossy(piece), short(&other), short(r.value())),
                ))
            }
        }
        let mut prev = None;
        for (i, c) in children.into_iter().enumerate() {
            if i == 0 {
                if let Some((chars, name)) = shorthand {
                    if c.value().as_symbol() == Some(name) {
                        let (cs, ce) = span_of(c.span());
                        let (cso, ceo) = (offset_of(self.input, cs.0, cs.1), offset_of(self.input, ce.0, ce.1));
                        if cso != so || ceo != so + chars.len() {
                            return Err((
                                format!("raw src={} node=quote-shorthand which=head-text", self.src),
                                format!("the head of the shorthand {:?} spans bytes {}..{}, the shorthand characters are at {}..{}", bytes_lossy(piece), cso, ceo, so, so + chars.len()),
                            ));
                        }
                        self.nodes += 1;
                        prev = Some(ceo);
                        continue;
                    }
                }
            }
            prev = Some(self.check(c, Some((so, eo)), prev)?);
        }
        Ok(eo)
    }
}

fn line_len(input: &[u8], line: usize) -> usize {
    input.split(|b| *b == b'\n').nth(line - 1).map_or(0, |l| l.len())
}

/// The clauses of C11 that need no layout model, on any input: every datum of
/// the stream, from every source kind.
pub fn check_raw(c: &RawCase) -> CaseResult {
    let q = QOpt::from_index(c.q);
    let case = || json!({"raw": c});
    let fail = |sig: String, msg: String| Failure::new(format!("C11 {}", sig), format!("{} [input {:?}, parser options #{}]", msg, bytes_lossy(&c.input), c.q), case());
    let input = &c.input[..];
    let r = catch(|| -> Result<usize, (String, String)> {
        let opts = q.to_lexpr();
        let mut reference: Option<Vec<(Pos, Pos)>> = None;
        let mut nodes = 0usize;
        let mut slice_flat: Vec<(Pos, Pos)> = Vec::new();
        for src in ["str", "slice", "reader", "bufreader"] {
            let mut flat: Vec<(Pos, Pos)> = Vec::new();
            let mut w = RawWalk { input, q, src, nodes: 0 };
            macro_rules! walk {
                ($p:expr) => {{
                    let mut p = $p;
                    let mut prev_end: Option<usize> = None;
                    for _ in 0..input.len() + 2 {
                        match p.next_datum() {
                            Ok(Some(d)) => {
                                prev_end = Some(w.check(d.as_ref(), None, prev_end)?);
                                flat_spans(d.as_ref(), &mut flat);
                            }
                            // a caller may go on after a syntax error: the datums
                            // read afterwards have spans like any other
                            Err(_) => continue,
                            Ok(None) => break,
                        }
                    }
                }};
            }
            match src {
                "str" => match std::str::from_utf8(input) {
                    Ok(s) => walk!(lexpr::Parser::from_str_custom(s, opts)),
                    Err(_) => continue,
                },
                "slice" => walk!(lexpr::Parser::from_slice_custom(input, opts)),
                "reader" => walk!(lexpr::Parser::from_reader_custom(Cursor::new(input), opts)),
                _ => walk!(lexpr::Parser::from_reader_custom(BufReader::with_capacity(3, Cursor::new(input)), opts)),
            }
            take_peek_mismatch().map_err(|(s0, m)| (format!("raw src={} {}", src, s0), m))?;
            nodes = nodes.max(w.nodes);
            if src == "slice" {
                slice_flat = flat.clone();
            }
            match &reference {
                None => reference = Some(flat),
                Some(rf) if *rf != flat => return Err((format!("raw src={} which=differs-between-sources", src), "the spans of the datums read from the input (going on after errors) differ between source kinds".into())),
                _ => {}
            }
        }
        // a stream that fails once between two top-level datums (right after a
        // closing delimiter or quote, where no token is in progress) and is
        // simply read again reports the same spans
        {
            struct Once<'a> {
                data: &'a [u8],
                pos: usize,
                at: usize,
                fired: bool,
            }
            impl<'a> std::io::Read for Once<'a> {
                fn read(&mut self, out: &mut [u8]) -> std::io::Result<usize> {
                    if self.pos == self.at && !self.fired {
                        self.fired = true;
                        return Err(std::io::Error::new(std::io::ErrorKind::WouldBlock, "try again"));
                    }
                    match (self.data.get(self.pos), out.first_mut()) {
                        (Some(b), Some(o)) => {
                            *o = *b;
                            self.pos += 1;
                            Ok(1)
                        }
                        _ => Ok(0),
                    }
                }
            }
            // end offsets of the top-level datums, from the slice walk
            let mut tops: Vec<usize> = Vec::new();
            {
                let mut p = lexpr::Parser::from_slice_custom(input, opts);
                for _ in 0..input.len() + 2 {
                    match p.next_datum() {
                        Ok(Some(d)) => {
                            let (s0, e) = span_of(d.span());
                            let (so, eo) = (offset_of(input, s0.0, s0.1), offset_of(input, e.0, e.1));
                            // only datums that end with their own closing delimiter:
                            // the reader does not look past it to finish the token
                            let v = d.value();
                            let closed = eo > so
                                && eo <= input.len()
                                && match input[eo - 1] {
                                    b')' | b']' => v.is_cons() || v.is_vector() || v.is_bytes() || v.is_null(),
                                    b'"' => (v.is_string() || v.is_bytes()) && input[so] == b'"',
                                    _ => false,
                                };
                            if closed {
                                tops.push(eo);
                            }
                        }
                        _ => break,
                    }
                }
            }
            if let Some(&at) = tops.iter().find(|&&e| e > 0 && e < input.len()) {
                let mut p = lexpr::Parser::from_reader_custom(Once { data: input, pos: 0, at, fired: false }, opts);
                let mut flat: Vec<(Pos, Pos)> = Vec::new();
                let mut io_seen = 0;
                for _ in 0..input.len() + 4 {
                    match p.next_datum() {
                        Ok(Some(d)) => flat_spans(d.as_ref(), &mut flat),
                        Err(e) if e.is_io() && io_seen == 0 => io_seen += 1,
                        Err(e) if e.is_io() => break,
                        Err(_) => continue,
                        Ok(None) => break,
                    }
                }
                if flat != slice_flat {
                    let i = flat.iter().zip(slice_flat.iter()).position(|(a, b)| a != b).unwrap_or(flat.len().min(slice_flat.len()));
                    return Err((
                        "raw src=reader-after-transient-failure which=differs-from-slice".into(),
                        format!("after one WouldBlock at offset {} (between two datums) and a retry, span #{} is {:?}, from the slice {:?} ({} vs {} spans)", at, i, flat.get(i), slice_flat.get(i), flat.len(), slice_flat.len()),
                    ));
                }
            }
        }
        Ok(nodes)
    });
    match r {
        Err(pm) => Err(fail(format!("raw panic={}", panic_sig(&pm)), format!("panicked: {}", pm))),
        Ok(Err((sig, msg))) => Err(fail(sig, msg)),
        Ok(Ok(nodes)) => Ok(Eval::new(nodes > 1, mix(digest_of(&c.input), c.q as u64)).class("raw:checked").class(if nodes > 1 { "raw:sub-datums" } else { "raw:flat" })),
    }
}

/// libFuzzer entry: raw bytes (mode even) or a generated layout.
pub fn fuzz(f: &mut FuzzIn) -> Option<CaseResult> {
    if f.mode % 2 == 0 {
        let (q, input) = f.raw_q_input();
        if input.len() > 300 {
            return None;
        }
        return Some(check_raw(&RawCase { input: input.to_vec(), q }));
    }
    let c = f.draw(&g_case(4, 30))?;
    Some(check_case(&c))
}
