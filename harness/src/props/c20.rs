//! C20 — accessors, conversions and comparisons are coherent.

use std::borrow::Cow;

use lexpr::{Cons, Number, Value};
use proptest::prelude::*;
use serde_json::{json, Value as Json};

use crate::engine::*;
use crate::gen::*;
use crate::mv::*;
use crate::props::Prop;
use crate::util::*;

pub const PROP: Prop = Prop {
    id: "C20",
    level: "exploration",
    rule: "(round 9: the kind predicates and accessors on symbols, keywords and strings whose text looks like the notation of another kind) (round 8: strings that look like printed notations - #:foo, :a, a quote and a word, an opening parenthesis, a character literal, r#x ... - through every string, symbol and keyword constructor) (rounds 6-7: != as the negation of == for every value/primitive pairing; NaNs with sign and payload keep their bits) three generated families: (kinds) arbitrary values checked for exactly-one-kind, is_x <=> as_x.is_some() and as_name; (conv) every From conversion of integers of all eight widths (boundary biased), f32/f64 including NaN/inf/-0/subnormals, strings, chars, bools, byte slices, pairs, Cons and vectors, checked against the payload; (cmp) (value, primitive) pairs including cross-sign and cross-kind ones in all four operand forms, checked against the comparison of the primitive with as_i64/as_u64/as_f64/as_bool/as_str; non-trivial = a numeric case at a width boundary, a cross-sign or cross-kind comparison, or a kind check on a non-number; distinct by digest of the case",
    assumptions: &[
        "the pair (is_f64, as_f64) is exempt from the is_x <=> as_x rule because the statement itself requires as_f64 to convert integers",
        "a float compares with an integer payload through as_f64 (nearest double), as the statement assigns",
    ],
    run,
    replay,
    builds: &["ff"],
};

fn fail(sig: &str, msg: String, case: Json) -> Failure {
    Failure::new(format!("C20 {}", sig), msg, case)
}

// ------------------------------------------------------------------ kinds

pub fn check_kinds(mv: &MV) -> CaseResult {
    let case = || json!({"value": mv});
    let mut count = 0u32;
    let r = catch(|| {
        let mut problems: Vec<(String, String)> = Vec::new();
        mv.walk(&mut |m| {
            count += 1;
            let v = m.to_value();
            let kinds: [(&str, bool); 11] = [
                ("nil", v.is_nil()),
                ("null", v.is_null()),
                ("bool", v.is_boolean()),
                ("number", v.is_number()),
                ("char", v.is_char()),
                ("string", v.is_string()),
                ("symbol", v.is_symbol()),
                ("keyword", v.is_keyword()),
                ("bytes", v.is_bytes()),
                ("cons", v.is_cons()),
                ("vector", v.is_vector()),
            ];
            let expected = match m {
                MV::Nil => "nil",
                MV::Null => "null",
                MV::Bool(_) => "bool",
                MV::U(_) | MV::I(_) | MV::F(_) => "number",
                MV::Char(_) => "char",
                MV::Str(_) => "string",
                MV::Sym(_) => "symbol",
                MV::Kw(_) => "keyword",
                MV::Bytes(_) => "bytes",
                MV::List(..) => "cons",
                MV::Vec(_) => "vector",
            };
            let holding: Vec<&str> = kinds.iter().filter(|k| k.1).map(|k| k.0).collect();
            if holding != vec![expected] {
                problems.push((
                    format!("op=kind-predicates kind={}", expected),
                    format!("kind predicates holding for {}: {:?}, expected exactly [{}]", short(m), holding, expected),
                ));
            }
            let pairs: [(&str, bool, bool); 13] = [
                ("string", v.is_string(), v.as_str().is_some()),
                ("symbol", v.is_symbol(), v.as_symbol().is_some()),
                ("keyword", v.is_keyword(), v.as_keyword().is_some()),
                ("bytes", v.is_bytes(), v.as_bytes().is_some()),
                ("number", v.is_number(), v.as_number().is_some()),
                ("i64", v.is_i64(), v.as_i64().is_some()),
                ("u64", v.is_u64(), v.as_u64().is_some()),
                ("bool", v.is_boolean(), v.as_bool().is_some()),
                ("char", v.is_char(), v.as_char().is_some()),
                ("nil", v.is_nil(), v.as_nil().is_some()),
                ("null", v.is_null(), v.as_null().is_some()),
                ("cons", v.is_cons(), v.as_cons().is_some() && v.as_pair().is_some()),
                ("vector", v.is_vector(), v.as_slice().is_some()),
            ];
            for (name, is, as_) in pairs {
                if is != as_ {
                    problems.push((
                        format!("op=is-as-{} kind={}", name, expected),
                        format!("is_{}() = {} but as_{}().is_some() = {} on {}", name, is, name, as_, short(m)),
                    ));
                }
            }
            // is_f64 is exempt from the equivalence above (as_f64 converts
            // integers), but it still holds exactly for floats, and the
            // numeric accessors give None on everything that is not a number
            if v.is_f64() != matches!(m, MV::F(_)) {
                problems.push((format!("op=is_f64 kind={}", expected), format!("is_f64() = {} on {}", v.is_f64(), short(m))));
            }
            if !matches!(m, MV::U(_) | MV::I(_) | MV::F(_)) && (v.as_f64().is_some() || v.as_i64().is_some() || v.as_u64().is_some() || v.is_i64() || v.is_u64()) {
                problems.push((format!("op=numeric-accessor-on-non-number kind={}", expected), format!("a numeric accessor or predicate answers on {}", short(m))));
            }
            let name_expected = match m {
                MV::Str(s) | MV::Sym(s) | MV::Kw(s) => Some(s.as_str()),
                _ => None,
            };
            if v.as_name() != name_expected {
                problems.push((
                    format!("op=as_name kind={}", expected),
                    format!("as_name() = {:?} on {}", v.as_name(), short(m)),
                ));
            }
            // payload accessors
            let ok = match m {
                MV::Bool(b) => v.as_bool() == Some(*b),
                MV::Char(c) => v.as_char().map(|c| c as u32) == Some(*c),
                MV::Str(s) => v.as_str() == Some(s.as_str()),
                MV::Sym(s) => v.as_symbol() == Some(s.as_str()),
                MV::Kw(s) => v.as_keyword() == Some(s.as_str()),
                MV::Bytes(b) => v.as_bytes() == Some(b.as_slice()),
                MV::U(u) => {
                    v.as_u64() == Some(*u)
                        && v.as_i64() == i64::try_from(*u).ok()
                        && v.as_f64().map(f64::to_bits) == Some((*u as f64).to_bits())
                        && !v.is_f64()
                }
                MV::I(i) => {
                    v.as_i64() == Some(*i)
                        && v.as_u64().is_none()
                        && v.as_f64().map(f64::to_bits) == Some((*i as f64).to_bits())
                        && !v.is_f64()
                }
                MV::F(b) => {
                    v.as_f64().map(f64::to_bits) == Some(*b)
                        && v.as_i64().is_none()
                        && v.as_u64().is_none()
                        && v.is_f64()
                        && !v.is_i64()
                        && !v.is_u64()
                }
                MV::Vec(xs) => v.as_slice().map(|s| s.len()) == Some(xs.len()),
                _ => true,
            };
            if !ok {
                problems.push((
                    format!("op=payload kind={}", expected),
                    format!("payload accessors disagree with what was put in: {}", short(m)),
                ));
            }
        });
        problems
    });
    match r {
        Err(p) => Err(fail(&format!("op=kinds panic={}", panic_sig(&p)), format!("panicked: {}", p), case())),
        Ok(problems) => match problems.into_iter().next() {
            Some((sig, msg)) => Err(fail(&sig, msg, case())),
            None => {
                let nt = !matches!(mv, MV::U(_) | MV::I(_) | MV::F(_));
                Ok(Eval::new(nt, digest_of(mv)).class(match mv {
                    MV::List(..) | MV::Vec(_) => "kinds:composite",
                    MV::U(_) | MV::I(_) | MV::F(_) => "kinds:number",
                    _ => "kinds:atom",
                }))
            }
        },
    }
}

// ------------------------------------------------------------------ conversions

#[derive(Clone, Debug, serde::Serialize, serde::Deserialize, Hash)]
pub enum Prim {
    I8(i8),
    I16(i16),
    I32(i32),
    I64(i64),
    U8(u8),
    U16(u16),
    U32(u32),
    U64(u64),
    F32(u32),
    F64(u64),
    Bool(bool),
    Str(String),
}

fn int_expect(x: i128) -> (Option<i64>, Option<u64>, f64) {
    (
        i64::try_from(x).ok(),
        u64::try_from(x).ok(),
        x as f64,
    )
}

fn check_num_value(v: &Value, n: &Number, x: i128, what: &str) -> Result<(), (String, String)> {
    let (ei, eu, ef) = int_expect(x);
    let got = (v.as_i64(), v.as_u64(), v.as_f64().map(f64::to_bits));
    let want = (ei, eu, Some(ef.to_bits()));
    let flags = (v.is_i64(), v.is_u64(), v.is_f64(), v.is_number());
    let wflags = (ei.is_some(), eu.is_some(), false, true);
    let ngot = (n.as_i64(), n.as_u64(), n.as_f64().map(f64::to_bits), n.is_i64(), n.is_u64(), n.is_f64());
    let nwant = (ei, eu, Some(ef.to_bits()), ei.is_some(), eu.is_some(), false);
    if got != want || flags != wflags || ngot != nwant {
        return Err((
            format!("op=from-{} class={}", what, if x < 0 { "negative" } else if x > i64::MAX as i128 { "above-i64" } else { "non-negative" }),
            format!(
                "Value::from({}{}) gives as_i64/as_u64/as_f64 = {:?} flags {:?}, Number {:?}; expected {:?} {:?}",
                x, what, got, flags, ngot, want, wflags
            ),
        ));
    }
    Ok(())
}

pub fn check_conv(p: &Prim) -> CaseResult {
    let case = || json!({"prim": p});
    let r = catch(|| -> Result<bool, (String, String)> {
        macro_rules! int {
            ($x:expr, $t:ty, $name:expr) => {{
                let x: $t = $x;
                let v = Value::from(x);
                let n = Number::from(x);
                check_num_value(&v, &n, x as i128, $name)?;
                if Value::Number(n.clone()) != v || Value::from(n) != v {
                    return Err((format!("op=from-number-{}", $name), format!("Value::from(Number::from({})) differs from Value::from({})", x, x)));
                }
                Ok(x == <$t>::MIN || x == <$t>::MAX || x == 0 || (x as i128) == -1 || (x as i128) == (i64::MAX as i128) + 1)
            }};
        }
        match p {
            Prim::I8(x) => int!(*x, i8, "i8"),
            Prim::I16(x) => int!(*x, i16, "i16"),
            Prim::I32(x) => int!(*x, i32, "i32"),
            Prim::I64(x) => int!(*x, i64, "i64"),
            Prim::U8(x) => int!(*x, u8, "u8"),
            Prim::U16(x) => int!(*x, u16, "u16"),
            Prim::U32(x) => int!(*x, u32, "u32"),
            Prim::U64(x) => int!(*x, u64, "u64"),
            Prim::F32(b) => {
                let f = f32::from_bits(*b);
                let v = Value::from(f);
                let want = f64::from(f).to_bits();
                let ok = v.as_f64().map(f64::to_bits) == Some(want)
                    && v.as_i64().is_none()
                    && v.as_u64().is_none()
                    && v.is_f64()
                    && !v.is_i64()
                    && !v.is_u64()
                    && v.is_number()
                    && Number::from(f).as_f64().map(f64::to_bits) == Some(want);
                if !ok {
                    return Err(("op=from-f32".into(), format!("Value::from({:?}f32) does not hold that float: {:?}", f, v)));
                }
                Ok(!f.is_finite() || f == 0.0 || f.fract() == 0.0)
            }
            Prim::F64(b) => {
                let f = f64::from_bits(*b);
                let v = Value::from(f);
                let ok = v.as_f64().map(f64::to_bits) == Some(*b)
                    && v.as_i64().is_none()
                    && v.as_u64().is_none()
                    && v.is_f64()
                    && !v.is_i64()
                    && !v.is_u64()
                    && Number::from(f).as_f64().map(f64::to_bits) == Some(*b);
                if !ok {
                    return Err(("op=from-f64".into(), format!("Value::from({:?}) does not hold that float: {:?}", f, v)));
                }
                let nf = Number::from_f64(f);
                if nf.is_some() != f.is_finite() || nf.and_then(|n| n.as_f64()).map(f64::to_bits).unwrap_or(*b) != *b {
                    return Err(("op=number-from_f64".into(), format!("Number::from_f64({:?}) wrong", f)));
                }
                Ok(!f.is_finite() || f == 0.0 || f.fract() == 0.0)
            }
            Prim::Bool(b) => {
                let v = Value::from(*b);
                if v.as_bool() != Some(*b) {
                    return Err(("op=from-bool".into(), format!("Value::from({}) = {:?}", b, v)));
                }
                Ok(true)
            }
            Prim::Str(s) => {
                let forms: Vec<(&str, Value)> = vec![
                    ("&str", Value::from(s.as_str())),
                    ("String", Value::from(s.clone())),
                    ("Box<str>", Value::from(s.clone().into_boxed_str())),
                    ("Cow-borrowed", Value::from(Cow::Borrowed(s.as_str()))),
                    ("Cow-owned", Value::from(Cow::<str>::Owned(s.clone()))),
                    ("Value::string", Value::string(s.as_str())),
                ];
                for (name, v) in &forms {
                    if v.as_str() != Some(s.as_str()) || !v.is_string() {
                        return Err((format!("op=from-str form={}", name), format!("string {:?} via {} gave {:?}", s, name, v)));
                    }
                }
                let bytes = s.as_bytes();
                let bforms: Vec<(&str, Value)> = vec![
                    ("&[u8]", Value::from(bytes)),
                    ("Vec<u8>", Value::from(bytes.to_vec())),
                    ("Box<[u8]>", Value::from(bytes.to_vec().into_boxed_slice())),
                    ("Value::bytes", Value::bytes(bytes.to_vec())),
                ];
                for (name, v) in &bforms {
                    if v.as_bytes() != Some(bytes) || !v.is_bytes() {
                        return Err((format!("op=from-bytes form={}", name), format!("bytes via {} gave {:?}", name, v)));
                    }
                }
                for c in s.chars().take(4) {
                    if Value::from(c).as_char() != Some(c) {
                        return Err(("op=from-char".into(), format!("Value::from({:?}) wrong", c)));
                    }
                }
                if Value::symbol(s.as_str()).as_symbol() != Some(s.as_str())
                    || Value::keyword(s.as_str()).as_keyword() != Some(s.as_str())
                {
                    return Err(("op=symbol-keyword-ctor".into(), format!("symbol/keyword constructor lost {:?}", s)));
                }
                // pairs, Cons, vectors
                let a = Value::from(s.as_str());
                let b = Value::from(7u8);
                let pair = Value::from((s.as_str(), 7u8));
                match pair.as_pair() {
                    Some((x, y)) if *x == a && *y == b => {}
                    other => return Err(("op=from-pair".into(), format!("Value::from((s, 7)) = {:?}", other))),
                }
                let cons = Value::from(Cons::new(a.clone(), b.clone()));
                if cons != pair || Value::cons(a.clone(), b.clone()) != pair {
                    return Err(("op=from-cons".into(), "Value::from(Cons) differs from the pair".into()));
                }
                let vecv = Value::from(vec![a.clone(), b.clone()]);
                let boxv = Value::from(vec![a.clone(), b.clone()].into_boxed_slice());
                if vecv.as_slice() != Some(&[a.clone(), b.clone()][..]) || vecv != boxv || Value::vector(vec![a.clone(), b.clone()]) != vecv {
                    return Err(("op=from-vec".into(), "vector conversions disagree".into()));
                }
                Ok(true)
            }
        }
    });
    match r {
        Err(pm) => Err(fail(&format!("op=conv panic={}", panic_sig(&pm)), format!("panicked: {}", pm), case())),
        Ok(Err((sig, msg))) => Err(fail(&sig, msg, case())),
        Ok(Ok(nt)) => Ok(Eval::new(nt, digest_of(p)).class(match p {
            Prim::F32(_) | Prim::F64(_) => "conv:float",
            Prim::Bool(_) => "conv:bool",
            Prim::Str(_) => "conv:string-bytes-char-pair-vector",
            Prim::I8(_) | Prim::I16(_) | Prim::I32(_) | Prim::I64(_) => "conv:signed",
            _ => "conv:unsigned",
        })),
    }
}

// ------------------------------------------------------------------ comparisons

pub fn check_cmp(mv: &MV, p: &Prim) -> CaseResult {
    let case = || json!({"value": mv, "prim": p});
    let r = catch(|| -> Result<(bool, &'static str), (String, String)> {
        let v = mv.to_value();
        let mut vm = v.clone();
        macro_rules! four {
            ($p:expr, $expected:expr, $name:expr) => {{
                let p = $p;
                let e: bool = $expected;
                let got = [v == p, p == v, &v == p, &mut vm == p];
                if got != [e, e, e, e] {
                    return Err((
                        format!("op=cmp-{} value={}", $name, mv.kind()),
                        format!("{} compared with {:?} ({}) gives [v==p, p==v, &v==p, &mut v==p] = {:?}, expected all {} (from the accessor)", short(mv), p, $name, got, e),
                    ));
                }
                // `!=` is the negation of `==` in every operand form
                #[allow(clippy::nonminimal_bool)]
                let ne = [v != p, p != v, &v != p, &mut vm != p];
                if ne != [!e, !e, !e, !e] {
                    return Err((
                        format!("op=ne-{} value={}", $name, mv.kind()),
                        format!("{} != {:?} ({}) gives [v!=p, p!=v, &v!=p, &mut v!=p] = {:?}, expected all {}", short(mv), p, $name, ne, !e),
                    ));
                }
            }};
        }
        let cls: &'static str;
        let mut nt = !matches!(mv, MV::U(_) | MV::I(_) | MV::F(_));
        match p {
            Prim::I8(x) => { four!(*x, v.as_i64() == Some(i64::from(*x)), "i8"); cls = "cmp:signed"; nt |= matches!(mv, MV::U(_)) ; }
            Prim::I16(x) => { four!(*x, v.as_i64() == Some(i64::from(*x)), "i16"); cls = "cmp:signed"; nt |= matches!(mv, MV::U(_)); }
            Prim::I32(x) => { four!(*x, v.as_i64() == Some(i64::from(*x)), "i32"); cls = "cmp:signed"; nt |= matches!(mv, MV::U(_)); }
            Prim::I64(x) => { four!(*x, v.as_i64() == Some(*x), "i64"); cls = "cmp:signed"; nt |= matches!(mv, MV::U(_)); }
            Prim::U8(x) => { four!(*x, v.as_u64() == Some(u64::from(*x)), "u8"); cls = "cmp:unsigned"; nt |= matches!(mv, MV::I(_)); }
            Prim::U16(x) => { four!(*x, v.as_u64() == Some(u64::from(*x)), "u16"); cls = "cmp:unsigned"; nt |= matches!(mv, MV::I(_)); }
            Prim::U32(x) => { four!(*x, v.as_u64() == Some(u64::from(*x)), "u32"); cls = "cmp:unsigned"; nt |= matches!(mv, MV::I(_)); }
            Prim::U64(x) => { four!(*x, v.as_u64() == Some(*x), "u64"); cls = "cmp:unsigned"; nt |= matches!(mv, MV::I(_)); }
            Prim::F32(b) => {
                let f = f32::from_bits(*b);
                four!(f, v.as_f64().map_or(false, |g| g == f64::from(f)), "f32");
                cls = "cmp:float";
                nt |= !matches!(mv, MV::F(_));
            }
            Prim::F64(b) => {
                let f = f64::from_bits(*b);
                four!(f, v.as_f64().map_or(false, |g| g == f), "f64");
                cls = "cmp:float";
                nt |= !matches!(mv, MV::F(_));
            }
            Prim::Bool(b) => { four!(*b, v.as_bool() == Some(*b), "bool"); cls = "cmp:bool"; nt = true; }
            Prim::Str(s) => {
                let e = v.as_str() == Some(s.as_str());
                let sref: &str = s.as_str();
                let got = [
                    v == *sref, *sref == v, v == sref, sref == v, v == *s, *s == v,
                ];
                let ne = [v != *sref, *sref != v, v != sref, sref != v, v != *s, *s != v];
                if ne.iter().any(|g| *g == e) {
                    return Err((
                        format!("op=ne-str value={}", mv.kind()),
                        format!("{} != string {:?} gives {:?}, expected all {}", short(mv), s, ne, !e),
                    ));
                }
                if got.iter().any(|g| *g != e) {
                    return Err((
                        format!("op=cmp-str value={}", mv.kind()),
                        format!("{} compared with string {:?} gives {:?}, expected all {}", short(mv), s, got, e),
                    ));
                }
                // operands that alias the value's own text: every sub-slice of
                // it at character boundaries near both ends (equal only when it
                // is the whole text, or when the text happens to repeat)
                if let Some(own) = v.as_name() {
                    let bounds: Vec<usize> = own.char_indices().map(|(i, _)| i).chain(std::iter::once(own.len())).collect();
                    let near: Vec<usize> = bounds.iter().copied().take(3).chain(bounds.iter().copied().rev().take(3)).collect();
                    for &a in &near {
                        for &b in &near {
                            if a > b {
                                continue;
                            }
                            let piece: &str = &own[a..b];
                            let e = v.as_str() == Some(piece);
                            let got = [v == *piece, *piece == v, v == piece, piece == v];
                            if got.iter().any(|g| *g != e) {
                                return Err((
                                    format!("op=cmp-str-aliased value={}", mv.kind()),
                                    format!("{} compared with the slice [{}..{}] of its own text gives {:?}, expected all {}", short(mv), a, b, got, e),
                                ));
                            }
                        }
                    }
                }
                cls = "cmp:string";
                nt = true;
            }
        }
        Ok((nt, cls))
    });
    match r {
        Err(pm) => Err(fail(&format!("op=cmp panic={}", panic_sig(&pm)), format!("panicked: {}", pm), case())),
        Ok(Err((sig, msg))) => Err(fail(&sig, msg, case())),
        Ok(Ok((nt, cls))) => {
            let eq_class = {
                let v = mv.to_value();
                let equal = match p {
                    Prim::I8(x) => v == *x,
                    Prim::I16(x) => v == *x,
                    Prim::I32(x) => v == *x,
                    Prim::I64(x) => v == *x,
                    Prim::U8(x) => v == *x,
                    Prim::U16(x) => v == *x,
                    Prim::U32(x) => v == *x,
                    Prim::U64(x) => v == *x,
                    Prim::F32(b) => v == f32::from_bits(*b),
                    Prim::F64(b) => v == f64::from_bits(*b),
                    Prim::Bool(b) => v == *b,
                    Prim::Str(s) => v == *s,
                };
                if equal { "cmp:equal" } else { "cmp:unequal" }
            };
            Ok(Eval::new(nt, digest_of(&(mv, p))).class(cls).class(eq_class))
        }
    }
}

// ------------------------------------------------------------------ generators

fn g_prim() -> BS<Prim> {
    let f32s = prop_oneof![
        3 => any::<u32>(),
        1 => prop_oneof![Just(0xffc0_0000u32), Just(0x7fc0_0001u32), Just(0xffe0_beefu32), Just(0x7fff_ffffu32)],
        1 => prop_oneof![Just(f32::NAN.to_bits()), Just(f32::INFINITY.to_bits()), Just(f32::NEG_INFINITY.to_bits()), Just(0f32.to_bits()), Just((-0f32).to_bits()), Just(1f32.to_bits()), Just(f32::MAX.to_bits()), Just(f32::MIN_POSITIVE.to_bits()), Just(1u32), Just(16777216f32.to_bits()), Just(0.1f32.to_bits())],
        1 => (-300i32..300).prop_map(|i| (i as f32).to_bits()),
    ];
    let f64s = prop_oneof![
        3 => any::<u64>(),
        2 => g_float(),
        1 => prop_oneof![Just(0xfff8_0000_0000_0000u64), Just(0x7ff8_0000_0000_0001u64), Just(0x7ff0_0000_0000_0001u64), Just(0xfff4_0000_dead_beefu64), Just(0x7fff_ffff_ffff_ffffu64)],
        1 => prop_oneof![Just(f64::NAN.to_bits()), Just(f64::INFINITY.to_bits()), Just(f64::NEG_INFINITY.to_bits()), Just((-0f64).to_bits()), Just(9007199254740992f64.to_bits()), Just(18446744073709551616f64.to_bits()), Just((-9223372036854775808f64).to_bits())],
        2 => g_int().prop_map(|i| (i as f64).to_bits()),
    ];
    prop_oneof![
        2 => g_int().prop_map(|i| Prim::I8(i as i8)),
        2 => g_int().prop_map(|i| Prim::I16(i as i16)),
        2 => g_int().prop_map(|i| Prim::I32(i as i32)),
        3 => g_int().prop_map(|i| Prim::I64(i as i64)),
        2 => g_int().prop_map(|i| Prim::U8(i as u8)),
        2 => g_int().prop_map(|i| Prim::U16(i as u16)),
        2 => g_int().prop_map(|i| Prim::U32(i as u32)),
        3 => g_int().prop_map(|i| Prim::U64(i as u64)),
        2 => f32s.prop_map(Prim::F32),
        3 => f64s.prop_map(Prim::F64),
        1 => any::<bool>().prop_map(Prim::Bool),
        2 => g_string(16).prop_map(Prim::Str),
        // strings that look like the printed notation of something (a constructor that "helps" would change them)
        2 => (
            proptest::sample::select(vec!["#:", ":", "#", "'", "\"", "(", "#\\", "?", "|", "#%", "r#", " ", "", "#u8(", "#t", "nil", "-", "+", ".", "1", "0x", "#x", "\\", ";", ",", ",@", "`", "[", "\u{feff}"]),
            "[a-z]{0,4}",
            proptest::sample::select(vec![":", "\"", ")", "|", " ", "", "]", "\n", "#", ".", "\\", "\u{0}"]),
        )
            .prop_map(|(a, w, b)| Prim::Str(format!("{}{}{}", a, w, b))),
    ]
    .boxed()
}

/// A value related to the primitive (same payload in some representation) or
/// an arbitrary one.
fn g_cmp_pair() -> BS<(MV, Prim)> {
    let cfg = ValueCfg::default_dialect(2, 8);
    (g_prim(), g_atom(cfg), 0u8..8)
        .prop_map(|(p, other, how)| {
            let as_int: Option<i128> = match &p {
                Prim::I8(x) => Some(*x as i128),
                Prim::I16(x) => Some(*x as i128),
                Prim::I32(x) => Some(*x as i128),
                Prim::I64(x) => Some(*x as i128),
                Prim::U8(x) => Some(*x as i128),
                Prim::U16(x) => Some(*x as i128),
                Prim::U32(x) => Some(*x as i128),
                Prim::U64(x) => Some(*x as i128),
                Prim::F32(b) => {
                    let f = f32::from_bits(*b);
                    if f.fract() == 0.0 && f.abs() < 1e18 { Some(f as i128) } else { None }
                }
                Prim::F64(b) => {
                    let f = f64::from_bits(*b);
                    if f.fract() == 0.0 && f.abs() < 1.8e19 { Some(f as i128) } else { None }
                }
                _ => None,
            };
            let v = match (how, &p) {
                (0..=2, _) if as_int.is_some() => MV::int(as_int.unwrap()),
                (3, _) if as_int.is_some() => MV::f(as_int.unwrap() as f64),
                (4, _) if as_int.is_some() => MV::int((as_int.unwrap() + 1).min(u64::MAX as i128)),
                (0..=3, Prim::F32(b)) => MV::f(f64::from(f32::from_bits(*b))),
                (0..=3, Prim::F64(b)) => MV::F(*b),
                (0..=4, Prim::Bool(b)) => MV::Bool(*b),
                (0..=2, Prim::Str(s)) => MV::Str(s.clone()),
                (3, Prim::Str(s)) => MV::Sym(s.clone()),
                (4, Prim::Str(s)) => MV::Kw(s.clone()),
                _ => other,
            };
            (v, p)
        })
        .boxed()
}

fn run(ctx: &mut Ctx) {
    let tier = ctx.tier;
    let cfg = ValueCfg::default_dialect(tier.pick(5, 8), tier.pick(60, 200));
    ctx.run_prop("kinds", tier.pick(30_000, 1_000_000), g_value(cfg), check_kinds);
    // symbols, keywords and strings whose text looks like the notation of
    // another kind (`:foo` as a symbol, `#:k` as a string, `nil`, `#t`, `1`, ...)
    ctx.run_prop(
        "kinds-lookalike",
        tier.pick(10_000, 200_000),
        (
            proptest::sample::select(vec!["#:", ":", "#", "'", "\"", "(", "#\\", "?", "|", "#%", "", "#u8(", "#t", "#f", "nil", "t", "#nil", "-", "+", ".", "1", "1.5", "#x1", "()", "[", ";"]),
            "[a-z]{0,3}",
            proptest::sample::select(vec![":", "\"", ")", "|", "", "", "]", "#", "."]),
            0u8..3,
        )
            .prop_map(|(a, w, b, k)| {
                let t = format!("{}{}{}", a, w, b);
                match k {
                    0 => MV::Sym(t),
                    1 => MV::Kw(t),
                    _ => MV::Str(t),
                }
            }),
        check_kinds,
    );
    ctx.run_prop("conv", tier.pick(60_000, 3_000_000), g_prim(), check_conv);
    ctx.run_prop("cmp", tier.pick(120_000, 6_000_000), g_cmp_pair(), |(v, p)| check_cmp(v, p));
    // exhaustive small widths
    use rayon::prelude::*;
    ctx.par_sweep("conv-i8-u8-i16-u16", (0u32..=0xFFFF).into_par_iter(), |x| {
        check_conv(&Prim::I16(x as u16 as i16))?;
        check_conv(&Prim::U16(x as u16))?;
        check_conv(&Prim::I8(x as u8 as i8))?;
        check_conv(&Prim::U8(x as u8))
    });
    ctx.exhaustive.push("every i8, u8, i16 and u16 through the From conversions".into());
    for (v, p) in ctx.sample_values("cmp", &g_cmp_pair(), 6) {
        ctx.add_sample("cmp", json!({"value": short(&v), "prim": format!("{:?}", p)}));
    }
    ctx.required_classes = vec![
        "kinds:composite", "kinds:atom", "kinds:number", "conv:float", "conv:signed", "conv:unsigned",
        "conv:string-bytes-char-pair-vector", "cmp:signed", "cmp:unsigned", "cmp:float", "cmp:bool",
        "cmp:string", "cmp:equal", "cmp:unequal",
    ];
}

fn replay(sub: &str, case: &Json) -> Option<CaseResult> {
    let mv: Option<MV> = case.get("value").and_then(|v| serde_json::from_value(v.clone()).ok());
    let p: Option<Prim> = case.get("prim").and_then(|v| serde_json::from_value(v.clone()).ok());
    match (mv, p) {
        (Some(v), Some(p)) => Some(check_cmp(&v, &p)),
        (Some(v), None) => Some(check_kinds(&v)),
        (None, Some(p)) => Some(check_conv(&p)),
        _ => {
            let _ = sub;
            None
        }
    }
}

/// libFuzzer entry: kind predicates, conversions, comparisons.
pub fn fuzz(f: &mut FuzzIn) -> Option<CaseResult> {
    match f.mode % 3 {
        0 => Some(check_kinds(&f.mv(0, ValueCfg::default_dialect(3, 12), 3))),
        1 => {
            let p = f.draw(&g_prim())?;
            Some(check_conv(&p))
        }
        _ => {
            let (v, p) = f.draw(&g_cmp_pair())?;
            Some(check_cmp(&v, &p))
        }
    }
}
