//! C13 — whatever the parser accepts can be printed and read back unchanged
//! (parse -> print -> parse reaches a fixed point after one step).

use proptest::collection::vec;
use proptest::prelude::*;
use serde::{Deserialize, Serialize};
use serde_json::{json, Value as Json};

use crate::engine::*;
use crate::gen::*;
use crate::gen_text::*;
use crate::layout::*;
use crate::model::*;
use crate::mv::*;
use crate::opts::*;
use crate::props::c02::min_repr;
use crate::props::c11::{float_ok, g_layout_value};
use crate::props::Prop;
use crate::util::*;

pub const PROP: Prop = Prop {
    id: "C13",
    level: "exploration",
    rule: "(rounds 6-7: every accepted value is also printed through a writer that takes one byte per call) (plus a near-limit sub-run: nesting depth 118-130 through generated mixtures of every nesting construct with the innermost construct drawn separately, so that what is still accepted right at the recursion limit is printed and read back) texts beyond the printer's image: G_layout renderings with every alternative spelling (radix prefixes, signs, leading zeros, exponent forms, escapes, character names, bracket lists, dotted proper lists, quote shorthands, every enabled keyword spelling, Emacs string/char escapes, unibyte strings), lenient symbols with unusual constituents (\" # ' , | { } \\ and non-alphabetic non-ASCII after the first character), digit-initial symbols, Racket #% symbols, plus mutated/token/byte inputs filtered to the accepted ones (acceptance rate measured); option sets: default, Emacs Lisp and sampled mixed sets with printer_for(Q) (DESIGN.md A.3); oracle: v = parse(text), t = print(v), parse(t) must equal M_fold(P,Q,v) within the C05 tolerance, and when every float is exactly representable by the reader print(parse(t)) == t (one step later where the documented folding changes the value); non-trivial = the input text differs from t; distinct by digest of (text, options)",
    assumptions: &[
        "printer_for(Q) as tabulated in DESIGN.md A.3",
        "floats are 'exactly representable by the reader' always in the noff build, and in the ff build when the printed form has <=15 significant digits, fits 2^53 and |exponent|<=22 under every reading",
    ],
    run,
    replay,
    builds: &["ff", "noff"],
};

#[derive(Clone, Debug, Serialize, Deserialize, Hash)]
pub struct Case {
    pub text: Vec<u8>,
    pub q: usize,
}

fn floats_exact(mv: &MV) -> bool {
    if cfg!(not(feature = "ff")) {
        return true;
    }
    !mv.any(&|m| match m {
        MV::F(b) => {
            let t = format!("{:?}", f64::from_bits(*b));
            match parse_dec_lit(&t) {
                Some(l) => !(l.canonical().must_be_exact_any_build() && l.sig_digits() <= 15),
                None => true,
            }
        }
        _ => false,
    })
}

/// The value-level part: print, re-read, compare, fixed point.
pub fn eval_value(mv: &MV, p: &POpt, q: &QOpt) -> Result<String, (String, String)> {
    let v = mv.to_value();
    let t = match catch(|| lexpr::to_string_custom(&v, p.to_lexpr())) {
        Ok(Ok(t)) => t,
        Ok(Err(e)) => return Err(("stage=print-error".into(), e.to_string())),
        Err(pm) => return Err((format!("stage=print-panic msg={}", panic_sig(&pm)), pm)),
    };
    // the same value printed into a writer that takes one byte per call is the same text
    {
        struct OneByteSink(Vec<u8>);
        impl std::io::Write for OneByteSink {
            fn write(&mut self, buf: &[u8]) -> std::io::Result<usize> {
                match buf.first() {
                    Some(b) => {
                        self.0.push(*b);
                        Ok(1)
                    }
                    None => Ok(0),
                }
            }
            fn flush(&mut self) -> std::io::Result<()> {
                Ok(())
            }
        }
        let mut sink = OneByteSink(Vec::new());
        match catch(|| lexpr::to_writer_custom(&mut sink, &v, p.to_lexpr())) {
            Ok(Ok(())) => {}
            Ok(Err(e)) => return Err(("stage=print-error writer=one-byte".into(), e.to_string())),
            Err(pm) => return Err((format!("stage=print-panic writer=one-byte msg={}", panic_sig(&pm)), pm)),
        }
        if sink.0 != t.as_bytes() {
            return Err((
                "stage=print writer=one-byte text-differs".into(),
                format!("the accepted value prints as {:?} into a string and as {:?} into a writer that takes one byte per call", clip(&t, 200), clip(&bytes_lossy(&sink.0), 200)),
            ));
        }
    }
    let v2 = match catch(|| lexpr::from_str_custom(&t, q.to_lexpr())) {
        Err(pm) => return Err((format!("stage=reparse-panic msg={}", panic_sig(&pm)), format!("re-reading {:?} panicked: {}", clip(&t, 200), pm))),
        Ok(Err(e)) => {
            return Err((
                format!("stage=reparse-error err={}", err_text(&e)),
                format!("the accepted value prints as {:?}, which the same parser rejects: {}", clip(&t, 200), e),
            ))
        }
        Ok(Ok(v2)) => v2,
    };
    let expected = fold(p, q, mv);
    let got = MV::from_value(&v2);
    if let Some((kind, d)) = mv_diff(&expected, &got, &float_ok) {
        return Err((
            format!("stage=value-changed kind={}", kind),
            format!("the accepted value prints as {:?}, which reads back as something else: {}", clip(&t, 200), d),
        ));
    }
    if floats_exact(mv) {
        let t2 = lexpr::to_string_custom(&v2, p.to_lexpr()).unwrap_or_default();
        if fold_is_identity(p, q, mv) {
            if t2 != t {
                return Err((
                    "stage=text-not-fixed-point".into(),
                    format!("print(parse(t)) differs from t: {:?} then {:?}", clip(&t, 200), clip(&t2, 200)),
                ));
            }
        } else {
            // the documented folding changed the value once; the fixed point is one step later
            match lexpr::from_str_custom(&t2, q.to_lexpr()) {
                Ok(v3) => {
                    let t3 = lexpr::to_string_custom(&v3, p.to_lexpr()).unwrap_or_default();
                    if t3 != t2 {
                        return Err((
                            "stage=text-not-fixed-point-after-folding".into(),
                            format!("{:?} -> {:?} -> {:?}", clip(&t, 120), clip(&t2, 120), clip(&t3, 120)),
                        ));
                    }
                }
                Err(e) => return Err((format!("stage=reparse-error-after-folding err={}", err_text(&e)), format!("{:?}: {}", clip(&t2, 200), e))),
            }
        }
    }
    Ok(t)
}

fn dialect_class(q: &QOpt) -> &'static str {
    if *q == QOpt::default_set() {
        "q:default"
    } else if *q == QOpt::elisp() {
        "q:elisp"
    } else {
        "q:mixed"
    }
}

pub fn check_case(c: &Case, label: &str) -> CaseResult {
    let q = QOpt::from_index(c.q);
    let p = printer_for(&q);
    let case = || json!({"case": c, "label": label});
    let parsed = match catch(|| lexpr::from_slice_custom(&c.text, q.to_lexpr())) {
        Err(pm) => {
            return Err(Failure::new(
                format!("C13 stage=parse-panic msg={}", panic_sig(&pm)),
                format!("parsing {:?} panicked: {}", bytes_lossy(&c.text), pm),
                case(),
            ))
        }
        Ok(Err(_)) => return Ok(Eval::new(false, 0).class("input:rejected")),
        Ok(Ok(v)) => v,
    };
    let mv = MV::from_value(&parsed);
    // a keyword can only be printed if some keyword syntax is enabled
    if !(q.kw_octo || q.kw_prefix || q.kw_postfix) && mv.any(&|m| matches!(m, MV::Kw(_))) {
        return Ok(Eval::new(false, 0).class("input:rejected"));
    }
    match eval_value(&mv, &p, &q) {
        Ok(t) => {
            let nt = t.as_bytes() != &c.text[..];
            let mut ev = Eval::new(nt, digest_of(c)).class("input:accepted").class(dialect_class(&q));
            ev = ev.class(match label {
                "layout" => "from:layout",
                "lenient-symbols" => "from:lenient-symbols",
                "digit-symbols" => "from:digit-symbols",
                "racket" => "from:racket",
                "near-limit-nesting" => "from:near-limit-nesting",
                "numeric-literal" => "from:numeric-literal",
                _ => "from:mutated-or-random",
            });
            if !fold_is_identity(&p, &q, &mv) {
                ev = ev.class("fold:non-identity");
            }
            if mv.any(&|m| matches!(m, MV::F(_))) {
                ev = ev.class(if floats_exact(&mv) { "floats:exact" } else { "floats:tolerance" });
            }
            Ok(ev)
        }
        Err((sig, msg)) => {
            let min = minimise(&mv, &|m| matches!(eval_value(m, &p, &q), Err((s, _)) if s == sig));
            let min_text = lexpr::to_string_custom(&min.to_value(), p.to_lexpr()).unwrap_or_default();
            Err(Failure::new(
                format!("C13 {} min={} {}", sig, min_repr(&min, &min_text), dialect_class(&q)),
                format!(
                    "accepted input {:?}: {} (parser options #{}, printer {:?}; smallest value still failing prints as {:?})",
                    bytes_lossy(&c.text),
                    msg,
                    c.q,
                    p,
                    clip(&min_text, 80)
                ),
                case(),
            ))
        }
    }
}

// ------------------------------------------------------------------ generators

fn g_layout_text() -> BS<(Case, &'static str)> {
    g_qopt_index()
        .prop_flat_map(|qi| {
            let q = QOpt::from_index(qi);
            (g_layout_value(q, 4, 30), vec(any::<u32>(), 0..200)).prop_map(move |(v, ch)| {
                let l = layout(&v, &q, LayoutCfg::full(), &ch);
                (Case { text: l.text.into_bytes(), q: qi }, "layout")
            })
        })
        .boxed()
}

fn g_lenient_symbols() -> BS<(Case, &'static str)> {
    let first = prop_oneof![4 => "[a-zA-Z]", 2 => "[!$%&*/<=>^_~.]", 1 => unicode_alpha().prop_map(|c| c.to_string())];
    let rest = vec(
        prop_oneof![
            4 => "[a-z0-9]",
            4 => prop_oneof![Just("\""), Just("#"), Just("'"), Just(","), Just("|"), Just("{"), Just("}"), Just("\\"), Just("`"), Just("@"), Just("?"), Just(":"), Just("."), Just("+"), Just("-")].prop_map(|s| s.to_string()),
            2 => prop_oneof![Just('→'), Just('€'), Just('\u{1F600}'), Just('\u{a0}'), Just('\u{2028}'), Just('\u{85}'), Just('٣'), Just('\u{301}')].prop_map(|c| c.to_string()),
            // control characters that are not whitespace are symbol constituents too
            1 => prop_oneof![Just('\u{0}'), Just('\u{1}'), Just('\u{8}'), Just('\u{b}'), Just('\u{1b}'), Just('\u{7f}')].prop_map(|c| c.to_string()),
        ],
        0..6,
    )
    .prop_map(|v| v.concat());
    let sym = (first, rest).prop_map(|(a, b)| format!("{}{}", a, b));
    (vec(sym, 1..4), g_qopt_index(), 0u8..7)
        .prop_map(|(syms, q, wrap)| {
            let body = syms.join(" ");
            let text = match wrap {
                0 => body,
                1 => format!("({})", body),
                2 => format!("#({})", body),
                3 => format!("({} . {})", body, syms[0]),
                4 => format!("'{}", syms[0]),
                5 => format!("(a `{} ,{})", syms[0], syms[syms.len() - 1]),
                _ => format!("#('{})", syms[0]),
            };
            (Case { text: text.into_bytes(), q }, "lenient-symbols")
        })
        .boxed()
}

fn g_digit_symbols() -> BS<(Case, &'static str)> {
    let tok = prop_oneof![
        Just("1+"), Just("1-"), Just("1/2"), Just("1.5.6"), Just("0x10"), Just("12ab"), Just("1e"), Just("1e+"), Just("007x"), Just("9"),
        Just("1e400"), Just("1.5"), Just("3rd"), Just("2:"), Just("1a:"), Just("0.5e"), Just("1_000"), Just("10%"),
    ]
    .prop_map(|s| s.to_string());
    (vec(tok, 1..4), 0usize..N_QOPT, 0u8..3)
        .prop_map(|(toks, qi, wrap)| {
            let mut q = QOpt::from_index(qi);
            q.digits = true;
            let body = toks.join(" ");
            let text = match wrap {
                0 => body,
                1 => format!("({})", body),
                _ => format!("#({})", body),
            };
            (Case { text: text.into_bytes(), q: q.index() }, "digit-symbols")
        })
        .boxed()
}

fn g_racket() -> BS<(Case, &'static str)> {
    let tok = prop_oneof![Just("#%a"), Just("#%app"), Just("#%"), Just("#%top-interaction"), Just("#%1"), Just("#%a:"), Just("#%λ")].prop_map(|s| s.to_string());
    (vec(tok, 1..3), 0usize..N_QOPT, any::<bool>())
        .prop_map(|(toks, qi, wrap)| {
            let mut q = QOpt::from_index(qi);
            q.racket = true;
            let body = toks.join(" ");
            let text = if wrap { format!("({} x)", body) } else { body };
            (Case { text: text.into_bytes(), q: q.index() }, "racket")
        })
        .boxed()
}

/// Texts nested right around the recursion limit through mixtures of every
/// nesting construct: what the parser still accepts there must still be
/// readable once printed (the printer spells shorthands out as lists).
fn g_near_limit() -> BS<(Case, &'static str)> {
    // the innermost datum: atoms whose printed form may be spelled with other
    // tokens than the input (nil / t / #nil under the various nil and t
    // treatments print as (), #t, nil ...), empty containers, and plain atoms
    let inner = proptest::sample::select(vec!["x", "nil", "t", "()", "#()", "#nil", "#t", "\"s\"", "#u8(1)", "#u8()", "1.5", ":k", "(a)", "'q"]);
    (vec(0u8..9, 118..=130), g_qopt_index(), any::<bool>(), 0u8..9, inner)
        .prop_map(|(kinds, q, uniform, last, inner)| {
            let mut kinds = if uniform { vec![kinds[0]; kinds.len()] } else { kinds };
            // the innermost construct decides which rule draws the line
            if let Some(k) = kinds.last_mut() {
                *k = last;
            }
            let (text, _) = crate::props::c03::nest_text(&crate::props::c03::Nest { kinds, q });
            let text = text.replacen('x', inner, 1);
            (Case { text: text.into_bytes(), q }, "near-limit-nesting")
        })
        .boxed()
}

pub fn g_case(max_len: usize) -> BS<(Case, &'static str)> {
    prop_oneof![
        5 => g_layout_text(),
        2 => g_lenient_symbols(),
        1 => g_digit_symbols(),
        1 => g_racket(),
        4 => (g_input(max_len), g_qopt_index()).prop_map(|((text, l), q)| (Case { text, q }, l)),
        // numeric literals in every spelling of C05's grammars (radix prefixes,
        // long digit strings, exponents): accepted ones are numbers, and the
        // printer's normalised spelling has to denote the same number
        2 => (crate::props::c05::g_lit(), g_qopt_index(), 0u8..3).prop_map(|((l, _), q, wrap)| {
            let t = l.text();
            let text = match wrap {
                0 => t,
                1 => format!("({} x)", t),
                _ => format!("#({})", t),
            };
            (Case { text: text.into_bytes(), q }, "numeric-literal")
        }),
    ]
    .boxed()
}

fn run(ctx: &mut Ctx) {
    let tier = ctx.tier;
    use rayon::prelude::*;
    let parent = &*ctx;
    let max_len = tier.pick(200, 1024);
    let children: Vec<Ctx> = (0..16u32)
        .into_par_iter()
        .map(|w| {
            let mut c = parent.fork();
            c.run_prop(&format!("texts/{}", w), tier.pick(6_000, 200_000), g_case(max_len), |(c, l)| check_case(c, l));
            c.run_prop(&format!("near-limit/{}", w), tier.pick(300, 6_000), g_near_limit(), |(c, l)| check_case(c, l));
            c
        })
        .collect();
    for c in children {
        ctx.absorb(c);
    }
    for (c, l) in ctx.sample_values("texts", &g_case(80), 8) {
        ctx.add_sample("texts", json!({"text": bytes_lossy(&c.text), "from": l, "parser_index": c.q}));
    }
    let acc = ctx.stats.classes.get("input:accepted").copied().unwrap_or(0);
    let rej = ctx.stats.classes.get("input:rejected").copied().unwrap_or(0);
    ctx.notes.push(format!("acceptance rate of generated texts in this build: {} accepted, {} rejected", acc, rej));
    if acc * 5 < acc + rej {
        ctx.inconclusive.push(format!("acceptance rate too low: {} of {}", acc, acc + rej));
    }
    ctx.required_classes = vec![
        "input:accepted", "q:default", "q:elisp", "q:mixed", "from:layout", "from:lenient-symbols", "from:digit-symbols",
        "from:racket", "from:mutated-or-random", "from:near-limit-nesting", "fold:non-identity", "floats:exact",
    ];
}

fn replay(_sub: &str, case: &Json) -> Option<CaseResult> {
    let c: Case = serde_json::from_value(case.get("case")?.clone()).ok()?;
    Some(check_case(&c, case.get("label").and_then(|l| l.as_str()).unwrap_or("x")))
}

/// libFuzzer entry: raw text (mode even) or a generated one.
pub fn fuzz(f: &mut FuzzIn) -> Option<CaseResult> {
    if f.mode % 2 == 0 {
        let (q, input) = f.raw_q_input();
        if input.len() > 300 {
            return None;
        }
        return Some(check_case(&Case { text: input.to_vec(), q }, "anybytes"));
    }
    let (c, l) = f.draw(&g_case(200))?;
    Some(check_case(&c, l))
}
