//! C14 — serialization produces the documented shapes; alternative encodings
//! (list <-> vector) are accepted, improper and wrong-kind ones rejected.

use serde_json::{json, Value as Json};

use crate::engine::*;
use crate::gen::*;
use crate::mv::*;
use crate::props::c04::{decode_case, to_mv};
use crate::props::Prop;
use crate::serde_fam::*;
use crate::util::*;

pub const PROP: Prop = Prop {
    id: "C14",
    level: "exploration",
    rule: "(round 9: ten kinds of odd map key - None, (), empty sequence, unit struct, PhantomData, Some, tuple, nested option - through serialize_entry and through serialize_key/serialize_value) (round 8: 40 odd variant and field names - raw-identifier look-alikes, other alphabets, empty, delimiters, notations - in eight positions) (rounds 6-7, serialization side: maps whose distinct keys serialize alike, hand-written impls with repeated keys; every collector kind - seq, tuple, tuple struct, tuple variant, map, struct, struct variant - with 0-4 written items, announced length right or off as after skipped fields, and derived variants that lose fields to skip; every integer type at every power of two and ten) every value drawn for every type of the C04 family is serialized and compared with a shape function written from the crate documentation (an independent serde::Serializer builds a tagged tree of Serde categories; the shape function maps it to the documented S-expression); for the acceptance clause every sequence/tuple node of that tree is in turn flipped list<->vector (must deserialize to the original value), given an improper tail (each non-null atom kind; must fail with a data error) and replaced by a value of a wrong kind (string, number, char, bool, keyword, symbol, nil, bytes, float; must fail with a data error); plus, serialization side only, maps whose distinct keys serialize alike (a key struct with a skipped field, an untagged enum key) and hand-written Serialize impls that emit repeated keys through serialize_entry and through serialize_key/serialize_value: one cell per entry, in order; non-trivial = at least one sequence/tuple/map/variant node below the root; distinct by digest of (type, value)",
    assumptions: &[
        "the empty list is the empty proper list, so it is not used as a 'wrong kind'",
        "tuple variants are lists headed by the variant name; only Seq and Tuple/TupleStruct nodes are flipped",
    ],
    run,
    replay,
    builds: &["ff"],
};

fn wrong_kinds() -> Vec<MV> {
    vec![
        MV::Str("s".into()),
        MV::U(5),
        MV::I(-5),
        MV::f(1.5),
        MV::Char('c' as u32),
        MV::Bool(true),
        MV::Kw("k".into()),
        MV::Sym("sym".into()),
        MV::Nil,
        MV::Bytes(vec![1, 2]),
        // payloads an error message might abbreviate or convert
        MV::Str(format!("{}é{}", "a".repeat(63), "b".repeat(40))),
        MV::Str(format!("{}\u{1F600}", "a".repeat(126))),
        MV::Sym(format!("{}\u{4e2d}z", "s".repeat(62))),
        MV::U(u64::MAX),
        MV::I(i64::MIN),
        MV::f(-2.5e300),
        MV::f(f64::NAN),
        MV::f(f64::INFINITY),
        MV::Char(0x10FFFF),
        MV::Bytes((0..=255u8).collect()),
    ]
}

fn data_error(e: &serde_lexpr::Error) -> bool {
    e.classify() == serde_lexpr::error::Category::Data
}

pub fn check_shape<T: FamType>(name: &'static str, x: &T) -> CaseResult {
    let case = || {
        let js = serde_json::to_value(x).unwrap_or(Json::Null);
        json!({"type": name, "x": js, "lexpr": to_mv(x).ok()})
    };
    let fail = |sig: String, msg: String| Failure::new(format!("C14 type={} {}", name, sig), msg, case());
    let doc = doc_of(x);
    let expected = Shaper::documented().shape(&doc);
    let got = match to_mv(x) {
        Ok(m) => m,
        Err(e) => return Err(fail("stage=to_value error".into(), e)),
    };
    if got != expected {
        let d = crate::model::mv_diff(&expected, &got, &crate::model::exact);
        return Err(fail(
            format!("stage=shape kind={}", d.as_ref().map_or("?".to_string(), |d| d.0.clone())),
            format!("{:?} serializes to {} but the documented shape is {}", x, short(&got), short(&expected)),
        ));
    }
    // acceptance clause
    let n = seq_nodes(&doc);
    let mut alts = 0u32;
    for target in 0..n {
        // flip
        let mut s = Shaper { target: Some(target), alt: Alt::Flip, counter: 0, applied: false };
        let v = s.shape(&doc);
        if s.applied {
            alts += 1;
            match catch(|| serde_lexpr::from_value::<T>(&v.to_value())) {
                Err(pm) => return Err(fail(format!("stage=flip panic={}", panic_sig(&pm)), pm)),
                Ok(Ok(y)) if y == *x => {}
                Ok(Ok(y)) => return Err(fail("stage=flip changed".into(), format!("alternative encoding {} of {:?} deserializes to {:?}", short(&v), x, y))),
                Ok(Err(e)) => {
                    let empty = matches!(v, MV::Null) || v.any(&|m| matches!(m, MV::Null));
                    return Err(fail(
                        format!("stage=flip rejected{}", if empty { " empty" } else { "" }),
                        format!("alternative encoding {} (node {} flipped list<->vector) of {:?} is rejected: {}", short(&v), target, x, e),
                    ));
                }
            }
        }
        for atom in wrong_kinds() {
            let mut s = Shaper { target: Some(target), alt: Alt::Improper(atom.clone()), counter: 0, applied: false };
            let v = s.shape(&doc);
            if s.applied {
                alts += 1;
                match catch(|| serde_lexpr::from_value::<T>(&v.to_value())) {
                    Err(pm) => return Err(fail(format!("stage=improper panic={}", panic_sig(&pm)), pm)),
                    Ok(Ok(y)) => return Err(fail(format!("stage=improper accepted tail={}", atom.kind()), format!("improper encoding {} is accepted as {:?}", short(&v), y))),
                    Ok(Err(e)) if !data_error(&e) => return Err(fail("stage=improper wrong-category".into(), format!("improper encoding {} fails with a non-data error: {}", short(&v), e))),
                    Ok(Err(_)) => {}
                }
            }
            let mut s = Shaper { target: Some(target), alt: Alt::Wrong(atom.clone()), counter: 0, applied: false };
            let v = s.shape(&doc);
            if s.applied {
                alts += 1;
                match catch(|| serde_lexpr::from_value::<T>(&v.to_value())) {
                    Err(pm) => return Err(fail(format!("stage=wrong-kind panic={}", panic_sig(&pm)), pm)),
                    Ok(Ok(y)) => return Err(fail(format!("stage=wrong-kind accepted kind={}", atom.kind()), format!("encoding {} with a {} where a sequence/tuple belongs is accepted as {:?}", short(&v), atom.kind(), y))),
                    Ok(Err(e)) if !data_error(&e) => return Err(fail("stage=wrong-kind wrong-category".into(), format!("{} fails with a non-data error: {}", short(&v), e))),
                    Ok(Err(_)) => {}
                }
            }
        }
    }
    let nt = has_nested_composite(&doc) || n > 0;
    let mut ev = Eval::new(nt, mix(digest_of(name), digest_of(&short(&got)))).class(name);
    if alts > 0 {
        ev = ev.class("alt-encodings:checked");
    }
    Ok(ev)
}

// ---- maps whose keys serialize alike (serialization side only: such keys do not round-trip)

#[derive(serde::Serialize, Debug, Clone, PartialEq, Eq, PartialOrd, Ord)]
struct Slot {
    name: String,
    #[serde(skip)]
    generation: u32,
}

#[derive(serde::Serialize, Debug, Clone, PartialEq, Eq, PartialOrd, Ord)]
#[serde(untagged)]
enum Id {
    Short(u8),
    Long(u64),
    Name(String),
}

/// A list of entries written as a Serde map, as it is (repeated keys included).
#[derive(Debug, Clone)]
struct Entries(Vec<(u8, i16)>);
impl serde::Serialize for Entries {
    fn serialize<S: serde::Serializer>(&self, ser: S) -> Result<S::Ok, S::Error> {
        use serde::ser::SerializeMap;
        let mut m = ser.serialize_map(Some(self.0.len()))?;
        for (k, v) in &self.0 {
            m.serialize_entry(k, v)?;
        }
        m.end()
    }
}
/// The same through serialize_key / serialize_value.
#[derive(Debug, Clone)]
struct EntriesKv(Vec<(u8, i16)>);
impl serde::Serialize for EntriesKv {
    fn serialize<S: serde::Serializer>(&self, ser: S) -> Result<S::Ok, S::Error> {
        use serde::ser::SerializeMap;
        let mut m = ser.serialize_map(None)?;
        for (k, v) in &self.0 {
            m.serialize_key(k)?;
            m.serialize_value(v)?;
        }
        m.end()
    }
}

/// One collector of the Serde data model with `len` items, written by hand
/// (what a derive produces once some fields are skipped).
#[derive(Debug, Clone)]
struct Arity {
    kind: u8,
    len: usize,
    /// what `len` the collector is told up front: true = the real one, false = none (seq, map) or one more (skipped field)
    honest: bool,
}
const FIELD_NAMES: [&str; 4] = ["a", "b", "c", "d"];
impl serde::Serialize for Arity {
    fn serialize<S: serde::Serializer>(&self, ser: S) -> Result<S::Ok, S::Error> {
        use serde::ser::{SerializeMap, SerializeSeq, SerializeStruct, SerializeStructVariant, SerializeTuple, SerializeTupleStruct, SerializeTupleVariant};
        let n = self.len;
        match self.kind {
            0 => {
                let mut c = ser.serialize_seq(if self.honest { Some(n) } else { None })?;
                for i in 0..n {
                    c.serialize_element(&(i as u8))?;
                }
                c.end()
            }
            1 => {
                let mut c = ser.serialize_tuple(n)?;
                for i in 0..n {
                    c.serialize_element(&(i as u8))?;
                }
                c.end()
            }
            2 => {
                let mut c = ser.serialize_tuple_struct("T", n)?;
                for i in 0..n {
                    c.serialize_field(&(i as u8))?;
                }
                c.end()
            }
            3 => {
                let mut c = ser.serialize_tuple_variant("E", 1, "tv", n)?;
                for i in 0..n {
                    c.serialize_field(&(i as u8))?;
                }
                c.end()
            }
            4 => {
                let mut c = ser.serialize_map(if self.honest { Some(n) } else { None })?;
                for i in 0..n {
                    c.serialize_entry(FIELD_NAMES[i % 4], &(i as u8))?;
                }
                c.end()
            }
            5 => {
                let mut c = ser.serialize_struct("S", if self.honest { n } else { n + 1 })?;
                for i in 0..n {
                    c.serialize_field(FIELD_NAMES[i % 4], &(i as u8))?;
                }
                if !self.honest {
                    c.skip_field("skipped")?;
                }
                c.end()
            }
            _ => {
                let mut c = ser.serialize_struct_variant("E", 2, "sv", if self.honest { n } else { n + 1 })?;
                for i in 0..n {
                    c.serialize_field(FIELD_NAMES[i % 4], &(i as u8))?;
                }
                if !self.honest {
                    c.skip_field("skipped")?;
                }
                c.end()
            }
        }
    }
}

/// Derived: variants that lose fields to `skip`, down to one or none.
#[derive(serde::Serialize, Debug, Clone)]
#[serde(rename_all = "kebab-case")]
enum Skippy {
    OneLeft(u8, #[serde(skip)] std::marker::PhantomData<u16>),
    NoneLeft(#[serde(skip)] u8, #[serde(skip)] u8),
    TwoLeft(u8, #[serde(skip)] u8, i8),
    StOneLeft {
        a: u8,
        #[serde(skip)]
        b: u8,
    },
    StNoneLeft {
        #[serde(skip)]
        b: u8,
    },
}
#[derive(serde::Serialize, Debug, Clone)]
struct TsOneLeft(u8, #[serde(skip)] u8);
#[derive(serde::Serialize, Debug, Clone)]
struct TsNoneLeft(#[serde(skip)] u8);

/// Variant and field names are symbols with exactly the name Serde hands over,
/// whatever it looks like (renamed fields, raw identifiers, other alphabets).
const ODD_NAMES: &[&str] = &[
    "r#raw", "r#", "r#type", "type", "a-b", "a_b", "λ", "ключ", "1x", "#t", "#f", "nil", "t", "a.b", "(", ")", " ", "", "A", "CamelCase", "with space", ":k", "k:", "#:k", "|", "\"", "a\"b", "\\", ";c", "'q", "..", "...", "-", "+1", "1", "1.5", "#u8", "#\\a", "é", "\u{1F600}",
];
#[derive(Debug, Clone)]
struct Named {
    kind: u8,
    name: &'static str,
}
impl serde::Serialize for Named {
    fn serialize<S: serde::Serializer>(&self, ser: S) -> Result<S::Ok, S::Error> {
        use serde::ser::{SerializeStruct, SerializeStructVariant, SerializeTupleVariant};
        match self.kind {
            0 => ser.serialize_unit_variant("E", 0, self.name),
            1 => ser.serialize_newtype_variant("E", 1, self.name, &7u8),
            2 => {
                let mut c = ser.serialize_tuple_variant("E", 2, self.name, 2)?;
                c.serialize_field(&1u8)?;
                c.serialize_field("x")?;
                c.end()
            }
            3 => {
                let mut c = ser.serialize_struct_variant("E", 3, self.name, 2)?;
                c.serialize_field(self.name, &1u8)?;
                c.serialize_field("plain", &2u8)?;
                c.end()
            }
            4 => {
                let mut c = ser.serialize_struct(self.name, 2)?;
                c.serialize_field(self.name, &1u8)?;
                c.serialize_field("plain", &2u8)?;
                c.end()
            }
            5 => ser.serialize_unit_struct(self.name),
            6 => ser.serialize_newtype_struct(self.name, &7u8),
            _ => {
                let mut m = std::collections::BTreeMap::new();
                m.insert(self.name, 1u8);
                serde::Serialize::serialize(&m, ser)
            }
        }
    }
}

fn check_names_sweep(ctx: &mut Ctx) {
    let none: AlikeCase = Vec::new();
    for (ni, name) in ODD_NAMES.iter().enumerate() {
        for kind in 0u8..8 {
            let x = Named { kind, name };
            let r = check_shape_only("Named", &x, &none).map(|_| Eval::new(true, digest_of(&(kind, name))).class("names-sweep")).map_err(|mut f| {
                f.case = json!({"named": [kind, ni]});
                f.signature = format!("{} position={}", f.signature, ["unit-variant", "newtype-variant", "tuple-variant", "struct-variant+field", "struct-field", "unit-struct", "newtype-struct", "map-key"][kind as usize]);
                f
            });
            ctx.observe("names-sweep", r);
        }
    }
    ctx.flush_failures();
}

fn check_arity_sweep(ctx: &mut Ctx) {
    let none: AlikeCase = Vec::new();
    for kind in 0u8..7 {
        for len in 0usize..=4 {
            for honest in [true, false] {
                let a = Arity { kind, len, honest };
                let r = check_shape_only("Arity", &a, &none).map(|_| Eval::new(true, digest_of(&(kind, len, honest))).class("arity-sweep"));
                ctx.observe("arity-sweep", r.map_err(|mut f| {
                    f.case = json!({"arity": [kind, len, honest as u8]});
                    f.signature = format!("{} collector={} len={}", f.signature, ["seq", "tuple", "tuple-struct", "tuple-variant", "map", "struct", "struct-variant"][kind as usize], len);
                    f
                }));
                // as an element of an outer sequence and as a map value too
                let r = check_shape_only("Vec<Arity>", &vec![a.clone(), a.clone()], &none).map(|_| Eval::new(true, digest_of(&(kind, len, honest, 1))).class("arity-sweep"));
                ctx.observe("arity-sweep", r.map_err(|mut f| {
                    f.case = json!({"arity": [kind, len, honest as u8]});
                    f
                }));
            }
        }
    }
    let ph = std::marker::PhantomData;
    let derived: Vec<(&'static str, Box<dyn Fn() -> Result<(), Failure>>)> = vec![
        ("Skippy::OneLeft", Box::new(move || check_shape_only("Skippy::OneLeft", &Skippy::OneLeft(7, ph), &Vec::new()))),
        ("Skippy::NoneLeft", Box::new(|| check_shape_only("Skippy::NoneLeft", &Skippy::NoneLeft(1, 2), &Vec::new()))),
        ("Skippy::TwoLeft", Box::new(|| check_shape_only("Skippy::TwoLeft", &Skippy::TwoLeft(1, 2, -3), &Vec::new()))),
        ("Skippy::StOneLeft", Box::new(|| check_shape_only("Skippy::StOneLeft", &Skippy::StOneLeft { a: 1, b: 2 }, &Vec::new()))),
        ("Skippy::StNoneLeft", Box::new(|| check_shape_only("Skippy::StNoneLeft", &Skippy::StNoneLeft { b: 2 }, &Vec::new()))),
        ("TsOneLeft", Box::new(|| check_shape_only("TsOneLeft", &TsOneLeft(1, 2), &Vec::new()))),
        ("TsNoneLeft", Box::new(|| check_shape_only("TsNoneLeft", &TsNoneLeft(1), &Vec::new()))),
    ];
    for (name, f) in derived {
        let r = f().map(|_| Eval::new(true, digest_of(name)).class("arity-sweep")).map_err(|mut e| {
            e.case = json!({"arity_derived": name});
            e
        });
        ctx.observe("arity-sweep", r);
    }
    ctx.flush_failures();
}

/// Map keys that serialize to the empty list or to other composite shapes,
/// through both SerializeMap routes.
#[derive(Debug, Clone)]
struct OddKeys {
    keys: Vec<u8>,
    two_step: bool,
}
impl serde::Serialize for OddKeys {
    fn serialize<S: serde::Serializer>(&self, ser: S) -> Result<S::Ok, S::Error> {
        use serde::ser::SerializeMap;
        let mut m = ser.serialize_map(Some(self.keys.len()))?;
        macro_rules! put {
            ($k:expr, $v:expr) => {
                if self.two_step {
                    m.serialize_key($k)?;
                    m.serialize_value($v)?;
                } else {
                    m.serialize_entry($k, $v)?;
                }
            };
        }
        for (i, k) in self.keys.iter().enumerate() {
            let v = i as u8;
            match k % 10 {
                0 => put!(&None::<u8>, &v),
                1 => put!(&(), &v),
                2 => put!(&Vec::<u8>::new(), &v),
                3 => put!(&UnitS, &v),
                4 => put!(&Some(7u8), &v),
                5 => put!(&7u8, &v),
                6 => put!(&(1u8, "x"), &v),
                7 => put!(&std::marker::PhantomData::<u8>, &v),
                8 => put!(&Some(None::<u8>), &v),
                _ => put!("name", &None::<u8>),
            }
        }
        m.end()
    }
}

fn check_odd_keys(ctx: &mut Ctx) {
    let none: AlikeCase = Vec::new();
    for two_step in [false, true] {
        for a in 0u8..10 {
            for b in 0u8..10 {
                let x = OddKeys { keys: vec![a, b, a], two_step };
                let r = check_shape_only("OddKeys", &x, &none).map(|_| Eval::new(true, digest_of(&(a, b, two_step))).class("odd-keys")).map_err(|mut f| {
                    f.case = json!({"odd_keys": [a, b, two_step as u8]});
                    f.signature = format!("{} route={}", f.signature, if two_step { "serialize_key+serialize_value" } else { "serialize_entry" });
                    f
                });
                ctx.observe("odd-keys", r);
            }
        }
    }
    ctx.flush_failures();
}

type AlikeCase = Vec<(u8, u32, i16)>;

fn g_alike() -> BS<AlikeCase> {
    use proptest::prelude::*;
    proptest::collection::vec((0u8..4, 0u32..3, any::<i16>()), 0..6).boxed()
}

fn check_shape_only<T: serde::Serialize + std::fmt::Debug>(name: &'static str, x: &T, case: &AlikeCase) -> Result<(), Failure> {
    let expected = Shaper::documented().shape(&doc_of(x));
    let fail = |sig: String, msg: String| Failure::new(format!("C14 type={} {}", name, sig), msg, json!({"alike": case}));
    let got = match to_mv(x) {
        Ok(m) => m,
        Err(e) => return Err(fail("stage=to_value error".into(), e)),
    };
    if got != expected {
        let d = crate::model::mv_diff(&expected, &got, &crate::model::exact);
        return Err(fail(
            format!("stage=shape kind={}", d.as_ref().map_or("?".to_string(), |d| d.0.clone())),
            format!("{:?} serializes to {} but the documented shape (one cell per entry, in order) is {}", x, short(&got), short(&expected)),
        ));
    }
    Ok(())
}

fn check_alike(case: &AlikeCase) -> CaseResult {
    use std::collections::BTreeMap;
    let slots: BTreeMap<Slot, i16> = case.iter().map(|(k, g, v)| (Slot { name: format!("n{}", k), generation: *g }, *v)).collect();
    let ids: BTreeMap<Id, i16> = case
        .iter()
        .map(|(k, g, v)| {
            (
                match g {
                    0 => Id::Short(*k),
                    1 => Id::Long(*k as u64),
                    _ => Id::Name(format!("n{}", k)),
                },
                *v,
            )
        })
        .collect();
    let entries: Vec<(u8, i16)> = case.iter().map(|(k, _, v)| (*k, *v)).collect();
    check_shape_only("BTreeMap<Slot,i16>", &slots, case)?;
    check_shape_only("BTreeMap<Id,i16>", &ids, case)?;
    check_shape_only("Entries", &Entries(entries.clone()), case)?;
    check_shape_only("EntriesKv", &EntriesKv(entries.clone()), case)?;
    check_shape_only("Vec<BTreeMap<Slot,i16>>", &vec![slots.clone(), slots.clone()], case)?;
    let mut keys: Vec<u8> = case.iter().map(|c| c.0).collect();
    keys.sort();
    let repeated = keys.windows(2).any(|w| w[0] == w[1]);
    Ok(Eval::new(case.len() > 1, digest_of(case)).class(if repeated { "alike:keys-serialize-equal" } else { "alike:all-distinct" }))
}

struct Run<'a> {
    ctx: &'a mut Ctx,
    cases: u32,
}

impl<'a> TypeVisitor for Run<'a> {
    fn visit<T: FamType>(&mut self, name: &'static str, strat: BS<T>) {
        let n = self.cases;
        self.ctx.run_prop(&format!("shape/{}", name), n, strat, |x| check_shape(name, x));
    }
}

fn run(ctx: &mut Ctx) {
    let tier = ctx.tier;
    let mut v = Run { cases: tier.pick(150, 10_000), ctx };
    for_each_type(&mut v);
    {
        let edges = int_edges();
        macro_rules! sweep {
            ($($t:ty),*) => {$(
                for e in &edges {
                    if let Ok(x) = <$t>::try_from(*e) {
                        ctx.observe(concat!("int-edges/", stringify!($t)), check_shape::<$t>(stringify!($t), &x));
                    }
                }
                ctx.flush_failures();
            )*};
        }
        sweep!(i8, i16, i32, i64, u8, u16, u32, u64);
    }
    check_arity_sweep(ctx);
    check_names_sweep(ctx);
    check_odd_keys(ctx);
    ctx.run_prop("alike-keys", tier.pick(3000, 100_000), g_alike(), check_alike);
    let x = (vec![1u8, 2], (3i8, 4i8));
    ctx.add_sample("shape", json!({"type": "(Vec<u8>,(i8,i8))", "documented": serde_lexpr::to_string(&x).unwrap_or_default(), "flipped node 0": "((1 2) #(3 4)) / #(#(1 2) #(3 4))", "improper": "#((1 2 . 5) #(3 4))"}));
    ctx.add_sample("shape", json!({"type": "E", "documented": [serde_lexpr::to_string(&E::Unit).unwrap_or_default(), serde_lexpr::to_string(&E::New(1)).unwrap_or_default(), serde_lexpr::to_string(&E::Tup(1, "a".into())).unwrap_or_default(), serde_lexpr::to_string(&E::St { foo: true, bar: 2 }).unwrap_or_default()]}));
    ctx.required_classes = vec!["E", "Tree", "Holder", "Tup3", "Nested", "alt-encodings:checked", "alike:keys-serialize-equal"];
}

struct Replay<'a> {
    name: &'a str,
    case: &'a Json,
    out: Option<CaseResult>,
}

impl<'a> TypeVisitor for Replay<'a> {
    fn visit<T: FamType>(&mut self, name: &'static str, _strat: BS<T>) {
        if name == self.name && self.out.is_none() {
            if let Some(x) = decode_case::<T>(self.case) {
                self.out = Some(check_shape(name, &x));
            }
        }
    }
}

fn replay(_sub: &str, case: &Json) -> Option<CaseResult> {
    if let Some(a) = case.get("odd_keys") {
        let t: (u8, u8, u8) = serde_json::from_value(a.clone()).ok()?;
        let x = OddKeys { keys: vec![t.0, t.1, t.0], two_step: t.2 != 0 };
        let none: AlikeCase = Vec::new();
        return Some(check_shape_only("OddKeys", &x, &none).map(|_| Eval::new(true, digest_of(&t)).class("odd-keys")).map_err(|mut f| {
            f.case = json!({"odd_keys": [t.0, t.1, t.2]});
            f
        }));
    }
    if let Some(a) = case.get("named") {
        let t: (u8, usize) = serde_json::from_value(a.clone()).ok()?;
        let x = Named { kind: t.0, name: ODD_NAMES.get(t.1)? };
        let none: AlikeCase = Vec::new();
        return Some(check_shape_only("Named", &x, &none).map(|_| Eval::new(true, digest_of(&t)).class("names-sweep")).map_err(|mut f| {
            f.case = json!({"named": [t.0, t.1]});
            f
        }));
    }
    if let Some(a) = case.get("arity") {
        let t: (u8, usize, u8) = serde_json::from_value(a.clone()).ok()?;
        let a = Arity { kind: t.0, len: t.1, honest: t.2 != 0 };
        let none: AlikeCase = Vec::new();
        return Some(
            check_shape_only("Arity", &a, &none)
                .and_then(|_| check_shape_only("Vec<Arity>", &vec![a.clone(), a.clone()], &none))
                .map(|_| Eval::new(true, digest_of(&t)).class("arity-sweep"))
                .map_err(|mut f| {
                    f.case = json!({"arity": [t.0, t.1, t.2]});
                    f
                }),
        );
    }
    if let Some(a) = case.get("alike") {
        let c: AlikeCase = serde_json::from_value(a.clone()).ok()?;
        return Some(check_alike(&c));
    }
    let name = case.get("type")?.as_str()?.to_string();
    let mut r = Replay { name: &name, case, out: None };
    for_each_type(&mut r);
    r.out
}

struct FuzzPick<'a, 'b> {
    f: &'a mut FuzzIn<'b>,
    idx: usize,
    at: usize,
    out: Option<CaseResult>,
}

impl<'a, 'b> TypeVisitor for FuzzPick<'a, 'b> {
    fn visit<T: FamType>(&mut self, name: &'static str, strat: BS<T>) {
        let me = self.at;
        self.at += 1;
        if me != self.idx {
            return;
        }
        if let Some(x) = self.f.draw(&strat) {
            self.out = Some(check_shape(name, &x));
        }
    }
}

/// libFuzzer entry: one type of the family, one generated value.
pub fn fuzz(f: &mut FuzzIn) -> Option<CaseResult> {
    let idx = f.draw(&(0usize..N_FAM_TYPES))?;
    let mut p = FuzzPick { f, idx, at: 0, out: None };
    for_each_type(&mut p);
    p.out
}
