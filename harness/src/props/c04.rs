//! C04 — Serde round trip (value path, text path, injectivity on the family),
//! C14 — documented shapes and accepted alternative encodings,
//! C18 — deserializing any value is total and self-consistent.
//! (One file: the three properties share the type-family dispatch.)

use proptest::prelude::*;
use rayon::prelude::*;
use serde_json::{json, Value as Json};

use crate::engine::*;
use crate::gen::*;
use crate::model::*;
use crate::mv::*;
use crate::props::c01::ryu_text;
use crate::props::Prop;
use crate::serde_fam::*;
use crate::util::*;

pub const PROP: Prop = Prop {
    id: "C04",
    level: "exploration",
    rule: "(round 9: field and variant names spelled like constants - inf, -inf, NaN, nan, e, true, null, ..., ->x, inf.0 - in three more family types) (round 8: every f32 bit pattern through to_value/from_value in the thorough tier, every 512th in the quick tier; newtype structs around one-element tuples, arrays and sequences) (rounds 6-7: std::net address types, which ask is_human_readable; every integer type at every power of two and of ten with neighbours; targets that borrow strings and byte buffers from the value, value path only) (text clause: the text also goes through serde_lexpr::to_writer and to_writer_custom into sinks that accept 1, 3 or 7 bytes per call - native write_vectored included - and into a sink that fails half way, and is read back through from_slice, from_reader on a cursor and from_reader on a one-byte-per-call reader) for each of the ~50 concrete types of the family (every Serde data-model category and the shape-ambiguous nestings: Option<Option<T>>, Option<()>, Option<Vec<T>>, Vec<Option<T>>, newtype variant around a sequence / tuple / option, empty tuple and struct variants, 1-tuples, maps keyed by integers, chars, strings and unit variants, structs with unit and option fields, enums inside maps inside structs, a recursive tree) values are drawn from hand-written strategies (boundary integers, arbitrary Unicode strings, empty and long collections, non-finite floats on the value path); oracle: from_value(to_value(x)) == x, from_str(to_string(x)) == x for finite floats (floats within the C05 tolerance, which is exact for f32), and two unequal values of one type never serialize to equal S-expressions; non-trivial = the value has a composite below the root or the type is one of the shape-ambiguous ones; distinct by digest of (type, value); counted per type in `classes`",
    assumptions: &[
        "128-bit integers are not part of the documented data model and are not in the family",
        "NaN is checked separately (bitwise is_nan), all other comparisons use the types' own PartialEq",
    ],
    run: run_c04,
    replay: replay_c04,
    builds: &["ff"],
};

pub fn to_mv<T: serde::Serialize>(x: &T) -> Result<MV, String> {
    match catch(|| serde_lexpr::to_value(x)) {
        Err(pm) => Err(format!("panic: {}", pm)),
        Ok(Err(e)) => Err(format!("error: {}", e)),
        Ok(Ok(v)) => Ok(MV::from_value(&v)),
    }
}

fn case_json<T: FamType>(name: &str, x: &T) -> Json {
    let js = serde_json::to_value(x).unwrap_or(Json::Null);
    // serde_json cannot represent every value (non-finite floats); keep the
    // S-expression as a fallback for replay
    let lex = to_mv(x).ok();
    json!({"type": name, "x": js, "lexpr": lex})
}

pub fn decode_case<T: FamType>(case: &Json) -> Option<T> {
    if let Some(x) = case.get("x") {
        if let Ok(v) = serde_json::from_value::<T>(x.clone()) {
            // make sure nothing was lost (non-finite floats become null)
            if serde_json::to_value(&v).ok().as_ref() == Some(x) && !x.to_string().contains("null") {
                return Some(v);
            }
        }
    }
    let mv: MV = serde_json::from_value(case.get("lexpr")?.clone()).ok()?;
    serde_lexpr::from_value::<T>(&mv.to_value()).ok()
}

fn ambiguous_type(name: &str) -> bool {
    name.contains("Option") || name.contains("Tup") || name == "E" || name.contains("(") || name.contains("Map") || name == "unit" || name == "UnitS"
}

/// Sink that accepts at most `k` bytes per call (also through its native
/// write_vectored) and fails hard once `fail_at` bytes have been delivered.
struct ChunkSink {
    buf: Vec<u8>,
    k: usize,
    fail_at: Option<usize>,
}

impl ChunkSink {
    fn admit(&self, total: usize) -> std::io::Result<usize> {
        let mut cap = self.k;
        if let Some(off) = self.fail_at {
            if self.buf.len() >= off {
                return Err(std::io::Error::new(std::io::ErrorKind::Other, "injected write error"));
            }
            cap = cap.min(off - self.buf.len());
        }
        Ok(cap.min(total))
    }
}

impl std::io::Write for ChunkSink {
    fn write(&mut self, data: &[u8]) -> std::io::Result<usize> {
        let n = self.admit(data.len())?;
        self.buf.extend_from_slice(&data[..n]);
        Ok(n)
    }
    fn write_vectored(&mut self, bufs: &[std::io::IoSlice<'_>]) -> std::io::Result<usize> {
        let n = self.admit(bufs.iter().map(|b| b.len()).sum())?;
        let mut left = n;
        for b in bufs {
            let k = left.min(b.len());
            self.buf.extend_from_slice(&b[..k]);
            left -= k;
        }
        Ok(n)
    }
    fn flush(&mut self) -> std::io::Result<()> {
        Ok(())
    }
}

/// Reader that delivers one byte per call.
struct OneByte<'a>(&'a [u8]);

impl<'a> std::io::Read for OneByte<'a> {
    fn read(&mut self, out: &mut [u8]) -> std::io::Result<usize> {
        match (self.0.split_first(), out.first_mut()) {
            (Some((b, rest)), Some(o)) => {
                *o = *b;
                self.0 = rest;
                Ok(1)
            }
            _ => Ok(0),
        }
    }
}

pub fn check_roundtrip<T: FamType>(name: &'static str, x: &T) -> CaseResult {
    let case = || case_json(name, x);
    let fail = |stage: &str, kind: String, msg: String| Failure::new(format!("C04 type={} stage={} {}", name, stage, kind), msg, case());
    let doc = doc_of(x);
    // value path
    let v = match catch(|| serde_lexpr::to_value(x)) {
        Err(pm) => return Err(fail("to_value", format!("panic={}", panic_sig(&pm)), pm)),
        Ok(Err(e)) => return Err(fail("to_value", "error".into(), format!("to_value failed: {}", e))),
        Ok(Ok(v)) => v,
    };
    match catch(|| serde_lexpr::from_value::<T>(&v)) {
        Err(pm) => return Err(fail("from_value", format!("panic={}", panic_sig(&pm)), pm)),
        Ok(Err(e)) => return Err(fail("from_value", "error".into(), format!("{:?} serializes to {} which does not deserialize: {}", x, short(&v), e))),
        Ok(Ok(y)) => {
            if y != *x {
                return Err(fail("from_value", "changed".into(), format!("{:?} -> {} -> {:?}", x, short(&v), y)));
            }
        }
    }
    // text path (finite floats only)
    let mv = MV::from_value(&v);
    let finite = !mv.any(&|m| matches!(m, MV::F(b) if !f64::from_bits(*b).is_finite()));
    if finite {
        let text = match catch(|| serde_lexpr::to_string(x)) {
            Err(pm) => return Err(fail("to_string", format!("panic={}", panic_sig(&pm)), pm)),
            Ok(Err(e)) => return Err(fail("to_string", "error".into(), format!("to_string failed: {}", e))),
            Ok(Ok(t)) => t,
        };
        match catch(|| serde_lexpr::from_str::<T>(&text)) {
            Err(pm) => return Err(fail("from_str", format!("panic={}", panic_sig(&pm)), pm)),
            Ok(Err(e)) => return Err(fail("from_str", "error".into(), format!("{:?} prints as {:?} which does not deserialize: {}", x, clip(&text, 200), e))),
            Ok(Ok(y)) => {
                if y != *x {
                    // allow float tolerance: compare the S-expressions with the float rule
                    let fl = |a: f64, b: f64| float_roundtrip_ok(a, b, &ryu_text(a));
                    let same = match to_mv(&y) {
                        Ok(my) => mv_diff(&mv.normalize(), &my, &fl).is_none(),
                        Err(_) => false,
                    };
                    if !same {
                        return Err(fail("from_str", "changed".into(), format!("{:?} -> {:?} -> {:?}", x, clip(&text, 200), y)));
                    }
                }
            }
        }
        // the writer entry points deliver the same text through a sink that
        // accepts only a few bytes per call, and report a failing sink
        for k in [1usize, 3, 7] {
            for custom in [false, true] {
                let mut sink = ChunkSink { buf: Vec::new(), k, fail_at: None };
                let r = if custom {
                    serde_lexpr::to_writer_custom(&mut sink, x, lexpr::print::Options::default())
                } else {
                    serde_lexpr::to_writer(&mut sink, x)
                };
                if r.is_err() || sink.buf != text.as_bytes() {
                    return Err(fail(
                        "to_writer",
                        format!("short-writes custom={}", custom),
                        format!("through a sink accepting {} bytes per call the text {:?} arrives as {:?} (result ok={})", k, clip(&text, 120), bytes_lossy(&sink.buf), r.is_ok()),
                    ));
                }
            }
        }
        if !text.is_empty() {
            let mut sink = ChunkSink { buf: Vec::new(), k: 5, fail_at: Some(text.len() / 2) };
            if serde_lexpr::to_writer(&mut sink, x).is_ok() {
                return Err(fail("to_writer", "ok-on-error".into(), format!("to_writer returned Ok although the sink failed at offset {} of {:?}", text.len() / 2, clip(&text, 120))));
            }
        }
        // the other text entry points agree
        let vec_text = serde_lexpr::to_vec(x).map_err(|e| e.to_string());
        let mut w = Vec::new();
        let wr = serde_lexpr::to_writer(&mut w, x).map(|_| w).map_err(|e| e.to_string());
        if vec_text.as_deref().ok() != Some(text.as_bytes()) || wr.as_deref().ok() != Some(text.as_bytes()) {
            return Err(fail("to_vec/to_writer", "differs".into(), "to_vec/to_writer disagree with to_string".into()));
        }
        let a = serde_lexpr::from_slice::<T>(text.as_bytes()).ok();
        let b = serde_lexpr::from_reader::<T>(std::io::Cursor::new(text.as_bytes())).ok();
        let b1 = serde_lexpr::from_reader::<T>(OneByte(text.as_bytes())).ok();
        if b1 != b {
            return Err(fail("from_reader", "chunked-differs".into(), "from_reader through a reader delivering one byte per call disagrees with a cursor".into()));
        }
        let c = serde_lexpr::from_str::<T>(&text).ok();
        if a != c || b != c {
            return Err(fail("from_slice/from_reader", "differs".into(), "from_slice/from_reader disagree with from_str".into()));
        }
    }
    let nt = has_nested_composite(&doc) || ambiguous_type(name);
    Ok(Eval::new(nt, mix(digest_of(name), digest_of(&short(&mv)))).class(name).class(if finite { "path:value+text" } else { "path:value-only" }))
}

pub fn check_injective<T: FamType>(name: &'static str, a: &T, b: &T) -> CaseResult {
    if a == b {
        return Ok(Eval::new(false, 0).class("inj:equal-pair"));
    }
    match (to_mv(a), to_mv(b)) {
        (Ok(ma), Ok(mb)) => {
            if ma == mb {
                Err(Failure::new(
                    format!("C04 type={} stage=injectivity", name),
                    format!("two different values {:?} and {:?} both serialize to {}", a, b, short(&ma)),
                    json!({"type": name, "x": serde_json::to_value(a).ok(), "y": serde_json::to_value(b).ok(), "pair": true}),
                ))
            } else {
                Ok(Eval::new(true, mix(digest_of(&short(&ma)), digest_of(&short(&mb)))).class("inj:distinct-pair"))
            }
        }
        _ => Ok(Eval::new(false, 0)),
    }
}

struct RunC04<'a> {
    ctx: &'a mut Ctx,
    cases: u32,
}

impl<'a> TypeVisitor for RunC04<'a> {
    fn visit<T: FamType>(&mut self, name: &'static str, strat: BS<T>) {
        let n = self.cases;
        self.ctx.run_prop(&format!("roundtrip/{}", name), n, strat.clone(), |x| check_roundtrip(name, x));
        self.ctx.run_prop(&format!("injective/{}", name), n / 4, (strat.clone(), strat), |(a, b)| check_injective(name, a, b));
    }
}

#[derive(serde::Serialize, serde::Deserialize, PartialEq, Debug)]
struct Borrowed<'a> {
    #[serde(borrow)]
    name: &'a str,
    #[serde(borrow, with = "serde_bytes")]
    data: &'a [u8],
    #[serde(borrow)]
    opt: Option<&'a str>,
    #[serde(borrow)]
    cow: std::borrow::Cow<'a, str>,
    #[serde(borrow)]
    more: Vec<&'a serde_bytes::Bytes>,
}

fn check_borrowed(data: &[u8], name: &str, opt: Option<&str>, more: &[Vec<u8>]) -> CaseResult {
    let case = || json!({"borrowed": {"data": data, "name": name, "opt": opt, "more": more}});
    let fail = |ty: &str, stage: &str, msg: String| Failure::new(format!("C04 type={} stage={}", ty, stage), msg, case());
    let x = Borrowed { name, data, opt, cow: std::borrow::Cow::Borrowed(name), more: more.iter().map(|m| serde_bytes::Bytes::new(m)).collect() };
    let v = match catch(|| serde_lexpr::to_value(&x)) {
        Ok(Ok(v)) => v,
        Ok(Err(e)) => return Err(fail("Borrowed", "to_value error", e.to_string())),
        Err(pm) => return Err(fail("Borrowed", "to_value panic", pm)),
    };
    match catch(|| serde_lexpr::from_value::<Borrowed>(&v).map(|y| y == x)) {
        Ok(Ok(true)) => {}
        Ok(Ok(false)) => return Err(fail("Borrowed", "from_value changed", format!("{:?} came back different from {}", x, v))),
        Ok(Err(e)) => return Err(fail("Borrowed", "from_value error", format!("{:?} serialized to {} is rejected: {}", x, v, e))),
        Err(pm) => return Err(fail("Borrowed", "from_value panic", pm)),
    }
    // the parts on their own
    let b = serde_bytes::Bytes::new(data);
    match serde_lexpr::to_value(b).map_err(|e| e.to_string()).and_then(|v| serde_lexpr::from_value::<&serde_bytes::Bytes>(&v).map(|y| y == b).map_err(|e| e.to_string())) {
        Ok(true) => {}
        other => return Err(fail("&Bytes", "from_value", format!("a borrowed byte buffer of {} bytes did not come back: {:?}", data.len(), other))),
    }
    match serde_lexpr::to_value(name).map_err(|e| e.to_string()).and_then(|v| serde_lexpr::from_value::<&str>(&v).map(|y| y == name).map_err(|e| e.to_string())) {
        Ok(true) => {}
        other => return Err(fail("&str", "from_value", format!("the borrowed string {:?} did not come back: {:?}", name, other))),
    }
    Ok(Eval::new(true, digest_of(&(data, name, opt, more))).class("borrowed"))
}

fn run_c04(ctx: &mut Ctx) {
    let tier = ctx.tier;
    let mut v = RunC04 { cases: tier.pick(400, 25_000), ctx };
    for_each_type(&mut v);
    // every integer type at every power of two of its range, two either side (not left to chance)
    {
        let edges = int_edges();
        macro_rules! sweep {
            ($($t:ty),*) => {$(
                for e in &edges {
                    if let Ok(x) = <$t>::try_from(*e) {
                        ctx.observe(concat!("int-edges/", stringify!($t)), check_roundtrip::<$t>(stringify!($t), &x));
                    }
                }
                ctx.flush_failures();
            )*};
        }
        sweep!(i8, i16, i32, i64, u8, u16, u32, u64);
    }
    // types that borrow from the value they are read from (value path only:
    // the text entry points need an owned target)
    ctx.run_prop(
        "borrowed",
        tier.pick(2000, 50_000),
        (crate::gen::g_bytes(24), g_str(), proptest::option::of(g_str()), proptest::collection::vec(crate::gen::g_bytes(6), 0..3)),
        |(data, name, opt, more)| check_borrowed(data, name, opt.as_deref(), more),
    );
    // every f32 there is (thorough; every 512th bit pattern in the quick tier)
    // through to_value and from_value: the widening to the S-expression's
    // double and the narrowing back are exact for each single one of them
    {
        let step: u64 = tier.pick(512, 1);
        let chunks: u64 = 4096;
        let per = (1u64 << 32) / chunks;
        let bad: Vec<(u32, String)> = (0..chunks)
            .into_par_iter()
            .flat_map_iter(|c| {
                let mut out = Vec::new();
                let mut b = c * per + (c % step);
                while b < (c + 1) * per && out.len() < 4 {
                    let x = f32::from_bits(b as u32);
                    if !x.is_nan() {
                        match serde_lexpr::to_value(x).map_err(|e| e.to_string()).and_then(|v| serde_lexpr::from_value::<f32>(&v).map_err(|e| e.to_string())) {
                            Ok(y) if y.to_bits() == x.to_bits() => {}
                            Ok(y) => out.push((b as u32, format!("came back as {:?} (bits {:#x})", y, y.to_bits()))),
                            Err(e) => out.push((b as u32, e)),
                        }
                    }
                    b += step;
                }
                out
            })
            .collect();
        let n = (1u64 << 32) / step;
        ctx.exhaustive.push(format!("f32 bit patterns through to_value/from_value: {} of 2^32 ({})", n, if step == 1 { "all" } else { "every 512th, offset varying by block" }));
        for (bits, what) in bad.iter().take(3) {
            let x = f32::from_bits(*bits);
            ctx.observe("f32-sweep", Err(Failure::new("C04 type=f32 stage=from_value changed sweep", format!("f32 {:?} (bits {:#x}) {}", x, bits, what), json!({"type": "f32", "x": x}))));
        }
        ctx.observe("f32-sweep", Ok(Eval::new(true, n).class("f32").class("f32-sweep")));
        ctx.flush_failures();
    }
    // NaN on the value path
    for bits in [f64::NAN.to_bits(), 0x7ff0_0000_0000_0001u64, 0xfff8_0000_0000_0000u64] {
        let x = f64::from_bits(bits);
        let r = match serde_lexpr::to_value(x).ok().and_then(|v| serde_lexpr::from_value::<f64>(&v).ok()) {
            Some(y) if y.is_nan() => Ok(Eval::new(true, bits).class("f64").class("path:value-only")),
            other => Err(Failure::new("C04 type=f64 stage=from_value nan", format!("NaN came back as {:?}", other), json!({"type": "f64", "nan": bits}))),
        };
        ctx.observe("nan", r);
        let r = match serde_lexpr::to_value(f32::NAN).ok().and_then(|v| serde_lexpr::from_value::<f32>(&v).ok()) {
            Some(y) if y.is_nan() => Ok(Eval::new(true, bits ^ 1).class("f32")),
            other => Err(Failure::new("C04 type=f32 stage=from_value nan", format!("NaN came back as {:?}", other), json!({"type": "f32", "nan": 0}))),
        };
        ctx.observe("nan", r);
    }
    ctx.flush_failures();
    ctx.add_sample("roundtrip", json!({"type": "E", "value": "E::St{foo:true,bar:3}", "sexp": serde_lexpr::to_string(&E::St { foo: true, bar: 3 }).unwrap_or_default()}));
    ctx.add_sample("roundtrip", json!({"type": "Option<Option<u8>>", "value": "Some(None)", "sexp": serde_lexpr::to_string(&Some(None::<u8>)).unwrap_or_default()}));
    ctx.add_sample("roundtrip", json!({"type": "WithOpt", "sexp": serde_lexpr::to_string(&WithOpt { a: Some(1), b: (), c: None, d: UnitS, e: Some(None) }).unwrap_or_default()}));
    ctx.required_classes = vec!["E", "Tree", "Holder", "Option<Option<u8>>", "f32", "u64", "ByteBuf", "BTreeMap<Key,Option<u8>>", "Tup0", "path:value+text", "path:value-only", "inj:distinct-pair", "borrowed"];
}

struct ReplayC04<'a> {
    name: &'a str,
    case: &'a Json,
    out: Option<CaseResult>,
}

impl<'a> TypeVisitor for ReplayC04<'a> {
    fn visit<T: FamType>(&mut self, name: &'static str, _strat: BS<T>) {
        if name != self.name || self.out.is_some() {
            return;
        }
        if self.case.get("pair").is_some() {
            let a = serde_json::from_value::<T>(self.case["x"].clone()).ok();
            let b = serde_json::from_value::<T>(self.case["y"].clone()).ok();
            if let (Some(a), Some(b)) = (a, b) {
                self.out = Some(check_injective(name, &a, &b));
            }
            return;
        }
        if let Some(x) = decode_case::<T>(self.case) {
            self.out = Some(check_roundtrip(name, &x));
        }
    }
}

fn replay_c04(_sub: &str, case: &Json) -> Option<CaseResult> {
    if let Some(b) = case.get("borrowed") {
        let data: Vec<u8> = serde_json::from_value(b["data"].clone()).ok()?;
        let name: String = serde_json::from_value(b["name"].clone()).ok()?;
        let opt: Option<String> = serde_json::from_value(b["opt"].clone()).ok()?;
        let more: Vec<Vec<u8>> = serde_json::from_value(b["more"].clone()).ok()?;
        return Some(check_borrowed(&data, &name, opt.as_deref(), &more));
    }
    let name = case.get("type")?.as_str()?.to_string();
    let mut r = ReplayC04 { name: &name, case, out: None };
    for_each_type(&mut r);
    r.out
}

#[allow(dead_code)]
fn unused(_: BS<u8>) {
    let _ = any::<u8>();
}

struct FuzzPick<'a, 'b> {
    f: &'a mut FuzzIn<'b>,
    idx: usize,
    at: usize,
    out: Option<CaseResult>,
}

impl<'a, 'b> TypeVisitor for FuzzPick<'a, 'b> {
    fn visit<T: FamType>(&mut self, name: &'static str, strat: BS<T>) {
        let me = self.at;
        self.at += 1;
        if me != self.idx {
            return;
        }
        if self.f.mode % 4 == 3 {
            if let Some((a, b)) = self.f.draw(&(strat.clone(), strat)) {
                self.out = Some(check_injective(name, &a, &b));
            }
        } else if let Some(x) = self.f.draw(&strat) {
            self.out = Some(check_roundtrip(name, &x));
        }
    }
}

/// libFuzzer entry: one type of the family (second byte), one generated value.
pub fn fuzz(f: &mut FuzzIn) -> Option<CaseResult> {
    let idx = f.draw(&(0usize..N_FAM_TYPES))?;
    let mut p = FuzzPick { f, idx, at: 0, out: None };
    for_each_type(&mut p);
    p.out
}
