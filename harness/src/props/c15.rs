//! C15 — list construction, traversal, conversion and indexing consistency,
//! against a Vec-based model (M_list).

use lexpr::{Cons, Value};
use proptest::collection::vec;
use proptest::prelude::*;
use serde::{Deserialize, Serialize};
use serde_json::{json, Value as Json};

use crate::engine::*;
use crate::gen::*;
use crate::mv::*;
use crate::props::Prop;
use crate::util::*;

pub const PROP: Prop = Prop {
    id: "C15",
    level: "exploration",
    rule: "(round 8: == and != against near relatives of each list - prefixes, an extension, another tail, one element changed - in both operand orders, on values and cons cells) (rounds 6-7: the iterators through the std adaptors - last, nth, count, fold, zip, skip, step_by, collect; Value::list and Value::append fed from iterators without a length hint, with a lower bound of zero, exact, boxed dyn, chained, and from the list's own traversal) cases (xs, tail, indices) with xs of length 0..64 (quick) / up to 10^4 (thorough) over elements of every kind and tails that are the empty list, atoms of every kind, vectors, proper and dotted lists (which merge); association lists with duplicate keys of each name kind, non-name keys, non-pair entries and improper tails; every non-list kind as an indexing target. Oracle = Vec model: every constructor gives the same value; into_vec/to_vec/to_ref_vec, iter, list_iter (with peek/is_empty at every step), into_iter, get/index by position, name and value, is_list/is_dotted_list are compared with the model. non-trivial = |xs| >= 2 and (tail is not the empty list, or an out-of-range index, or a duplicate key); distinct by digest of the case",
    assumptions: &[
        "a tail that is itself a list merges into the chain (documented for Value::append)",
        "key equality for lookup by value is Value's own ==, modelled structurally with IEEE equality on floats",
    ],
    run,
    replay,
    builds: &["ff"],
};

#[derive(Clone, Debug, Serialize, Deserialize, Hash)]
pub struct ListCase {
    pub xs: Vec<MV>,
    pub tail: MV,
    pub idx: Vec<u64>,
}

#[derive(Clone, Debug, Serialize, Deserialize, Hash)]
pub struct AlistCase {
    /// entries: (key, value) pairs or bare values
    pub entries: Vec<(Option<MV>, MV)>,
    pub tail: MV,
    pub names: Vec<String>,
    pub keys: Vec<MV>,
}

fn fail(sig: String, msg: String, case: Json) -> Failure {
    Failure::new(format!("C15 {}", sig), msg, case)
}

/// Value equality as `==` on `Value` defines it (floats by IEEE ==).
fn mv_eq(a: &MV, b: &MV) -> bool {
    match (a, b) {
        (MV::F(x), MV::F(y)) => f64::from_bits(*x) == f64::from_bits(*y),
        (MV::List(xs, xt), MV::List(ys, yt)) => {
            xs.len() == ys.len() && xs.iter().zip(ys).all(|(x, y)| mv_eq(x, y)) && mv_eq(xt, yt)
        }
        (MV::Vec(xs), MV::Vec(ys)) => xs.len() == ys.len() && xs.iter().zip(ys).all(|(x, y)| mv_eq(x, y)),
        (a, b) => a == b,
    }
}

fn same(v: &Value, m: &MV) -> bool {
    MV::from_value(v) == m.normalize()
}

fn shape_class(tail: &MV, n: usize) -> &'static str {
    match (tail, n) {
        (_, 0) => "empty",
        (MV::Null, _) => "proper",
        (MV::Vec(_), _) => "dotted-vector-tail",
        _ => "dotted",
    }
}

pub fn check_list(c: &ListCase) -> CaseResult {
    let case = || json!({"list": c});
    // the model: merge a list-valued tail
    let (ys, tt): (Vec<MV>, MV) = {
        let mut ys: Vec<MV> = c.xs.iter().map(|x| x.normalize()).collect();
        let mut t = c.tail.normalize();
        if let MV::List(more, t2) = t {
            ys.extend(more);
            t = *t2;
        }
        (ys, t)
    };
    let n = ys.len();
    let shape = shape_class(&tt, n);
    let r = catch(|| -> Result<(), (String, String)> {
        let elems = || c.xs.iter().map(|x| x.to_value()).collect::<Vec<Value>>();
        let tailv = || c.tail.to_value();
        let model_value = if n == 0 { tt.clone() } else { MV::List(ys.clone(), Box::new(tt.clone())) };
        // ---- constructors
        let l = Value::append(elems(), tailv());
        let mut alts: Vec<(&str, Value)> = Vec::new();
        {
            let mut acc = tailv();
            for x in elems().into_iter().rev() {
                acc = Value::cons(x, acc);
            }
            alts.push(("cons-chain", acc));
            let mut acc = tailv();
            for x in elems().into_iter().rev() {
                acc = Value::from((x, acc));
            }
            alts.push(("from-pair", acc));
            let mut acc = tailv();
            for x in elems().into_iter().rev() {
                acc = Value::from(Cons::new(x, acc));
            }
            alts.push(("cons-new", acc));
            if c.tail == MV::Null {
                alts.push(("list", Value::list(elems())));
            }
            // the same elements from iterators of other shapes: no length hint
            // at all, a lower bound of zero, an exact length, an over-estimate,
            // a by-reference iterator of something convertible
            alts.push(("append-filter-iter", Value::append(elems().into_iter().filter(|_| true), tailv())));
            alts.push(("append-from_fn", {
                let mut it = elems().into_iter();
                Value::append(std::iter::from_fn(move || it.next()), tailv())
            }));
            alts.push(("append-chain", {
                let e = elems();
                let k = e.len() / 2;
                let (a, b) = (e[..k].to_vec(), e[k..].to_vec());
                Value::append(a.into_iter().chain(b.into_iter().skip_while(|_| false)), tailv())
            }));
            alts.push(("append-vecdeque", Value::append(elems().into_iter().collect::<std::collections::VecDeque<Value>>(), tailv())));
            alts.push(("append-rev-rev", Value::append(elems().into_iter().rev().collect::<Vec<_>>().into_iter().rev(), tailv())));
            alts.push(("append-flat_map", Value::append(elems().into_iter().flat_map(|x| std::iter::once(x)), tailv())));
            if c.tail == MV::Null {
                alts.push(("list-filter-iter", Value::list(elems().into_iter().filter(|_| true))));
                alts.push(("list-take_while", Value::list(elems().into_iter().take_while(|_| true))));
                alts.push(("list-boxed-dyn", Value::list(Box::new(elems().into_iter()) as Box<dyn Iterator<Item = Value>>)));
            }
            if n > 0 {
                // a list rebuilt from its own traversal (with the tail left after merging)
                if let Some(it) = l.list_iter() {
                    alts.push(("append-own-list_iter", Value::append(it.cloned(), tt.to_value())));
                }
            }
        }
        if !same(&l, &model_value) {
            return Err((
                format!("op=append shape={}", shape),
                format!("Value::append gave {} for model {}", short(&l), short(&model_value)),
            ));
        }
        for (name, v) in &alts {
            if *v != l || !same(v, &model_value) {
                return Err((
                    format!("op=ctor-{} shape={}", name, shape),
                    format!("constructor {} gave {} but append gave {}", name, short(v), short(&l)),
                ));
            }
        }
        // ---- equality against near relatives: a prefix, an extension, another
        // tail, one element changed - `==` and `!=` in both operand orders, on
        // values and on cons cells, agree with the model
        let has_nan = model_value.any(&|m| matches!(m, MV::F(b) if f64::from_bits(*b).is_nan()));
        if n > 0 && !has_nan {
            let mut relatives: Vec<(&'static str, MV)> = Vec::new();
            for k in [1usize, n / 2, n.saturating_sub(1)] {
                if k > 0 && k < n {
                    relatives.push(("prefix-same-tail", MV::List(ys[..k].to_vec(), Box::new(tt.clone()))));
                    relatives.push(("prefix-proper", MV::list(ys[..k].to_vec())));
                }
            }
            let mut ext = ys.clone();
            ext.push(ys[0].clone());
            relatives.push(("extension", MV::List(ext.clone(), Box::new(tt.clone()))));
            relatives.push(("extension-proper", MV::list(ext)));
            relatives.push(("other-tail", MV::List(ys.clone(), Box::new(if tt == MV::Null { MV::U(0) } else { MV::Null }))));
            relatives.push(("same", MV::List(ys.clone(), Box::new(tt.clone()))));
            let mut changed = ys.clone();
            let last = changed.len() - 1;
            changed[last] = if changed[last] == MV::U(0) { MV::U(1) } else { MV::U(0) };
            relatives.push(("last-element-changed", MV::List(changed, Box::new(tt.clone()))));
            let me = model_value.normalize();
            for (name, r) in relatives {
                let r = r.normalize();
                let rv = r.to_value();
                let want = r == me;
                let got = [l == rv, rv == l, !(l != rv), !(rv != l), l.as_cons() == rv.as_cons(), rv.as_cons() == l.as_cons()];
                if got.iter().any(|g| *g != want) {
                    return Err((
                        format!("op=eq relative={} shape={}", name, shape),
                        format!("{} compared with its {} {}: expected equal={}, got (l==r, r==l, !(l!=r), !(r!=l), cons l==r, cons r==l) = {:?}", short(&l), name, short(&rv), want, got),
                    ));
                }
            }
        }
        // ---- predicates
        let (il, idl) = (l.is_list(), l.is_dotted_list());
        let (eil, eidl) = if n == 0 {
            match &tt {
                MV::Null => (true, false),
                _ => (false, true),
            }
        } else {
            (tt == MV::Null, tt != MV::Null)
        };
        if (il, idl) != (eil, eidl) {
            return Err((
                format!("op=is_list/is_dotted_list shape={}", shape),
                format!("is_list={} is_dotted_list={} on {}, expected {} {}", il, idl, short(&model_value), eil, eidl),
            ));
        }
        // ---- Value-level conversions
        let proper = tt == MV::Null && (n > 0 || c.tail.normalize() == MV::Null);
        let is_listish = n > 0 || tt == MV::Null;
        let tv = l.to_vec();
        let trv = l.to_ref_vec();
        let exp_vec: Option<Vec<MV>> = if proper && is_listish { Some(ys.clone()) } else { None };
        let got_vec = tv.as_ref().map(|v| v.iter().map(MV::from_value).collect::<Vec<_>>());
        let got_rvec = trv.as_ref().map(|v| v.iter().map(|x| MV::from_value(x)).collect::<Vec<_>>());
        if got_vec != exp_vec || got_rvec != exp_vec {
            return Err((
                format!("op=Value::to_vec shape={}", shape),
                format!("Value::to_vec/to_ref_vec = {}/{} expected {}", short(&got_vec), short(&got_rvec), short(&exp_vec)),
            ));
        }
        // list_iter on the value
        let exp_seq: Vec<Option<MV>> = {
            let mut s: Vec<Option<MV>> = ys.iter().cloned().map(Some).collect();
            if n > 0 && tt != MV::Null {
                s.push(None);
                s.push(Some(tt.clone()));
            }
            s
        };
        match l.list_iter() {
            None => {
                if is_listish {
                    return Err((format!("op=Value::list_iter shape={}", shape), "list_iter() is None on a list".into()));
                }
            }
            Some(mut it) => {
                if !is_listish {
                    return Err((format!("op=Value::list_iter shape={}", shape), "list_iter() is Some on a non-list".into()));
                }
                for step in 0..exp_seq.len() + 3 {
                    let want = exp_seq.get(step).cloned().unwrap_or(None);
                    let want_empty = step >= exp_seq.len();
                    let pk = it.peek().map(MV::from_value);
                    let ie = it.is_empty();
                    let nx = it.next().map(MV::from_value);
                    if pk != want || nx != want || ie != want_empty {
                        return Err((
                            format!("op=list_iter shape={} at={}", shape, if step < n { "element" } else if step < exp_seq.len() { "dot/rest" } else { "end" }),
                            format!("list_iter step {} of {}: peek={} is_empty={} next={}, expected {} / {}", step, short(&model_value), short(&pk), ie, short(&nx), short(&want), want_empty),
                        ));
                    }
                }
            }
        }
        // ---- positional indexing
        let mut idxs: Vec<usize> = c.idx.iter().map(|i| *i as usize).collect();
        idxs.extend([0, n.saturating_sub(1), n, n + 1, usize::MAX]);
        for i in idxs {
            let want: Option<MV> = if n > 0 { ys.get(i).cloned() } else { match &tt { MV::Vec(xs) => xs.get(i).cloned(), _ => None } };
            let got = l.get(i).map(MV::from_value);
            let got_idx = MV::from_value(&l[i]);
            let want_idx = want.clone().unwrap_or(MV::Nil);
            if got != want || got_idx != want_idx {
                return Err((
                    format!("op=index-usize shape={} where={}", shape, if i < n { "in-range" } else { "out-of-range" }),
                    format!("get({})={} [{}]={} on {}, expected {}", i, short(&got), i, short(&got_idx), short(&model_value), short(&want)),
                ));
            }
        }
        // ---- Cons-level API
        if let Value::Cons(cell) = &l {
            let (v1, t1) = cell.to_vec();
            let (v2, t2) = cell.to_ref_vec();
            let (v3, t3) = cell.clone().into_vec();
            let a = (v1.iter().map(MV::from_value).collect::<Vec<_>>(), MV::from_value(&t1));
            let b = (v2.iter().map(|x| MV::from_value(x)).collect::<Vec<_>>(), MV::from_value(t2));
            let d = (v3.iter().map(MV::from_value).collect::<Vec<_>>(), MV::from_value(&t3));
            let want = (ys.clone(), tt.clone());
            for (name, got) in [("to_vec", &a), ("to_ref_vec", &b), ("into_vec", &d)] {
                if *got != want {
                    return Err((
                        format!("op=Cons::{} shape={}", name, shape),
                        format!("Cons::{} = {} expected {}", name, short(got), short(&want)),
                    ));
                }
            }
            let cells: Vec<MV> = cell.iter().map(|p| MV::from_value(p.car())).collect();
            let cells2: Vec<MV> = (&*cell).into_iter().map(|p| MV::from_value(p.car())).collect();
            if cells != ys || cells2 != ys {
                return Err((
                    format!("op=Cons::iter shape={}", shape),
                    format!("iter() visited {} cells with cars {}, expected {}", cells.len(), short(&cells), short(&ys)),
                ));
            }
            let li: Vec<Option<MV>> = {
                let mut it = cell.list_iter();
                (0..exp_seq.len()).map(|_| it.next().map(MV::from_value)).collect()
            };
            if li != exp_seq {
                return Err((
                    format!("op=Cons::list_iter shape={}", shape),
                    format!("Cons::list_iter yielded {} expected {}", short(&li), short(&exp_seq)),
                ));
            }
            let consumed: Vec<(MV, Option<MV>)> = cell
                .clone()
                .into_iter()
                .map(|(x, r)| (MV::from_value(&x), r.as_ref().map(MV::from_value)))
                .collect();
            let want_consumed: Vec<(MV, Option<MV>)> = ys
                .iter()
                .enumerate()
                .map(|(i, y)| (y.clone(), if i + 1 == n { Some(tt.clone()) } else { None }))
                .collect();
            if consumed != want_consumed {
                return Err((
                    format!("op=Cons::into_iter shape={}", shape),
                    format!("into_iter yielded {} expected {}", short(&consumed), short(&want_consumed)),
                ));
            }
            // as_pair / car / cdr
            let (car, cdr) = cell.as_pair();
            let want_cdr = if n == 1 { tt.clone() } else { MV::List(ys[1..].to_vec(), Box::new(tt.clone())) };
            if MV::from_value(car) != ys[0] || MV::from_value(cdr) != want_cdr || l.as_pair().map(|p| p.0) != Some(cell.car()) {
                return Err((format!("op=as_pair shape={}", shape), "as_pair/car/cdr disagree with the model".into()));
            }
        } else if n > 0 {
            return Err((format!("op=append shape={}", shape), "non-empty list is not a cons".into()));
        }
        // ---- consuming walk through into_pair: every element once, then the tail
        if n <= 2000 {
            let mut cur = l.clone();
            let mut seen: Vec<MV> = Vec::new();
            while let Value::Cons(cell) = cur {
                let (a, d) = cell.into_pair();
                seen.push(MV::from_value(&a));
                cur = d;
            }
            if seen != ys || MV::from_value(&cur) != tt {
                return Err((format!("op=into_pair-walk shape={}", shape), format!("walking with into_pair gives {} elements and tail {}", seen.len(), short(&cur))));
            }
        }
        // ---- the adaptors of std's Iterator trait agree with stepping through
        // next() (an overridden last / nth / count has to give what the
        // default one gives), on all three iterators
        if n > 0 && n <= 2000 {
            let at = c.idx.first().map_or(0, |i| (*i as usize) % n);
            if let Value::Cons(cell) = &l {
                let show = |x: &(Value, Option<Value>)| (MV::from_value(&x.0), x.1.as_ref().map(MV::from_value));
                let stepped: Vec<(MV, Option<MV>)> = {
                    let mut it = cell.clone().into_iter();
                    let mut out = Vec::new();
                    while let Some(x) = it.next() {
                        out.push(show(&x));
                    }
                    out
                };
                let last = cell.clone().into_iter().last().map(|x| show(&x));
                let nth = cell.clone().into_iter().nth(at).map(|x| show(&x));
                let count = cell.clone().into_iter().count();
                let skipped_last = cell.clone().into_iter().skip(at).last().map(|x| show(&x));
                if last != stepped.last().cloned() || nth != stepped.get(at).cloned() || count != stepped.len() || skipped_last != stepped.last().cloned() {
                    return Err((
                        format!("op=into_iter-adaptor shape={}", shape),
                        format!("into_iter(): last {:?} / nth({}) {:?} / count {} disagree with stepping through next() ({} items, last {:?})", last, at, nth, count, stepped.len(), stepped.last()),
                    ));
                }
                let cells: Vec<MV> = cell.iter().map(|c| MV::from_value(c.car())).collect();
                if cell.iter().last().map(|c| MV::from_value(c.car())) != cells.last().cloned()
                    || cell.iter().nth(at).map(|c| MV::from_value(c.car())) != cells.get(at).cloned()
                    || cell.iter().count() != cells.len()
                    || cells != ys
                {
                    return Err((format!("op=iter-adaptor shape={}", shape), "iter(): last / nth / count disagree with stepping through next()".into()));
                }
                // (the element iterator is not fused: the adaptors stop at its first None, after xs)
                let li: Vec<MV> = cell.list_iter().map(MV::from_value).collect();
                if cell.list_iter().last().map(MV::from_value) != li.last().cloned()
                    || cell.list_iter().nth(at).map(MV::from_value) != li.get(at).cloned()
                    || cell.list_iter().count() != li.len()
                    || li != ys
                {
                    return Err((format!("op=list_iter-adaptor shape={}", shape), "list_iter(): last / nth / count disagree with stepping through next()".into()));
                }
            }
        }
        // ---- the mutable accessors change exactly the cell they are applied to
        if n > 0 && n <= 2000 {
            let at = c.idx.first().map_or(0, |i| (*i as usize) % n);
            for how in ["set_car", "car_mut", "peek_mut"] {
                let mut m = l.clone();
                let marker = Value::symbol("replaced-element");
                match how {
                    "peek_mut" => {
                        // the consuming iterator lets the caller edit the cell it is about to yield
                        let mut out: Vec<MV> = Vec::new();
                        if let Value::Cons(cell) = m {
                            let mut it = cell.into_iter();
                            let mut i = 0;
                            loop {
                                if i == at {
                                    if let Some(cur) = it.peek_mut() {
                                        cur.set_car(marker.clone());
                                    }
                                }
                                match it.next() {
                                    Some((x, _)) => out.push(MV::from_value(&x)),
                                    None => break,
                                }
                                i += 1;
                            }
                        }
                        let mut want = ys.clone();
                        want[at] = MV::sym("replaced-element");
                        if out != want {
                            return Err((format!("op=peek_mut shape={}", shape), format!("editing element {} through IntoIter::peek_mut gives {:?}", at, out.iter().map(short).collect::<Vec<_>>())));
                        }
                        continue;
                    }
                    _ => {
                        fn nth_cell(v: &mut Value, k: usize) -> Option<&mut Cons> {
                            let cell = v.as_cons_mut()?;
                            if k == 0 {
                                Some(cell)
                            } else {
                                nth_cell(cell.cdr_mut(), k - 1)
                            }
                        }
                        if let Some(cell) = nth_cell(&mut m, at) {
                            if how == "set_car" {
                                cell.set_car(marker.clone());
                            } else {
                                *cell.car_mut() = marker.clone();
                            }
                        }
                    }
                }
                let mut want = ys.clone();
                want[at] = MV::sym("replaced-element");
                let want_v = MV::List(want, Box::new(tt.clone()));
                if MV::from_value(&m) != want_v {
                    return Err((format!("op={} shape={}", how, shape), format!("replacing element {} gives {}", at, short(&m))));
                }
            }
        }
        Ok(())
    });
    match r {
        Err(pm) => Err(fail(format!("op=list panic={}", panic_sig(&pm)), format!("panicked: {}", pm), case())),
        Ok(Err((sig, msg))) => Err(fail(sig, msg, case())),
        Ok(Ok(())) => {
            let nt = n >= 2 && (tt != MV::Null || c.idx.iter().any(|i| *i as usize >= n));
            let mut ev = Eval::new(nt, digest_of(c)).class(match shape {
                "empty" => "list:empty",
                "proper" => "list:proper",
                "dotted" => "list:dotted",
                _ => "list:dotted-vector-tail",
            });
            if matches!(c.tail, MV::List(..)) {
                ev = ev.class("list:tail-is-list");
            }
            ev = ev.class(match n {
                0 => "len:0",
                1 => "len:1",
                2 => "len:2",
                3..=64 => "len:3-64",
                _ => "len:>64",
            });
            Ok(ev)
        }
    }
}

pub fn check_alist(c: &AlistCase) -> CaseResult {
    let case = || json!({"alist": c});
    let entries: Vec<MV> = c
        .entries
        .iter()
        .map(|(k, v)| match k {
            Some(k) => MV::List(vec![k.clone()], Box::new(v.clone())).normalize(),
            None => v.normalize(),
        })
        .collect();
    // the tail must not be a list here (it would add entries); generator guarantees it
    let model = if entries.is_empty() { c.tail.normalize() } else { MV::List(entries.clone(), Box::new(c.tail.normalize())) };
    let dup = {
        let names: Vec<Option<String>> = c.entries.iter().map(|(k, _)| match k { Some(MV::Str(s)) | Some(MV::Sym(s)) | Some(MV::Kw(s)) => Some(s.clone()), _ => None }).collect();
        names.iter().enumerate().any(|(i, a)| a.is_some() && names[..i].contains(a))
    };
    let r = catch(|| -> Result<(), (String, String)> {
        let l = model.to_value();
        let entry_pair = |e: &MV| -> Option<(MV, MV)> {
            match e {
                MV::List(xs, t) => {
                    let car = xs[0].clone();
                    let cdr = if xs.len() == 1 { (**t).clone() } else { MV::List(xs[1..].to_vec(), t.clone()) };
                    Some((car, cdr))
                }
                _ => None,
            }
        };
        let is_list_target = matches!(model, MV::List(..));
        for name in &c.names {
            let want: Option<MV> = if is_list_target {
                entries.iter().filter_map(entry_pair).find(|(k, _)| match k {
                    MV::Str(s) | MV::Sym(s) | MV::Kw(s) => s == name,
                    _ => false,
                }).map(|(_, v)| v)
            } else {
                None
            };
            let owned: String = name.clone();
            let gots = [
                l.get(name.as_str()).map(MV::from_value),
                l.get(owned.clone()).map(MV::from_value),
                l.get(&owned).map(MV::from_value),
            ];
            for (i, g) in gots.iter().enumerate() {
                if *g != want {
                    return Err((
                        format!("op=index-name form={} target={}", ["&str", "String", "&String"][i], model.kind()),
                        format!("lookup of {:?} in {} gave {} expected {}", name, short(&model), short(g), short(&want)),
                    ));
                }
            }
            let by_index = MV::from_value(&l[name.as_str()]);
            if by_index != want.clone().unwrap_or(MV::Nil) {
                return Err((
                    format!("op=index-name form=[] target={}", model.kind()),
                    format!("[{:?}] on {} gave {} expected {}", name, short(&model), short(&by_index), short(&want)),
                ));
            }
        }
        for key in &c.keys {
            let want: Option<MV> = if is_list_target {
                entries.iter().filter_map(entry_pair).find(|(k, _)| mv_eq(k, &key.normalize())).map(|(_, v)| v)
            } else {
                None
            };
            let kv = key.to_value();
            let got = l.get(&kv).map(MV::from_value);
            let got_idx = MV::from_value(&l[&kv]);
            if got != want || got_idx != want.clone().unwrap_or(MV::Nil) {
                return Err((
                    format!("op=index-value key={} target={}", key.kind(), model.kind()),
                    format!("lookup of key {} in {} gave {} / {} expected {}", short(key), short(&model), short(&got), short(&got_idx), short(&want)),
                ));
            }
        }
        // positional access on any target never panics
        for i in [0usize, 1, 7, usize::MAX] {
            let _ = l.get(i);
            let _ = &l[i];
        }
        // the same entries held by a non-list are not an association list:
        // a vector of them, a byte vector, a string spelled like a key
        if !entries.is_empty() {
            let others = [MV::Vec(entries.clone()), MV::Vec(vec![MV::list(entries.clone())]), MV::Str(c.names[0].clone()), MV::Sym(c.names[0].clone()), MV::Bytes(c.names[0].as_bytes().to_vec())];
            for o in &others {
                let ov = o.to_value();
                for name in &c.names {
                    if ov.get(name.as_str()).is_some() || !ov[name.as_str()].is_nil() || ov.get(name.clone()).is_some() {
                        return Err((
                            format!("op=index-name target={}-of-entries", o.kind()),
                            format!("lookup of {:?} in the non-list {} gave {}", name, short(o), short(&ov.get(name.as_str()).map(MV::from_value))),
                        ));
                    }
                }
                for key in &c.keys {
                    let kv = key.to_value();
                    if ov.get(&kv).is_some() || !ov[&kv].is_nil() {
                        return Err((
                            format!("op=index-value target={}-of-entries", o.kind()),
                            format!("lookup of key {} in the non-list {} gave {}", short(key), short(o), short(&ov.get(&kv).map(MV::from_value))),
                        ));
                    }
                }
            }
        }
        Ok(())
    });
    match r {
        Err(pm) => Err(fail(format!("op=alist panic={}", panic_sig(&pm)), format!("panicked: {}", pm), case())),
        Ok(Err((sig, msg))) => Err(fail(sig, msg, case())),
        Ok(Ok(())) => {
            let nt = entries.len() >= 2 && (dup || c.tail != MV::Null);
            let mut ev = Eval::new(nt, digest_of(c));
            ev = ev.class(if matches!(model, MV::List(..)) { "alist:list-target" } else { "alist:non-list-target" });
            if dup {
                ev = ev.class("alist:duplicate-key");
            }
            if c.entries.iter().any(|(k, _)| k.is_none()) {
                ev = ev.class("alist:non-pair-entry");
            }
            if c.tail != MV::Null && !entries.is_empty() {
                ev = ev.class("alist:improper-tail");
            }
            Ok(ev)
        }
    }
}

fn g_elem() -> BS<MV> {
    let cfg = ValueCfg::default_dialect(2, 8);
    prop_oneof![
        5 => g_atom(cfg),
        2 => g_value(cfg),
        1 => Just(MV::Null),
    ]
    .boxed()
}

fn g_tail() -> BS<MV> {
    let cfg = ValueCfg::default_dialect(2, 6);
    prop_oneof![
        4 => Just(MV::Null),
        4 => g_atom(cfg),
        1 => vec(g_atom(cfg), 0..3).prop_map(MV::Vec),
        2 => vec(g_atom(cfg), 1..4).prop_map(MV::list),
        1 => (vec(g_atom(cfg), 1..3), g_atom(cfg)).prop_map(|(xs, t)| MV::List(xs, Box::new(t)).normalize()),
    ]
    .boxed()
}

fn g_list_case(min: usize, max: usize) -> BS<ListCase> {
    let len = if min > 0 {
        (min..=max).boxed()
    } else {
        prop_oneof![3 => 0usize..3, 5 => 0usize..=max.min(12), 2 => 0usize..=max].boxed()
    };
    len.prop_flat_map(|n| (vec(g_elem(), n), g_tail(), vec(prop_oneof![3 => 0u64..80, 1 => any::<u64>()], 0..4)))
        .prop_map(|(xs, tail, idx)| ListCase { xs, tail, idx })
        .boxed()
}

fn g_alist_case() -> BS<AlistCase> {
    let name = prop_oneof![Just("a"), Just("b"), Just("key"), Just("nil"), Just("é"), Just(""), Just("t"), Just("#nil"), Just("#t"), Just("()")].prop_map(|s| s.to_string());
    let cfg = ValueCfg::default_dialect(2, 6);
    let key = prop_oneof![
        3 => name.clone().prop_map(MV::Str),
        3 => name.clone().prop_map(MV::Sym),
        2 => name.clone().prop_map(MV::Kw),
        2 => (0u64..4).prop_map(MV::U),
        1 => prop_oneof![Just(MV::f(0.0)), Just(MV::f(-0.0)), Just(MV::f(1.5))],
        1 => g_atom(cfg),
        // keys that are not names but are spelled like one
        1 => prop_oneof![Just(MV::Nil), Just(MV::Null), Just(MV::Bool(true)), Just(MV::Bool(false)), Just(MV::Char('a' as u32)), Just(MV::Bytes(b"a".to_vec()))],
        1 => vec((0u64..3).prop_map(MV::U), 1..3).prop_map(MV::list),
    ];
    let entry = prop_oneof![
        6 => (key.clone().prop_map(Some), g_elem()),
        1 => (Just(None), g_atom(cfg)),
    ];
    let tail = prop_oneof![4 => Just(MV::Null), 1 => g_atom(cfg).prop_map(|a| if matches!(a, MV::List(..)) { MV::U(0) } else { a })];
    (vec(entry, 0..8), tail, vec(name, 1..4), vec(key, 1..4))
        .prop_map(|(entries, tail, names, keys)| AlistCase { entries, tail, names, keys })
        .boxed()
}

fn run(ctx: &mut Ctx) {
    let tier = ctx.tier;
    use rayon::prelude::*;
    let parent = &*ctx;
    let children: Vec<Ctx> = (0..16u32)
        .into_par_iter()
        .map(|w| {
            let mut c = parent.fork();
            c.run_prop(&format!("lists/{}", w), tier.pick(2_500, 40_000), g_list_case(0, 64), check_list);
            c.run_prop(&format!("alists/{}", w), tier.pick(1_500, 25_000), g_alist_case(), check_alist);
            c.run_prop(
                &format!("long-lists/{}", w),
                tier.pick(3, 20),
                g_list_case(65, tier.pick(2_000, 10_000)),
                check_list,
            );
            c
        })
        .collect();
    for c in children {
        ctx.absorb(c);
    }
    for c in ctx.sample_values("lists", &g_list_case(0, 8), 4) {
        ctx.add_sample("lists", json!({"xs": short(&c.xs), "tail": short(&c.tail), "idx": c.idx}));
    }
    for c in ctx.sample_values("alists", &g_alist_case(), 3) {
        ctx.add_sample("alists", json!({"entries": short(&c.entries), "tail": short(&c.tail), "names": c.names}));
    }
    ctx.required_classes = vec![
        "list:empty", "list:proper", "list:dotted", "list:dotted-vector-tail", "list:tail-is-list",
        "len:0", "len:1", "len:2", "len:3-64", "len:>64",
        "alist:list-target", "alist:non-list-target", "alist:duplicate-key", "alist:non-pair-entry", "alist:improper-tail",
    ];
}

fn replay(_sub: &str, case: &Json) -> Option<CaseResult> {
    if let Some(l) = case.get("list") {
        let c: ListCase = serde_json::from_value(l.clone()).ok()?;
        return Some(check_list(&c));
    }
    if let Some(a) = case.get("alist") {
        let c: AlistCase = serde_json::from_value(a.clone()).ok()?;
        return Some(check_alist(&c));
    }
    None
}

/// libFuzzer entry: a generated list or association-list case.
pub fn fuzz(f: &mut FuzzIn) -> Option<CaseResult> {
    if f.mode % 2 == 0 {
        let c = f.draw(&g_list_case(0, 48))?;
        Some(check_list(&c))
    } else {
        let c = f.draw(&g_alist_case())?;
        Some(check_alist(&c))
    }
}
