//! C03 — parsing is total (any bytes, any options -> value or error) and
//! recursion is bounded.

use std::io::Cursor;
use std::time::Duration;

use lexpr::parse::Parser;
use proptest::collection::vec;
use proptest::prelude::*;
use rayon::prelude::*;
use serde::{Deserialize, Serialize};
use serde_json::{json, Value as Json};

use crate::child::{self, ChildOutcome};
use crate::engine::*;
use crate::gen::*;
use crate::gen_text::*;
use crate::mv::*;
use crate::opts::*;
use crate::props::Prop;
use crate::util::*;

pub const PROP: Prop = Prop {
    id: "C03",
    level: "exploration",
    rule: "(round 8: character literals followed by non-ASCII characters whose UTF-8 form ends in 0x80/0xBF and by stray bytes; a NUL byte inside generated inputs) (rounds 6-7: a stream that answers WouldBlock for ever - a call that polls more than 140 times counts as not returning; a stream that fails transiently 1-100 levels inside a list, vector, quotation or dotted chain, 1-7 times, after which the same parser must still accept a datum nested 100 levels) (a) every byte string of length <= 2 (quick) / <= 3 (thorough) under 8 representative plus seeded parser option sets; (b) token-alphabet sequences, (c) mutations of printed text, (d) string and character literals in every escape spelling of both syntaxes with code points at every boundary of the scalar-value range (surrogates, 10FFFF, 110000, 2^32-1), truncated and with trailing junk, and arbitrary bytes, each under sampled option sets (all 1536 reachable), three sources, value and datum API, single-shot and iterated with a cap of len+2 calls - all in-process under catch_unwind; (e) pathological shapes in child processes on a 2 MiB stack: n = 10^3..10^6 repetitions of every opener ( [ #( ' ` , ,@ '(a . ' #u8( \" \"\\ #\\ ; and generated mixtures, unterminated and well-formed, flat runs of 2*10^5 (10^6) comment lines, whitespace bytes and complete tokens followed by a probe datum, plus hundreds of over-deep groups in one iterated stream followed by a shallow probe datum; (f) well-formed nesting of depth 1..100 through every nesting construct and mixtures must be accepted, depth >= 200 must be rejected. non-trivial = the input is not accepted as a single atom; every child case counts; distinct by digest of (input or shape, options, api)",
    assumptions: &[
        "the documented recursion limit is 128; depths between 101 and 199 are not asserted either way",
        "a child killed by a signal is an abort (violation); a child exceeding the 60 s watchdog is reported as inconclusive, never as a violation",
    ],
    run,
    replay,
    builds: &["ff"],
};

#[derive(Clone, Debug, Serialize, Deserialize, Hash)]
pub struct Shape {
    /// sequence of openers repeated n times
    pub unit: Vec<String>,
    pub n: usize,
    /// add the matching closers (well-formed input)
    pub close: bool,
    /// number of such groups in one stream (each on its own line)
    pub groups: usize,
    pub q: usize,
    /// 0 str, 1 slice, 2 reader
    pub source: u8,
    pub datum: bool,
    pub iterated: bool,
    /// append a shallow probe datum after the groups
    pub probe: bool,
}

fn closer_of(open: &str, q: &QOpt) -> &'static str {
    match open {
        "(" | "#(" | "(a . " | "#u8(" | "(a " => ")",
        "[" | "[a " => "]",
        _ => {
            let _ = q;
            ""
        }
    }
}

fn nesting_levels(open: &str) -> usize {
    match open {
        "(" | "[" | "#(" | "'" | "`" | "," | ",@" | "(a . " | "(a " | "[a " => 1,
        _ => 0,
    }
}

pub fn shape_input(s: &Shape) -> Vec<u8> {
    let q = QOpt::from_index(s.q);
    let mut one = Vec::new();
    for _ in 0..s.n {
        for u in &s.unit {
            one.extend_from_slice(u.as_bytes());
        }
    }
    if s.close {
        one.extend_from_slice(b"a");
        for _ in 0..s.n {
            for u in s.unit.iter().rev() {
                one.extend_from_slice(closer_of(u, &q).as_bytes());
            }
        }
    }
    let mut out = Vec::new();
    for _ in 0..s.groups.max(1) {
        out.extend_from_slice(&one);
        out.push(b'\n');
    }
    if s.probe {
        out.extend_from_slice(b"(probe 1)\n");
    }
    out
}

fn drive_shape(s: &Shape) -> Json {
    let input = shape_input(s);
    let q = QOpt::from_index(s.q).to_lexpr();
    // every call consumes at least one byte or reports the end (C12), so this
    // many calls always reach the end of the input
    let cap = input.len() + 10;
    let mut oks = 0usize;
    let mut errs = 0usize;
    let mut first: Option<String> = None;
    let mut last_ok: Option<String> = None;
    let mut distinct_errors: Vec<String> = Vec::new();
    let mut ended = false;
    let mut calls = 0usize;
    macro_rules! go {
        ($p:expr) => {{
            let mut p = $p;
            loop {
                if calls >= cap {
                    break;
                }
                calls += 1;
                let r: Result<Option<String>, String> = if s.datum {
                    p.next_datum().map(|o| o.map(|d| clip(&d.value().to_string(), 40))).map_err(|e| err_text(&e))
                } else {
                    p.next_value().map(|o| o.map(|v| clip(&v.to_string(), 40))).map_err(|e| err_text(&e))
                };
                match r {
                    Ok(Some(t)) => {
                        oks += 1;
                        if first.is_none() {
                            first = Some("ok".into());
                        }
                        last_ok = Some(t);
                    }
                    Ok(None) => {
                        ended = true;
                        break;
                    }
                    Err(e) => {
                        errs += 1;
                        if first.is_none() {
                            first = Some(format!("err:{}", e));
                        }
                        if !distinct_errors.contains(&e) && distinct_errors.len() < 8 {
                            distinct_errors.push(e);
                        }
                    }
                }
                if !s.iterated {
                    break;
                }
            }
        }};
    }
    match (s.source, std::str::from_utf8(&input)) {
        (0, Ok(t)) => go!(Parser::from_str_custom(t, q)),
        (2, _) => go!(Parser::from_reader_custom(Cursor::new(&input[..]), q)),
        _ => go!(Parser::from_slice_custom(&input, q)),
    }
    json!({"oks": oks, "errs": errs, "first": first, "last_ok": last_ok, "errors": distinct_errors, "ended": ended, "calls": calls, "len": input.len()})
}

pub fn child_main(spec: &str) -> i32 {
    let s: Shape = match serde_json::from_str(spec) {
        Ok(s) => s,
        Err(e) => {
            eprintln!("bad spec: {}", e);
            return 2;
        }
    };
    child::run_on_small_stack(move || drive_shape(&s))
}

fn shape_name(s: &Shape) -> String {
    format!(
        "unit={} {} n={} groups={}",
        s.unit.concat().replace(' ', "_"),
        if s.close { "closed" } else { "open" },
        match s.n {
            0..=100 => "<=100",
            101..=199 => "101-199",
            200..=9999 => "200-9999",
            _ => ">=10^4",
        },
        if s.groups > 1 { "many" } else { "1" }
    )
}

/// Judge a child outcome against the shape.
pub fn judge(s: &Shape, out: &ChildOutcome) -> Result<CaseResult, String> {
    let case = json!({"shape": s});
    let api = format!("api={}{} src={}", if s.datum { "datum" } else { "value" }, if s.iterated { "-iter" } else { "" }, ["str", "slice", "reader"][s.source as usize % 3]);
    let depth: usize = s.n * s.unit.iter().map(|u| nesting_levels(u)).sum::<usize>();
    let pure = s.unit.iter().all(|u| nesting_levels(u) == 1);
    let name = shape_name(s);
    let fail = |sig: String, msg: String| Ok(Err(Failure::new(format!("C03 {} {}", sig, name), format!("{} [{}; parser options #{}]", msg, api, s.q), case.clone())));
    match out {
        ChildOutcome::Timeout => Err(format!("watchdog expired for shape {} ({})", name, api)),
        ChildOutcome::SpawnError(e) => Err(format!("cannot spawn child: {}", e)),
        ChildOutcome::Signal(sig, err) => fail(
            format!("mode=abort signal={}", sig),
            format!("the process was killed by signal {} (stack overflow?) on {} repetitions of {:?}: {}", sig, s.n, s.unit.concat(), clip(err, 200)),
        ),
        ChildOutcome::Exit(code, text) => fail(
            format!("mode=panic-or-exit code={}", code),
            format!("the child exited with status {} on {} repetitions of {:?}: {}", code, s.n, s.unit.concat(), clip(text, 300)),
        ),
        ChildOutcome::Result(j) => {
            let oks = j["oks"].as_u64().unwrap_or(0) as usize;
            let errs = j["errs"].as_u64().unwrap_or(0) as usize;
            let first = j["first"].as_str().unwrap_or("").to_string();
            let ended = j["ended"].as_bool().unwrap_or(false);
            let errors: Vec<String> = j["errors"].as_array().map(|a| a.iter().filter_map(|e| e.as_str().map(String::from)).collect()).unwrap_or_default();
            if s.iterated && !ended && j["calls"].as_u64().unwrap_or(0) >= j["len"].as_u64().unwrap_or(0) + 10 {
                return fail("mode=no-end".into(), format!("iteration did not reach end of input after {} calls on {} bytes", j["calls"], j["len"]));
            }
            if pure && s.close && depth <= 100 {
                // positive clause: accepted
                let want = s.groups.max(1) + s.probe as usize;
                if !(errs == 0 && (if s.iterated { oks == want } else { oks == 1 })) {
                    return fail(
                        "mode=rejected-shallow".into(),
                        format!("well-formed nesting of depth {} was not accepted: {} ok, {} errors {:?}", depth, oks, errs, errors),
                    );
                }
            }
            if pure && depth >= 200 {
                if !first.starts_with("err:") {
                    return fail(
                        "mode=accepted-over-deep".into(),
                        format!("nesting of depth {} was accepted (first result {:?})", depth, first),
                    );
                }
                if s.close && !first.contains("recursion limit") {
                    return fail(
                        format!("mode=over-deep-other-error err={}", first),
                        format!("well-formed nesting of depth {} is rejected with {:?} instead of the recursion-limit error", depth, first),
                    );
                }
            }
            if s.probe && s.iterated && s.close {
                let last = j["last_ok"].as_str().unwrap_or("");
                if last != "(probe 1)" {
                    return fail(
                        "mode=probe-after-over-deep-groups-rejected".into(),
                        format!("after {} over-deep groups the shallow datum (probe 1) is no longer read (last ok item {:?}, errors {:?})", s.groups, last, errors),
                    );
                }
            }
            let mut ev = Eval::new(true, digest_of(s)).class("child:checked");
            ev = ev.class(if pure && s.close && depth <= 100 { "child:positive-nesting" } else if pure && depth >= 200 { "child:over-deep" } else { "child:other-shape" });
            if s.groups > 1 {
                ev = ev.class("child:many-groups");
            }
            if s.unit.len() > 1 {
                ev = ev.class("child:mixture");
            }
            Ok(Ok(ev))
        }
    }
}

// ------------------------------------------------------------------ in-process totality

#[derive(Clone, Debug, Serialize, Deserialize, Hash)]
pub struct Bytes {
    pub input: Vec<u8>,
    pub q: usize,
}

/// Run every API on every source; returns (accepted as one atom?, had error).
pub fn total(input: &[u8], q: &QOpt) -> Result<(bool, bool), (String, String)> {
    let cap = input.len() + 2;
    let opts = q.to_lexpr();
    let mut single_atom = false;
    let mut had_error = false;
    let s = std::str::from_utf8(input).ok();
    for source in 0..3u8 {
        if source == 0 && s.is_none() {
            continue;
        }
        for api in 0..4u8 {
            let r = catch(|| {
                macro_rules! go {
                    ($p:expr) => {{
                        let mut p = $p;
                        let mut oks = 0usize;
                        let mut errs = 0usize;
                        let mut atom = false;
                        let mut ended = false;
                        match api {
                            0 => match p.expect_value().and_then(|v| p.expect_end().map(|_| v)) {
                                Ok(v) => {
                                    oks = 1;
                                    atom = !(v.is_cons() || v.is_vector());
                                    ended = true;
                                }
                                Err(_) => {
                                    errs = 1;
                                    ended = true;
                                }
                            },
                            1 => match p.expect_datum().and_then(|v| p.expect_end().map(|_| v)) {
                                Ok(_) => {
                                    oks = 1;
                                    ended = true;
                                }
                                Err(_) => {
                                    errs = 1;
                                    ended = true;
                                }
                            },
                            _ => {
                                for _ in 0..cap {
                                    let r = if api == 2 { p.next_value().map(|o| o.is_some()) } else { p.next_datum().map(|o| o.is_some()) };
                                    match r {
                                        Ok(true) => oks += 1,
                                        Ok(false) => {
                                            ended = true;
                                            break;
                                        }
                                        Err(_) => errs += 1,
                                    }
                                }
                            }
                        }
                        (oks, errs, atom, ended)
                    }};
                }
                match source {
                    0 => go!(Parser::from_str_custom(s.unwrap(), opts)),
                    1 => go!(Parser::from_slice_custom(input, opts)),
                    _ => go!(Parser::from_reader_custom(Cursor::new(input), opts)),
                }
            });
            let names = ["value", "datum", "value-iter", "datum-iter"];
            match r {
                Err(pm) => {
                    return Err((
                        format!("mode=panic msg={} api={}", panic_sig(&pm), names[api as usize]),
                        format!("{} on source {} panicked: {}", names[api as usize], ["str", "slice", "reader"][source as usize], pm),
                    ))
                }
                Ok((oks, errs, atom, ended)) => {
                    if !ended {
                        return Err((
                            format!("mode=no-end api={}", names[api as usize]),
                            format!("{} did not reach end of input within len+2 calls ({} ok, {} errors)", names[api as usize], oks, errs),
                        ));
                    }
                    if api == 0 && source == 1 {
                        single_atom = atom && errs == 0;
                    }
                    had_error |= errs > 0;
                }
            }
        }
    }
    // a stream that keeps failing: every call returns (with the error) instead
    // of polling on. The reader here gives up after 1000 polls, so a parser
    // that would never return shows up as a count, not as a hang.
    {
        use std::cell::Cell;
        use std::rc::Rc;
        struct Stuck<'a> {
            data: &'a [u8],
            pos: usize,
            stop: usize,
            polls: Rc<Cell<usize>>,
        }
        impl<'a> std::io::Read for Stuck<'a> {
            fn read(&mut self, out: &mut [u8]) -> std::io::Result<usize> {
                if self.pos >= self.stop {
                    self.polls.set(self.polls.get() + 1);
                    let kind = if self.polls.get() > 1000 { std::io::ErrorKind::Other } else { std::io::ErrorKind::WouldBlock };
                    return Err(std::io::Error::new(kind, "stuck"));
                }
                match (self.data.get(self.pos), out.first_mut()) {
                    (Some(b), Some(o)) => {
                        *o = *b;
                        self.pos += 1;
                        Ok(1)
                    }
                    _ => Ok(0),
                }
            }
        }
        for stop in [0usize, input.len() / 2, input.len()] {
            for datum in [false, true] {
                let polls = Rc::new(Cell::new(0usize));
                let r = catch(|| {
                    let mut p = Parser::from_reader_custom(Stuck { data: input, pos: 0, stop, polls: polls.clone() }, opts);
                    if datum {
                        p.next_datum().map(|_| ())
                    } else {
                        p.next_value().map(|_| ())
                    }
                });
                if let Err(pm) = r {
                    return Err((format!("mode=panic msg={} api=stuck-stream", panic_sig(&pm)), format!("reading from a stream that keeps failing panicked: {}", pm)));
                }
                if polls.get() > 140 {
                    return Err((
                        "mode=no-return api=stuck-stream".into(),
                        format!("a stream that fails with WouldBlock from offset {} on was polled {} times by one call (it would not return on a stream that never recovers)", stop, polls.get()),
                    ));
                }
            }
        }
    }
    Ok((single_atom, had_error))
}

pub fn check_bytes(b: &Bytes, label: &'static str) -> CaseResult {
    let q = QOpt::from_index(b.q);
    match total(&b.input, &q) {
        Ok((atom, err)) => Ok(Eval::new(!atom, mix(digest_of(&b.input), b.q as u64))
            .class(label)
            .class(if err { "outcome:some-error" } else { "outcome:all-ok" })),
        Err((sig, msg)) => Err(Failure::new(
            format!("C03 {}", sig),
            format!("{} [input {:?}, parser options #{}]", msg, bytes_lossy(&b.input), b.q),
            json!({"bytes": b}),
        )),
    }
}

/// Positive nesting clause in-process: depth d <= 100 through a generated
/// mixture of nesting constructs.
#[derive(Clone, Debug, Serialize, Deserialize, Hash)]
pub struct Nest {
    pub kinds: Vec<u8>,
    pub q: usize,
}

pub fn nest_text(n: &Nest) -> (String, usize) {
    let q = QOpt::from_index(n.q);
    let mut open = String::new();
    let mut close: Vec<&str> = Vec::new();
    for k in &n.kinds {
        let (o, c) = match k % 9 {
            0 => ("(", ")"),
            1 => ("[", "]"),
            2 => ("#(", ")"),
            3 => ("'", ""),
            4 => ("`", ""),
            5 => (",", ""),
            6 => (",@", ""),
            7 => ("(a . ", ")"),
            _ => ("(a b ", ")"),
        };
        let _ = q;
        open.push_str(o);
        close.push(c);
    }
    let mut t = open;
    t.push_str("x");
    for c in close.iter().rev() {
        t.push_str(c);
    }
    (t, n.kinds.len())
}

pub fn check_nest(n: &Nest) -> CaseResult {
    let q = QOpt::from_index(n.q);
    let (text, depth) = nest_text(n);
    let case = || json!({"nest": n});
    let r = catch(|| {
        let a = lexpr::from_str_custom(&text, q.to_lexpr()).map(|v| MV::from_value(&v).depth());
        let b = lexpr::datum::from_str_custom(&text, q.to_lexpr()).map(|d| MV::from_value(d.value()).depth());
        let c = lexpr::from_reader_custom(Cursor::new(text.as_bytes()), q.to_lexpr()).map(|v| MV::from_value(&v).depth());
        (a, b, c)
    });
    match r {
        Err(pm) => Err(Failure::new(format!("C03 mode=panic msg={} nest", panic_sig(&pm)), pm, case())),
        Ok((a, b, c)) => {
            for (name, r) in [("value", &a), ("datum", &b), ("reader", &c)] {
                match r {
                    // (value depth is not compared: dotted tails that are lists merge into the chain)
                    Ok(_) => {}
                    Err(e) => {
                        let which = n.kinds.iter().map(|k| k % 9).max().map_or("", |m| if m >= 3 && m <= 6 { "with-shorthand" } else { "brackets" });
                        return Err(Failure::new(
                            format!("C03 mode=rejected-shallow api={} err={} nest {}", name, err_text(e), which),
                            format!("well-formed nesting of depth {} is rejected: {:?}: {}", depth, clip(&text, 200), e),
                            case(),
                        ));
                    }
                }
            }
            let mut ev = Eval::new(true, digest_of(n)).class("nest:accepted");
            if n.kinds.iter().any(|k| (3..=6).contains(&(k % 9))) {
                ev = ev.class("nest:shorthand");
            }
            if n.kinds.iter().any(|k| k % 9 == 7) {
                ev = ev.class("nest:dotted-tail");
            }
            if depth >= 90 {
                ev = ev.class("nest:depth>=90");
            }
            Ok(ev)
        }
    }
}

// ------------------------------------------------------------------ run

fn representative_qs(seed: u64, extra: usize) -> Vec<usize> {
    let mut v = vec![
        0,
        QOpt::elisp().index(),
        QOpt { kw_prefix: true, kw_postfix: true, kw_octo: true, nil: QNil::Special, t_true: true, brackets_vector: true, string: Syn::Elisp, chr: Syn::Elisp, racket: true, digits: true }.index(),
        QOpt { kw_prefix: false, kw_postfix: false, kw_octo: false, nil: QNil::Default, t_true: false, brackets_vector: false, string: Syn::R6RS, chr: Syn::R6RS, racket: false, digits: false }.index(),
        QOpt { digits: true, ..QOpt::default_set() }.index(),
        QOpt { racket: true, brackets_vector: true, ..QOpt::default_set() }.index(),
        QOpt { string: Syn::Elisp, ..QOpt::default_set() }.index(),
        QOpt { chr: Syn::Elisp, kw_postfix: true, ..QOpt::default_set() }.index(),
    ];
    for i in 0..extra {
        v.push((mix(seed, i as u64) % N_QOPT as u64) as usize);
    }
    v.sort();
    v.dedup();
    v
}

fn shapes(tier: Tier, seed: u64) -> Vec<Shape> {
    let openers = ["(", "[", "#(", "'", "`", ",", ",@", "(a . ", "#u8(", "\"", "\"\\", "#\\", ";", "(a ", "#", "#:", "?\\", "\\"];
    let ns: Vec<usize> = match tier {
        Tier::Quick => vec![1_000, 100_000],
        Tier::Thorough => vec![1_000, 100_000, 1_000_000],
    };
    let mut out = Vec::new();
    let qs = representative_qs(seed, 0);
    let mut i = 0u64;
    for o in openers {
        for &n in &ns {
            i += 1;
            let q = qs[(mix(seed, i) % qs.len() as u64) as usize];
            let source = (mix(seed, i + 1000) % 3) as u8;
            let datum = mix(seed, i + 2000) % 2 == 0;
            // datum parsing from str/slice recomputes positions: keep the big ones on the stream
            let source = if datum && n > 10_000 { 2 } else { source };
            out.push(Shape { unit: vec![o.to_string()], n, close: false, groups: 1, q, source, datum, iterated: false, probe: false });
            if tier == Tier::Thorough || n <= 1_000 {
                out.push(Shape { unit: vec![o.to_string()], n, close: false, groups: 1, q, source: 2, datum: !datum, iterated: true, probe: false });
            }
        }
    }
    // well-formed over-deep and positive depths
    for o in ["(", "[", "#(", "'", "`", ",@", "(a . "] {
        for (n, close) in [(100usize, true), (300, true), (100_000, true)] {
            i += 1;
            let q = qs[(mix(seed, i) % qs.len() as u64) as usize];
            out.push(Shape { unit: vec![o.to_string()], n, close, groups: 1, q, source: (i % 3) as u8, datum: i % 2 == 0, iterated: false, probe: false });
        }
    }
    // mixtures
    let mixes: [&[&str]; 6] = [&["(", "'"], &["'", "#("], &["[", "(a . "], &["`", ",", "("], &["#(", "[", "(", "'"], &[",@", "("]];
    for m in mixes {
        for n in [25usize, 300, 50_000] {
            i += 1;
            let q = qs[(mix(seed, i) % qs.len() as u64) as usize];
            let unit: Vec<String> = m.iter().map(|s| s.to_string()).collect();
            out.push(Shape { unit: unit.clone(), n, close: true, groups: 1, q, source: (i % 3) as u8, datum: i % 2 == 1, iterated: false, probe: false });
            out.push(Shape { unit, n, close: false, groups: 1, q, source: 2, datum: i % 2 == 0, iterated: true, probe: false });
        }
    }
    // flat repetition: trivia and complete tokens do not nest, so any number of
    // them in a row has to cost no stack at all (a comment skipper or a
    // token loop written as a self-call would, outside the depth accounting)
    for u in [";c\n", " ;\n\t", "\n", " ", "\r\n", "\u{c}", "a ", "\"s\" ", "1.5 ", "#\\a ", "() ", "#u8() ", "#t\n;x\n"] {
        for datum in [false, true] {
            i += 1;
            let n = tier.pick(200_000, 1_000_000);
            out.push(Shape { unit: vec![u.to_string()], n, close: true, groups: 1, q: if i % 3 == 0 { QOpt::elisp().index() } else { 0 }, source: 2, datum, iterated: true, probe: true });
        }
    }
    // many over-deep groups in one stream, then a probe
    for o in ["(", "#(", "[", "'"] {
        for datum in [false, true] {
            i += 1;
            out.push(Shape { unit: vec![o.to_string()], n: 200, close: true, groups: tier.pick(300, 600), q: 0, source: 2, datum, iterated: true, probe: true });
        }
    }
    out
}

struct FailAt<'a> {
    data: &'a [u8],
    pos: usize,
    fails: Vec<usize>,
}
impl<'a> std::io::Read for FailAt<'a> {
    fn read(&mut self, out: &mut [u8]) -> std::io::Result<usize> {
        if let Some(i) = self.fails.iter().position(|f| *f == self.pos) {
            self.fails.remove(i);
            return Err(std::io::Error::new(std::io::ErrorKind::WouldBlock, "try again"));
        }
        match (self.data.get(self.pos), out.first_mut()) {
            (Some(b), Some(o)) => {
                *o = *b;
                self.pos += 1;
                Ok(1)
            }
            _ => Ok(0),
        }
    }
}

/// A stream that fails transiently `d` levels inside a nest (`reps` times, in
/// `reps` datums), the caller goes on with the same parser: a datum of 100
/// levels later in the stream is still accepted.
fn check_transient(open: &str, d: usize, reps: usize, datum: bool) -> CaseResult {
    let close = match open {
        "(a . (" => "))",
        _ => ")",
    };
    let per = if open == "(a . (" || open == "'(" { 2 } else { 1 };
    let levels = (d / per).max(1);
    let mut text = String::new();
    let mut fails = Vec::new();
    for _ in 0..reps {
        text.push_str(&open.repeat(levels));
        text.push('a');
        fails.push(text.len());
        text.push_str(" b");
        text.push_str(&close.repeat(levels));
        text.push('\n');
    }
    let deep = format!("{}x{}", "(".repeat(100), ")".repeat(100));
    text.push_str(&deep);
    text.push('\n');
    let case = json!({"transient": {"open": open, "depth": d, "reps": reps, "datum": datum}});
    let r = catch(|| {
        let mut p = Parser::from_reader(FailAt { data: text.as_bytes(), pos: 0, fails: fails.clone() });
        let mut last_ok: Option<String> = None;
        let mut errors: Vec<String> = Vec::new();
        for _ in 0..text.len() + 10 {
            let item = if datum { p.next_datum().map(|o| o.map(|d| d.value().to_string())) } else { p.next_value().map(|o| o.map(|v| v.to_string())) };
            match item {
                Ok(Some(t)) => last_ok = Some(t),
                Ok(None) => break,
                Err(e) => {
                    let t = err_text(&e);
                    if !errors.contains(&t) && errors.len() < 6 {
                        errors.push(t);
                    }
                }
            }
        }
        (last_ok, errors)
    });
    match r {
        Err(pm) => Err(Failure::new(format!("C03 mode=panic msg={} api=after-transient-failure", panic_sig(&pm)), pm, case)),
        Ok((last, errors)) if last.as_deref() != Some(deep.as_str()) => Err(Failure::new(
            format!("C03 mode=rejected-shallow after-transient-failure open={}", open.trim()),
            format!("after {} transient read failure(s) {} levels inside {:?} the same parser no longer accepts a datum nested 100 levels (last item read {:?}, errors {:?}) [{} API]", reps, d, open, last.map(|l| clip(&l, 40)), errors, if datum { "datum" } else { "value" }),
            case,
        )),
        Ok(_) => Ok(Eval::new(true, digest_of(&(open, d, reps, datum))).class("transient:then-deep")),
    }
}

fn run(ctx: &mut Ctx) {
    let tier = ctx.tier;
    let seed = ctx.seed;
    // ---- (a) exhaustive short byte strings
    let qs = representative_qs(seed, tier.pick(8, 24));
    let max_len = 2usize;
    let total_inputs: u64 = 1 + 256 + 65536;
    let qs2 = qs.clone();
    ctx.par_sweep("exhaustive<=2", (0u64..total_inputs).into_par_iter().flat_map_iter(move |i| {
        let input: Vec<u8> = if i == 0 { vec![] } else if i <= 256 { vec![(i - 1) as u8] } else { let j = i - 257; vec![(j >> 8) as u8, j as u8] };
        qs2.clone().into_iter().map(move |q| Bytes { input: input.clone(), q })
    }), |b| check_bytes(&b, "exhaustive"));
    ctx.exhaustive.push(format!("every byte string of length <= {} under {} parser option sets, 3 sources x 4 APIs", max_len, qs.len()));
    if tier == Tier::Thorough {
        let qs3: Vec<usize> = qs.iter().copied().take(4).collect();
        ctx.par_sweep("exhaustive=3", (0u32..(1 << 24)).into_par_iter().flat_map_iter(move |j| {
            let input = vec![(j >> 16) as u8, (j >> 8) as u8, j as u8];
            qs3.clone().into_iter().map(move |q| Bytes { input: input.clone(), q })
        }), |b| check_bytes(&b, "exhaustive"));
        ctx.exhaustive.push("every byte string of length 3 under 4 parser option sets".into());
    }
    // ---- (b)-(d) generated
    let parent = &*ctx;
    let max = tier.pick(256, 4096);
    let children: Vec<Ctx> = (0..16u32)
        .into_par_iter()
        .map(|w| {
            let mut c = parent.fork();
            let g = (g_input(max), g_qopt_index()).prop_map(|((input, l), q)| (Bytes { input, q }, l));
            c.run_prop(&format!("generated/{}", w), tier.pick(4_000, 180_000), g, |(b, l)| {
                check_bytes(b, match *l {
                    "tokens" | "tokens-spaced" => "gen:tokens",
                    "printed" => "gen:printed",
                    "mutated" => "gen:mutated",
                    "string-literal" => "gen:string-literal",
                    _ => "gen:anybytes",
                })
            });
            let nest = (vec(0u8..9, 1..=100), g_qopt_index()).prop_map(|(kinds, q)| Nest { kinds, q });
            c.run_prop(&format!("nest/{}", w), tier.pick(300, 6_000), nest, check_nest);
            c
        })
        .collect();
    for c in children {
        ctx.absorb(c);
    }
    // uniform nesting at exactly depth 100 for every construct
    for k in 0u8..9 {
        for q in representative_qs(seed, 0) {
            ctx.observe("nest-100", check_nest(&Nest { kinds: vec![k; 100], q }));
        }
    }
    ctx.flush_failures();
    // ---- (d2) transient stream failures inside a nest, then a deep datum
    for open in ["(", "#(", "'(", "(a . ("] {
        for d in [1usize, 20, 60, 100] {
            for reps in [1usize, 3, 7] {
                for datum in [false, true] {
                    ctx.observe("after-transient-failure", check_transient(open, d, reps, datum));
                }
            }
        }
    }
    ctx.flush_failures();
    // ---- (e) child processes
    let sh = shapes(tier, seed);
    let specs: Vec<Json> = sh.iter().map(|s| serde_json::to_value(s).unwrap()).collect();
    let outs = child::spawn_all("c03", &specs, Duration::from_secs(60), 12);
    for (s, o) in sh.iter().zip(outs.iter()) {
        match judge(s, o) {
            Ok(r) => ctx.observe("child", r),
            Err(inc) => ctx.inconclusive.push(inc),
        }
    }
    ctx.flush_failures();
    for s in sh.iter().take(4) {
        ctx.add_sample("child", json!({"unit": s.unit.concat(), "n": s.n, "closed": s.close, "groups": s.groups, "api": if s.datum { "datum" } else { "value" }, "iterated": s.iterated}));
    }
    for b in ctx.sample_values("generated", &g_input(60), 5) {
        ctx.add_sample("generated", json!({"input": bytes_lossy(&b.0), "from": b.1}));
    }
    ctx.required_classes = vec![
        "exhaustive", "gen:tokens", "gen:printed", "gen:mutated", "gen:string-literal", "gen:anybytes",
        "outcome:some-error", "outcome:all-ok", "nest:accepted", "nest:shorthand", "nest:dotted-tail", "nest:depth>=90",
        "child:checked", "child:positive-nesting", "child:over-deep", "child:other-shape", "child:many-groups", "child:mixture",
    ];
}

fn replay(_sub: &str, case: &Json) -> Option<CaseResult> {
    if let Some(b) = case.get("bytes") {
        let b: Bytes = serde_json::from_value(b.clone()).ok()?;
        return Some(check_bytes(&b, "replay"));
    }
    if let Some(n) = case.get("nest") {
        let n: Nest = serde_json::from_value(n.clone()).ok()?;
        return Some(check_nest(&n));
    }
    if let Some(t) = case.get("transient") {
        return Some(check_transient(t["open"].as_str()?, t["depth"].as_u64()? as usize, t["reps"].as_u64()? as usize, t["datum"].as_bool()?));
    }
    if let Some(s) = case.get("shape") {
        let s: Shape = serde_json::from_value(s.clone()).ok()?;
        let out = child::spawn("c03", &serde_json::to_value(&s).ok()?, Duration::from_secs(60));
        return match judge(&s, &out) {
            Ok(r) => Some(r),
            Err(_) => None,
        };
    }
    None
}

/// libFuzzer entry: raw bytes (mode even) or a generated input (mode odd).
pub fn fuzz(f: &mut FuzzIn) -> Option<CaseResult> {
    if f.mode % 2 == 0 {
        let (q, input) = f.raw_q_input();
        if input.len() > 512 {
            return None;
        }
        return Some(check_bytes(&Bytes { input: input.to_vec(), q }, "gen:anybytes"));
    }
    let ((input, _), q) = f.draw(&(crate::gen_text::g_input(256), crate::gen_text::g_qopt_index()))?;
    Some(check_bytes(&Bytes { input, q }, "gen:tokens"))
}
