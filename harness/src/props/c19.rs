//! C19 — parse errors carry an in-bounds location, convert to io::Error with
//! the documented kind, and truncation is reported as EOF.

use std::io::{self, Cursor};

use proptest::collection::vec;
use proptest::prelude::*;
use rayon::prelude::*;
use serde::{Deserialize, Serialize};
use serde_json::{json, Value as Json};

use crate::engine::*;
use crate::gen::*;
use crate::gen_text::*;
use crate::layout::*;
use crate::mv::*;
use crate::opts::*;
use crate::props::c11::g_layout_value;
use crate::props::Prop;
use crate::util::*;

pub const PROP: Prop = Prop {
    id: "C19",
    level: "exploration",
    rule: "(round 9: byte vectors whose octets use every number spelling, truncated at every byte) (round 8: nests at the measured nesting limit truncated at every byte; dot-, sign- and other one-character tokens at every list position; over-long decimal literals with a negative exponent - the recorded finding) (rounds 6-7: str::parse and the other option-less entry points; the character names of R6RS, R7RS and common extensions and the other fixed vocabularies of Lisp readers, and every generated text the reader accepts as one datum, truncated at every byte) (plus the I/O clause: a stream that fails - with each of four error kinds - before its first byte, or right after the last byte of a complete datum, must give an I/O-category error that converts back to the stream's own error; the predicates is_eof/is_syntax/is_io must agree with classify()) (loc) malformed inputs from the token-alphabet, mutation, string-literal and random-byte generators x sampled parser option sets x three sources x value/datum API: every error's location must satisfy 1 <= line <= lines+1 and column <= length of that line + 1 (bytes), and io::Error::from must give InvalidData for syntax and UnexpectedEof for EOF errors; (trunc) well-formed single-datum texts from G_layout covering every token kind in both dialects (#nil #t #f, radix literals, decimals with fraction and exponent, character names, hex characters, strings with each escape form, byte vectors, shorthands, non-ASCII symbols, Emacs ? forms and string escapes) and EVERY proper byte prefix of each (exhaustive per text): a prefix either parses or fails with category EOF. non-trivial = for trunc a prefix ending strictly inside a token, for loc an error with a location; distinct by digest of (text, cut, options)",
    assumptions: &[
        "only the direction stated is asserted: a malformed input classified as EOF is not a violation",
        "a line's length excludes its terminating newline",
    ],
    run,
    replay,
    builds: &["ff"],
};

#[derive(Clone, Debug, Serialize, Deserialize, Hash)]
pub enum Case {
    Loc { input: Vec<u8>, q: usize },
    Trunc { value: MV, q: usize, choices: Vec<u32>, trivia: u8 },
    /// a literal text (battery)
    TruncText { text: String, q: usize },
}

fn fail(sig: String, msg: String, c: &Case) -> Failure {
    Failure::new(format!("C19 {}", sig), msg, json!({"case": c}))
}

fn check_location(input: &[u8], e: &lexpr::parse::Error) -> Result<(), (String, String)> {
    let cat = category(e);
    if cat == "io" {
        return Ok(());
    }
    let loc = match e.location() {
        Some(l) => l,
        None => return Err((format!("loc missing err={}", err_text(e)), format!("{} error without location: {}", cat, e))),
    };
    let lines: Vec<&[u8]> = input.split(|b| *b == b'\n').collect();
    let nlines = lines.len();
    let (line, col) = (loc.line(), loc.column());
    if line < 1 || line > nlines + 1 {
        return Err((
            format!("loc line-out-of-range err={}", err_text(e)),
            format!("error {} reports line {} but the input has {} lines", e, line, nlines),
        ));
    }
    let len = lines.get(line - 1).map_or(0, |l| l.len());
    if col > len + 1 {
        return Err((
            format!("loc column-out-of-range by={} err={}", col - len - 1, err_text(e)),
            format!("error {} reports column {} but line {} has {} bytes", e, col, line, len),
        ));
    }
    Ok(())
}

fn check_io_kind(make: &dyn Fn() -> Option<lexpr::parse::Error>) -> Result<(), (String, String)> {
    if let Some(e) = make() {
        let cat = category(&e);
        let text = err_text(&e);
        // the three predicates are how a streaming caller asks for the category
        if (e.is_eof(), e.is_syntax(), e.is_io()) != (cat == "eof", cat == "syntax", cat == "io") {
            return Err((
                format!("predicates cat={}", cat),
                format!("{} error {:?}: is_eof={} is_syntax={} is_io={}", cat, text, e.is_eof(), e.is_syntax(), e.is_io()),
            ));
        }
        let ioe: io::Error = e.into();
        let want = match cat {
            "syntax" => io::ErrorKind::InvalidData,
            "eof" => io::ErrorKind::UnexpectedEof,
            _ => return Ok(()),
        };
        if ioe.kind() != want {
            return Err((format!("io-kind cat={} got={:?}", cat, ioe.kind()), format!("{} error {:?} converts to io::ErrorKind::{:?}", cat, text, ioe.kind())));
        }
    }
    Ok(())
}

fn check_loc(c: &Case) -> CaseResult {
    let (input, qi) = match c {
        Case::Loc { input, q } => (input, *q),
        _ => unreachable!(),
    };
    let q = QOpt::from_index(qi);
    let opts = q.to_lexpr();
    let r = catch(|| -> Result<(bool, bool), (String, String)> {
        let mut located = false;
        let mut eof = false;
        type R = Option<lexpr::parse::Error>;
        let runs: Vec<(&str, Box<dyn Fn() -> R + '_>)> = vec![
            ("str", Box::new(|| std::str::from_utf8(input).ok().and_then(|s| lexpr::from_str_custom(s, opts).err()))),
            ("slice", Box::new(|| lexpr::from_slice_custom(input, opts).err())),
            ("reader", Box::new(|| lexpr::from_reader_custom(Cursor::new(&input[..]), opts).err())),
            ("slice-datum", Box::new(|| lexpr::datum::from_slice_custom(input, opts).err())),
            ("reader-datum", Box::new(|| lexpr::datum::from_reader_custom(Cursor::new(&input[..]), opts).err())),
            ("FromStr", Box::new(|| if qi == 0 { std::str::from_utf8(input).ok().and_then(|s| s.parse::<lexpr::Value>().err()) } else { None })),
        ];
        for (src, f) in &runs {
            if let Some(e) = f() {
                located |= e.location().is_some();
                eof |= category(&e) == "eof";
                check_location(input, &e).map_err(|(s, m)| (format!("src={} {}", src, s), m))?;
                check_io_kind(&|| f()).map_err(|(s, m)| (format!("src={} {}", src, s), m))?;
            }
        }
        // "the original error for I/O": a stream that fails before its first
        // byte, or right after its last one when the text is a complete datum
        // (the parser has to look for the end), gives an I/O-category error
        // that converts back to the stream's own error, whatever its kind
        {
            use crate::props::c06::{FaultyRead, Payload, KINDS};
            let full_ok = lexpr::from_slice_custom(input, opts).is_ok();
            for (i, at) in [0usize, input.len()].into_iter().enumerate() {
                if at == input.len() && (!full_ok || input.is_empty()) {
                    continue;
                }
                let kind = KINDS[(digest_of(input) as usize + i) % KINDS.len()];
                let id = 7000 + at as u64;
                let r = lexpr::from_reader_custom(FaultyRead::new(input, &[3], &[], Some((at, kind, id))), opts);
                let ok = match r {
                    Ok(_) => Err("the parse succeeded".to_string()),
                    Err(e) => {
                        if !e.is_io() || e.is_eof() || e.is_syntax() {
                            Err(format!("the error is classified {} ({})", category(&e), e))
                        } else {
                            let back: io::Error = e.into();
                            if back.kind() == kind && back.get_ref().and_then(|x| x.downcast_ref::<Payload>()).map_or(false, |p| p.0 == id) {
                                Ok(())
                            } else {
                                Err(format!("io::Error::from gives kind {:?} / {:?} instead of the stream's own error", back.kind(), back.to_string()))
                            }
                        }
                    }
                };
                if let Err(why) = ok {
                    return Err((
                        format!("io-original kind={:?} at={}", kind, if at == 0 { "start" } else { "end" }),
                        format!("the stream failed with a {:?} error at offset {} of {} bytes, but {}", kind, at, input.len(), why),
                    ));
                }
            }
        }
        // a stream with transient failures (WouldBlock, twice in a row at two
        // places) read by a caller that simply calls again: the I/O errors pass
        // through, and every other error still has its location inside the input
        {
            struct Flaky<'a> {
                data: &'a [u8],
                pos: usize,
                at: [usize; 2],
                left: [u8; 2],
            }
            impl<'a> io::Read for Flaky<'a> {
                fn read(&mut self, out: &mut [u8]) -> io::Result<usize> {
                    for i in 0..2 {
                        if self.pos == self.at[i] && self.left[i] > 0 {
                            self.left[i] -= 1;
                            return Err(io::Error::new(io::ErrorKind::WouldBlock, "try again"));
                        }
                    }
                    match (self.data.get(self.pos), out.first_mut()) {
                        (Some(b), Some(o)) => {
                            *o = *b;
                            self.pos += 1;
                            Ok(1)
                        }
                        _ => Ok(0),
                    }
                }
            }
            let d = digest_of(input) as usize;
            let n = input.len().max(1);
            let mut p = lexpr::Parser::from_reader_custom(Flaky { data: input, pos: 0, at: [d % n, (d / 7) % (n + 1)], left: [2, 2] }, opts);
            let mut io_errors = 0usize;
            for _ in 0..input.len() + 8 {
                match p.next_value() {
                    Ok(None) => break,
                    Ok(Some(_)) => {}
                    Err(e) if e.is_io() => {
                        io_errors += 1;
                        if io_errors > 6 {
                            return Err(("transient io-error-repeats".into(), "more I/O errors than the stream produced".into()));
                        }
                    }
                    Err(e) => check_location(input, &e).map_err(|(s, m)| (format!("src=flaky-reader {}", s), m))?,
                }
            }
        }
        // iterated: every error of the stream
        let mut p = lexpr::Parser::from_slice_custom(input, opts);
        for _ in 0..input.len() + 2 {
            match p.next_value() {
                Ok(None) => break,
                Ok(Some(_)) => {}
                Err(e) => check_location(input, &e).map_err(|(s, m)| (format!("src=slice-iter {}", s), m))?,
            }
        }
        Ok((located, eof))
    });
    match r {
        Err(pm) => Err(fail(format!("loc panic={}", panic_sig(&pm)), format!("panicked on {:?}: {}", bytes_lossy(input), pm), c)),
        Ok(Err((sig, msg))) => Err(fail(sig, format!("{} [input {:?}, parser options #{}]", msg, bytes_lossy(input), qi), c)),
        Ok(Ok((located, eof))) => {
            let mut ev = Eval::new(located, digest_of(c)).class(if located { "loc:error-with-location" } else { "loc:no-error" });
            if eof {
                ev = ev.class("loc:eof-error");
            }
            if input.contains(&b'\n') && located {
                ev = ev.class("loc:multi-line");
            }
            Ok(ev)
        }
    }
}

fn token_at_cut<'a>(n: &'a Node, cut: usize) -> Option<&'a Node> {
    if !(n.start < cut && cut < n.end) {
        return None;
    }
    for c in n.children.iter().chain(n.tail.iter().map(|b| &**b)) {
        if let Some(t) = token_at_cut(c, cut) {
            return Some(t);
        }
    }
    if n.kind == NodeKind::Atom || n.kind == NodeKind::QuoteHead {
        Some(n)
    } else {
        None
    }
}

fn check_trunc_text(text: &str, root: Option<&Node>, q: &QOpt, c: &Case) -> CaseResult {
    let opts = q.to_lexpr();
    let bytes = text.as_bytes();
    // the full text must parse as a single datum, else the case says nothing
    if lexpr::from_slice_custom(bytes, opts).is_err() {
        return Ok(Eval::new(false, 0).class("trunc:full-text-rejected"));
    }
    let r = catch(|| -> Result<(usize, Vec<&'static str>), (String, String)> {
        let mut inside = 0usize;
        let mut tokens: Vec<&'static str> = Vec::new();
        for cut in 0..bytes.len() {
            let p = &bytes[..cut];
            let tok: &'static str = root.and_then(|r| token_at_cut(r, cut)).map_or("between-tokens", |n| n.token);
            let results = [
                ("slice", lexpr::from_slice_custom(p, opts).err()),
                ("reader", lexpr::from_reader_custom(Cursor::new(p), opts).err()),
                ("slice-datum", lexpr::datum::from_slice_custom(p, opts).err()),
                ("str", std::str::from_utf8(p).ok().and_then(|s| lexpr::from_str_custom(s, opts).err())),
                // the entry points that take no options, under the default option set
                ("FromStr", if q.index() == 0 { std::str::from_utf8(p).ok().and_then(|s| s.parse::<lexpr::Value>().err()) } else { None }),
                ("from_str", if q.index() == 0 { std::str::from_utf8(p).ok().and_then(|s| lexpr::from_str(s).err()) } else { None }),
                ("datum::from_str", if q.index() == 0 { std::str::from_utf8(p).ok().and_then(|s| lexpr::datum::from_str(s).err()) } else { None }),
                ("from_reader", if q.index() == 0 { lexpr::from_reader(Cursor::new(p)).err() } else { None }),
            ];
            for (src, e) in results {
                if let Some(e) = e {
                    if category(&e) != "eof" {
                        return Err((
                            format!("trunc token={} err={}", tok, err_text(&e)),
                            format!("the prefix {:?} of the well-formed text {:?} fails ({}) with a {} error: {}", bytes_lossy(p), clip(text, 200), src, category(&e), e),
                        ));
                    }
                    check_location(p, &e).map_err(|(s, m)| (format!("trunc-{}", s), m))?;
                }
            }
            if tok != "between-tokens" {
                inside += 1;
                if !tokens.contains(&tok) {
                    tokens.push(tok);
                }
            }
        }
        Ok((inside, tokens))
    });
    match r {
        Err(pm) => Err(fail(format!("trunc panic={}", panic_sig(&pm)), format!("panicked on a prefix of {:?}: {}", clip(text, 200), pm), c)),
        Ok(Err((sig, msg))) => Err(fail(sig, msg, c)),
        Ok(Ok((inside, tokens))) => {
            let mut ev = Eval::new(inside > 0, digest_of(c)).class("trunc:checked");
            for t in tokens {
                ev = ev.class(match t {
                    "hash-nil" => "tok:hash-nil",
                    "hash-bool" => "tok:hash-bool",
                    "int" => "tok:int",
                    "radix-int" => "tok:radix-int",
                    "float" => "tok:float",
                    "float-exp" => "tok:float-exp",
                    "char" => "tok:char",
                    "char-hex" => "tok:char-hex",
                    "char-name" => "tok:char-name",
                    "elisp-char" => "tok:elisp-char",
                    "elisp-char-escape" => "tok:elisp-char-escape",
                    "string" => "tok:string",
                    "elisp-string" => "tok:elisp-string",
                    "symbol" => "tok:symbol",
                    "symbol-non-ascii" => "tok:symbol-non-ascii",
                    "keyword" => "tok:keyword",
                    "bytes" => "tok:bytes",
                    "elisp-bytes" => "tok:elisp-bytes",
                    "quote-shorthand" => "tok:quote-shorthand",
                    "null" => "tok:null",
                    _ => "tok:other",
                });
            }
            Ok(ev)
        }
    }
}

pub fn check_case(c: &Case) -> CaseResult {
    match c {
        Case::Loc { .. } => check_loc(c),
        Case::Trunc { value, q, choices, trivia } => {
            let qo = QOpt::from_index(*q);
            let l = layout(value, &qo, LayoutCfg { trivia: *trivia, alt: true, ff: true }, choices);
            check_trunc_text(&l.text, Some(&l.root), &qo, c)
        }
        Case::TruncText { text, q } => check_trunc_text(text, None, &QOpt::from_index(*q), c),
    }
}

fn g_trunc() -> BS<Case> {
    (g_qopt_index(), prop_oneof![Just(0u8), Just(1u8), Just(2u8)])
        .prop_flat_map(|(qi, trivia)| {
            let q = QOpt::from_index(qi);
            (g_layout_value(q, 3, 14), vec(any::<u32>(), 0..120)).prop_map(move |(value, choices)| Case::Trunc { value, q: qi, choices, trivia })
        })
        .boxed()
}

fn g_loc(max_len: usize) -> BS<Case> {
    (g_input(max_len), g_qopt_index()).prop_map(|((input, _), q)| Case::Loc { input, q }).boxed()
}

fn battery() -> Vec<Case> {
    let d = 0usize;
    let e = QOpt::elisp().index();
    let mut v = Vec::new();
    for t in [
        "#nil", "#t", "#f", "#x1F", "#b101", "#o17", "#d10", "#x-1f", "1.5", "1e10", "1.5e-10", "-1.5E+3", "#\\space", "#\\newline", "#\\x41", "#\\delete",
        "#\\λ", "\"a\\x41;b\"", "\"a\\nb\"", "\"é\"", "#u8(1 2 3)", "#vu8(255)", "'a", "`(a ,b ,@c)", "λx", "(a . b)", "#(1 2)", "#:key", "(1 . (2 3))",
        // byte vectors whose octets use every number spelling
        "#u8(#x1F #b101 #o17 #d9)", "(a #u8(7 #xff))", "#vu8(#xFF)", "#u8(+5 007 #x-0)", "#(#u8(#b1))",
        // dots, signs and other one-character tokens at every position of a list
        "(.a)", "(... b)", "( .a b)", "'(.x)", "(a (.b))", "(.5 a)", "(a .b)", "(a . .b)", "(a ... . ...)", "#(.a)", "(- a)", "(+ . -)", "(-a . +b)", "(a . (.b))", "(.a . b)", "((.a))",
    ] {
        v.push(Case::TruncText { text: t.to_string(), q: d });
    }
    // nests as deep as the reader accepts (measured), truncated at every byte:
    // an input that ends right at the limit is incomplete, not too deep
    {
        let limit = (1..=400usize).take_while(|k| lexpr::from_str(&format!("{}0{}", "(".repeat(*k), ")".repeat(*k))).is_ok()).last().unwrap_or(1);
        for inner in ["()", "( )", "a", "\"s\"", "#u8(1)", "#t", "1.5"] {
            for (open, close) in [("(", ")"), ("#(", ")"), ("(a ", ")")] {
                for depth in [limit.saturating_sub(1), limit] {
                    v.push(Case::TruncText { text: format!("{}{}{}", open.repeat(depth), inner, close.repeat(depth)), q: d });
                }
            }
        }
        v.push(Case::TruncText { text: format!("{}(){}", "[".repeat(limit), "]".repeat(limit)), q: d });
        v.push(Case::TruncText { text: format!("{}nil{}", "(".repeat(limit), ")".repeat(limit)), q: e });
    }
    // decimal literals whose digits alone exceed the range of a double and whose
    // negative exponent brings them back into it: cut inside the exponent, what
    // is left is a complete literal that is out of range
    for (zeros, exp) in [(320usize, "e-20"), (400, "e-200"), (309, "e-9"), (330, "E-100")] {
        v.push(Case::TruncText { text: format!("1{}{}", "0".repeat(zeros), exp), q: d });
        v.push(Case::TruncText { text: format!("(a -25{}.5{})", "0".repeat(zeros), exp), q: d });
    }
    // every character name of R6RS, R7RS and the usual dialect extensions, bare
    // and inside a list and a vector: the ones the reader accepts are
    // truncated at every byte
    for n in [
        "nul", "null", "alarm", "backspace", "tab", "linefeed", "newline", "vtab", "page", "return", "esc", "escape", "space", "delete", "rubout", "altmode", "bell", "formfeed", "nl",
        "lf", "cr", "ht", "bs", "del", "backslash", "x", "xx", "x0", "x10FFFF", "U+41", "u0041", "NUL", "Space", "SPACE", "newLine", "return;", "tab\\",
    ] {
        for tpl in ["#\\{}", "(#\\{})", "#(a #\\{} b)", "(a . #\\{})", "'#\\{}"] {
            v.push(Case::TruncText { text: tpl.replace("{}", n), q: d });
            v.push(Case::TruncText { text: tpl.replace("{}", n), q: e });
        }
    }
    // the other fixed vocabularies of the grammar
    for t in ["#true", "#false", "#t", "#f", "#nil", "#!eof", "#!default", "#!optional", "#!r6rs", "#;a b", "#|c|# a", "#vu8()", "#u8()", "#s8()", "#0=(a)", "#&a", "#'a", "#`a", "#,a", "#,@a", "#%app", "#:a", "nil", "t", "'nil", "#d1.5", "#e1.5", "#i1", "#x1/2", "1/2", "+inf.0", "-inf.0", "+nan.0", "+i", "1+2i"] {
        v.push(Case::TruncText { text: t.to_string(), q: d });
        v.push(Case::TruncText { text: format!("({} x)", t), q: d });
        v.push(Case::TruncText { text: t.to_string(), q: e });
        let all_on = QOpt { racket: true, ..QOpt::default_set() };
        v.push(Case::TruncText { text: t.to_string(), q: all_on.index() });
    }
    for t in ["?a", "?\\(", "?\\x41", "?\\101", "?\\u00e9", "?\\U000000e9", "?\\N{U+41}", "?\\^a", "\"\\101\\102\"", "\"a\\u00e9b\"", "\"\\N{U+3bb}\"", "[a :k nil t]", "\"\\x41\\ b\"", "?λ"] {
        v.push(Case::TruncText { text: t.to_string(), q: e });
    }
    v
}

fn run(ctx: &mut Ctx) {
    let tier = ctx.tier;
    for b in battery() {
        ctx.observe("trunc-battery", check_case(&b));
    }
    ctx.flush_failures();
    let parent = &*ctx;
    let max_len = tier.pick(200, 1024);
    let children: Vec<Ctx> = (0..16u32)
        .into_par_iter()
        .map(|w| {
            let mut c = parent.fork();
            c.run_prop(&format!("trunc/{}", w), tier.pick(250, 8_000), g_trunc(), check_case);
            c.run_prop(&format!("loc/{}", w), tier.pick(4_000, 100_000), g_loc(max_len), check_case);
            // any generated text the reader accepts as one datum (whatever the reader's vocabulary is), truncated at every byte
            c.run_prop(&format!("trunc-accepted/{}", w), tier.pick(2_000, 50_000), (prop_oneof![g_char_literal(), g_input(40).prop_map(|(b, _)| b)], g_qopt_index()), |(b, q)| match std::str::from_utf8(b) {
                Ok(t) => check_case(&Case::TruncText { text: t.to_string(), q: *q }),
                Err(_) => Ok(Eval::new(false, 0).class("trunc:not-text")),
            });
            c
        })
        .collect();
    for c in children {
        ctx.absorb(c);
    }
    for c in ctx.sample_values("trunc", &g_trunc(), 4) {
        if let Case::Trunc { value, q, choices, trivia } = &c {
            let l = layout(value, &QOpt::from_index(*q), LayoutCfg { trivia: *trivia, alt: true, ff: true }, choices);
            ctx.add_sample("trunc", json!({"text": clip(&l.text, 120), "prefixes": l.text.len(), "parser_index": q}));
        }
    }
    ctx.exhaustive.push("every proper byte prefix of every truncation text".into());
    ctx.required_classes = vec![
        "trunc:checked", "tok:hash-nil", "tok:hash-bool", "tok:int", "tok:radix-int", "tok:float", "tok:float-exp", "tok:char",
        "tok:char-hex", "tok:char-name", "tok:elisp-char", "tok:elisp-char-escape", "tok:string", "tok:elisp-string", "tok:symbol",
        "tok:symbol-non-ascii", "tok:keyword", "tok:bytes", "tok:elisp-bytes", "tok:quote-shorthand",
        "loc:error-with-location", "loc:eof-error", "loc:multi-line",
    ];
}

fn replay(_sub: &str, case: &Json) -> Option<CaseResult> {
    let c: Case = serde_json::from_value(case.get("case")?.clone()).ok()?;
    Some(check_case(&c))
}

/// libFuzzer entry: raw bytes as a location case, raw text as a truncation
/// case (every proper prefix of a text that parses), or a generated layout.
pub fn fuzz(f: &mut FuzzIn) -> Option<CaseResult> {
    match f.mode % 3 {
        0 => {
            let (q, input) = f.raw_q_input();
            if input.len() > 300 {
                return None;
            }
            Some(check_case(&Case::Loc { input: input.to_vec(), q }))
        }
        1 => {
            let (q, input) = f.raw_q_input();
            if input.len() > 64 {
                return None;
            }
            let text = std::str::from_utf8(input).ok()?.to_string();
            Some(check_case(&Case::TruncText { text, q }))
        }
        _ => {
            let c = f.draw(&g_trunc())?;
            Some(check_case(&c))
        }
    }
}
