//! One module per property: strategy + oracle + classifier.

use crate::engine::{CaseResult, Ctx};
use serde_json::Value as Json;

pub mod c01;
pub mod c02;
pub mod c03;
#[cfg(feature = "ff")]
pub mod c04;
pub mod c05;
pub mod c06;
pub mod c07;
pub mod c08;
pub mod c09;
pub mod c10;
pub mod c11;
pub mod c12;
pub mod c13;
#[cfg(feature = "ff")]
pub mod c14;
pub mod c15;
pub mod c16;
pub mod c17;
#[cfg(feature = "ff")]
pub mod c18;
pub mod c19;
pub mod c20;

pub struct Prop {
    pub id: &'static str,
    pub level: &'static str,
    pub rule: &'static str,
    pub assumptions: &'static [&'static str],
    pub run: fn(&mut Ctx),
    pub replay: fn(sub: &str, case: &Json) -> Option<CaseResult>,
    /// which builds the property runs in
    pub builds: &'static [&'static str],
}

pub fn all() -> Vec<Prop> {
    #[allow(unused_mut)]
    let mut v = base();
    #[cfg(feature = "ff")]
    {
        v.push(c04::PROP);
        v.push(c14::PROP);
        v.push(c18::PROP);
    }
    v.sort_by_key(|p| p.id);
    v
}

fn base() -> Vec<Prop> {
    vec![c01::PROP, c02::PROP, c03::PROP, c05::PROP, c06::PROP, c07::PROP, c08::PROP, c09::PROP, c10::PROP, c11::PROP, c12::PROP, c13::PROP, c15::PROP, c16::PROP, c17::PROP, c19::PROP, c20::PROP]
}

pub fn find(id: &str) -> Option<Prop> {
    all().into_iter().find(|p| p.id == id)
}
