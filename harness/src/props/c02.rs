//! C02 — round trip for every consistent printer/parser dialect pairing,
//! modulo the documented folding, plus the independent reader per dialect.

use proptest::prelude::*;
use rayon::prelude::*;
use serde_json::{json, Value as Json};

use crate::engine::*;
use crate::gen::*;
use crate::model::*;
use crate::mv::*;
use crate::opts::*;
use crate::props::c01::{classes_of, ryu_text};
use crate::props::Prop;
use crate::reader;
use crate::util::*;

pub const PROP: Prop = Prop {
    id: "C02",
    level: "exploration",
    rule: "(round 9: every length from 1 to 130 (600) of keyword, symbol, string and byte vector, ASCII and two-byte characters, on every printer option set) (round 8: identifiers drawn uniformly from every alphabetic code point and from the letter numbers; a battery of initials from every corner of 'alphabetic') (rounds 6-7: atoms of 256 B .. 8 KiB on every printer option set and up to 64 (128) KiB on the Emacs Lisp pair; 130 and 300 copies of each small unit - empty vector, empty list, empty string, empty byte vector, nil, quote form ... - in one value, and generated wide values, on every printer option set) all 576 printer option sets are enumerated; for each, parser option sets are taken from compat(P) (quick: canonical, maximal and 4 seeded others; thorough: all 96/192) and values come from G_value restricted to names that are plain for that pair, plus a fixed battery of option-sensitive values; oracle = M_fold(P,Q,v) computed without the parser, and the independent reader for P's dialect; non-trivial = pair is not (default,default) and the value contains a construct whose spelling depends on an option (nil, bool, keyword, vector, bytes, char, string needing an escape); distinct by digest of (P,Q,value)",
    assumptions: &[
        "compat(P), plain names per pair and M_fold as tabulated in DESIGN.md appendix A.1",
        "Nil printed as () or as false folds to the empty list / false (the printer option's documented meaning)",
        "printer option sets with Emacs byte syntax but R6RS string syntax have no compatible parser for byte vectors; they are exercised on values without byte vectors (counted under excluded_by_construction)",
        "float acceptance as in C01",
    ],
    run,
    replay,
    builds: &["ff"],
};

pub fn name_ok(name: &str, rules: IdentRules) -> bool {
    reader::is_identifier(name) && fix_ident(name.to_string(), rules) == name
}

pub fn bytes_allowed(p: &POpt) -> bool {
    p.bytes != PBytes::Elisp || p.string == Syn::Elisp
}

pub fn in_domain(p: &POpt, q: &QOpt, v: &MV) -> bool {
    if !compatible(p, q) {
        return false;
    }
    let rules = ident_rules(p, q);
    let ba = bytes_allowed(p);
    !v.any(&|m| match m {
        MV::Sym(s) => !name_ok(s, rules),
        MV::Kw(s) => {
            // keywords named nil / t are not special
            let mut r = rules;
            r.no_nil = false;
            r.no_t = false;
            !name_ok(s, r)
        }
        MV::Bytes(_) => !ba,
        MV::F(b) => !f64::from_bits(*b).is_finite(),
        MV::Char(c) => char::from_u32(*c).is_none(),
        _ => false,
    })
}

fn option_sensitive(v: &MV) -> bool {
    v.any(&|m| match m {
        MV::Nil | MV::Bool(_) | MV::Kw(_) | MV::Vec(_) | MV::Bytes(_) | MV::Char(_) => true,
        MV::Str(s) => s.chars().any(|c| (c as u32) < 0x20 || c == '\x7f' || c == '"' || c == '\\'),
        _ => false,
    })
}

/// The part of the oracle shared with C13: stage name, kind, message.
pub fn roundtrip(p: &POpt, q: &QOpt, mv: &MV) -> Result<String, (String, String)> {
    let v = mv.to_value();
    let text = match catch(|| lexpr::to_string_custom(&v, p.to_lexpr())) {
        Ok(Ok(t)) => t,
        Ok(Err(e)) => return Err(("stage=print-error".into(), format!("printing failed: {}", e))),
        Err(pm) => {
            return Err((
                format!("stage=print-panic msg={}", panic_sig(&pm)),
                format!("printing panicked: {}", pm),
            ))
        }
    };
    // the same option sets built by another route through the builder API
    // (from the Emacs Lisp sets, plural keyword setter, fields in another
    // order) print and read identically
    match catch(|| (lexpr::to_string_custom(&v, p.to_lexpr_alt()), lexpr::from_str_custom(&text, q.to_lexpr()).ok(), lexpr::from_str_custom(&text, q.to_lexpr_alt()).ok())) {
        Ok((Ok(t2), a, b)) => {
            if t2 != text {
                return Err(("stage=builder-route printer".into(), format!("the printer options built from Options::elisp() print {:?}, the ones built from Options::default() print {:?}", clip(&t2, 200), clip(&text, 200))));
            }
            if a.as_ref().map(MV::from_value) != b.as_ref().map(MV::from_value) {
                return Err(("stage=builder-route parser".into(), format!("{:?} reads as {} under the options built from Options::new() but as {} under the same set built from Options::elisp() with with_keyword_syntaxes", clip(&text, 200), short(&a), short(&b))));
            }
        }
        Ok((Err(e), _, _)) => return Err(("stage=builder-route printer".into(), format!("printing with the alternatively built options failed: {}", e))),
        Err(pm) => return Err((format!("stage=builder-route panic msg={}", panic_sig(&pm)), pm)),
    }
    let expected = fold(p, q, mv);
    let fl = |a: f64, b: f64| float_roundtrip_ok(a, b, &ryu_text(a));
    match catch(|| lexpr::from_str_custom(&text, q.to_lexpr())) {
        Err(pm) => {
            return Err((
                format!("stage=parse-panic msg={}", panic_sig(&pm)),
                format!("parsing {:?} panicked: {}", clip(&text, 300), pm),
            ))
        }
        Ok(Err(e)) => {
            return Err((
                format!("stage=parse-error err={}", err_text(&e)),
                format!("parser rejected printer output {:?}: {}", clip(&text, 300), e),
            ))
        }
        Ok(Ok(w)) => {
            let got = MV::from_value(&w);
            if let Some((kind, d)) = mv_diff(&expected, &got, &fl) {
                return Err((
                    format!("stage=value-mismatch kind={}", kind),
                    format!(
                        "{:?} read back differently from the documented folding: {}",
                        clip(&text, 300),
                        d
                    ),
                ));
            }
        }
    }
    Ok(text)
}

/// Rendering of a minimised value for signatures.
pub fn min_repr(min: &MV, text: &str) -> String {
    if min.depth() > 40 {
        return "deep-nesting".to_string();
    }
    if min.is_composite() {
        clip(&shape(text), 16)
    } else {
        format!("{}:{}", min.kind(), tok_class(text))
    }
}

fn ref_reader(p: &POpt, mv: &MV, text: &str) -> Result<(), (String, String)> {
    match reader::read_one(text, p) {
        Err(e) => Err((
            format!(
                "stage=ref-reader-error why={}",
                clip(&e.split(" at byte").next().unwrap_or("").replace('"', ""), 48)
            ),
            format!("independent reader for this dialect rejects printer output {:?}: {}", clip(text, 300), e),
        )),
        Ok(m) => {
            let expected = fold_ref(p, mv);
            match mv_diff(&expected, &m, &exact) {
                Some((kind, d)) => Err((
                    format!("stage=ref-reader-mismatch kind={}", kind),
                    format!("independent reader reads {:?} differently: {}", clip(text, 300), d),
                )),
                None => Ok(()),
            }
        }
    }
}

fn eval_pair(p: &POpt, q: &QOpt, mv: &MV) -> Result<(), (String, String)> {
    let text = roundtrip(p, q, mv)?;
    ref_reader(p, mv, &text)
}

/// Reset option fields towards the default while the failure (same stage
/// signature) persists; returns the fields that still differ.
fn minimise_options(p: &POpt, q: &QOpt, mv: &MV, sig: &str) -> (POpt, QOpt, String) {
    let mut p = *p;
    let mut q = *q;
    let dp = POpt::default_set();
    let dq = QOpt::default_set();
    let still = |p: &POpt, q: &QOpt| -> bool {
        in_domain(p, q, mv) && matches!(eval_pair(p, q, mv), Err((s, _)) if s == sig)
    };
    type Reset = fn(&mut POpt, &mut QOpt, &POpt, &QOpt);
    let resets: [Reset; 14] = [
        |p, q, dp, _| {
            p.kw = dp.kw;
            q.kw_octo = true;
        },
        |_, q, _, _| q.kw_octo = true,
        |_, q, _, _| q.kw_prefix = false,
        |_, q, _, _| q.kw_postfix = false,
        |p, _, dp, _| p.nil = dp.nil,
        |p, _, dp, _| p.boolean = dp.boolean,
        |p, q, dp, dq| {
            p.vec = dp.vec;
            q.brackets_vector = dq.brackets_vector;
        },
        |_, q, _, dq| q.brackets_vector = dq.brackets_vector,
        |p, _, dp, _| p.bytes = dp.bytes,
        |p, q, dp, dq| {
            p.string = dp.string;
            q.string = dq.string;
        },
        |p, q, dp, dq| {
            p.chr = dp.chr;
            q.chr = dq.chr;
        },
        |_, q, _, dq| q.nil = dq.nil,
        |_, q, _, dq| {
            q.t_true = dq.t_true;
            q.racket = dq.racket;
        },
        |_, q, _, dq| q.digits = dq.digits,
    ];
    for _ in 0..2 {
        for r in resets.iter() {
            let (mut p2, mut q2) = (p, q);
            r(&mut p2, &mut q2, &dp, &dq);
            if (p2 != p || q2 != q) && still(&p2, &q2) {
                p = p2;
                q = q2;
            }
        }
    }
    let mut fields = Vec::new();
    if p.kw != dp.kw {
        fields.push(format!("P.kw={:?}", p.kw));
    }
    if p.nil != dp.nil {
        fields.push(format!("P.nil={:?}", p.nil));
    }
    if p.boolean != dp.boolean {
        fields.push(format!("P.bool={:?}", p.boolean));
    }
    if p.vec != dp.vec {
        fields.push(format!("P.vec={:?}", p.vec));
    }
    if p.bytes != dp.bytes {
        fields.push(format!("P.bytes={:?}", p.bytes));
    }
    if p.string != dp.string {
        fields.push(format!("P.str={:?}", p.string));
    }
    if p.chr != dp.chr {
        fields.push(format!("P.chr={:?}", p.chr));
    }
    if q.kw_prefix {
        fields.push("Q.kw+prefix".into());
    }
    if q.kw_postfix {
        fields.push("Q.kw+postfix".into());
    }
    if !q.kw_octo {
        fields.push("Q.kw-octo".into());
    }
    if q.nil != dq.nil {
        fields.push(format!("Q.nil={:?}", q.nil));
    }
    if q.t_true {
        fields.push("Q.t=True".into());
    }
    if q.brackets_vector && p.vec == dp.vec {
        fields.push("Q.brackets=Vector".into());
    }
    if q.racket {
        fields.push("Q.racket".into());
    }
    if q.digits {
        fields.push("Q.digits".into());
    }
    (p, q, fields.join(","))
}

pub fn check_case(pi: usize, qi: usize, mv: &MV) -> CaseResult {
    let p = POpt::from_index(pi);
    let q = QOpt::from_index(qi);
    let case = || json!({"p": pi, "q": qi, "value": mv});
    if !in_domain(&p, &q, mv) {
        return Err(Failure::new(
            "C02 harness=generator-left-domain",
            format!("generator produced a value outside the domain of the pair: {}", short(mv)),
            case(),
        ));
    }
    match eval_pair(&p, &q, mv) {
        Ok(()) => {
            let nt = (pi != 0 || qi != 0) && option_sensitive(mv);
            let mut cs = classes_of(mv);
            cs.retain(|c| c.starts_with("kind:"));
            if p == POpt::elisp() && q == QOpt::elisp() {
                cs.push("pair:elisp");
            }
            if !fold_is_identity(&p, &q, mv) {
                cs.push("fold:non-identity");
            }
            Ok(Eval::new(nt, digest_of(&(pi, qi, mv))).classes(&cs))
        }
        Err((sig, msg)) => {
            let min0 = minimise(mv, &|c| {
                in_domain(&p, &q, c) && matches!(eval_pair(&p, &q, c), Err((s, _)) if s == sig)
            });
            let (mp, mq, fields) = minimise_options(&p, &q, &min0, &sig);
            let min = minimise(&min0, &|c| {
                in_domain(&mp, &mq, c) && matches!(eval_pair(&mp, &mq, c), Err((s, _)) if s == sig)
            });
            let min_text = lexpr::to_string_custom(&min.to_value(), mp.to_lexpr()).unwrap_or_default();
            Err(Failure::new(
                format!("C02 {} min={} opts=[{}]", sig, min_repr(&min, &min_text), fields),
                format!(
                    "{} (printer {:?}, parser {:?}; smallest still failing: printer #{} parser #{} text {:?})",
                    msg,
                    p,
                    q,
                    mp.index(),
                    mq.index(),
                    clip(&min_text, 80)
                ),
                case(),
            ))
        }
    }
}

fn battery() -> Vec<MV> {
    let s = |x: &str| MV::sym(x);
    let k = |x: &str| MV::Kw(x.to_string());
    let mut all_ascii: Vec<MV> = (0x20u32..0x7f).map(MV::Char).collect();
    all_ascii.push(MV::list((0x20u32..0x7f).map(MV::Char).collect()));
    let mut v = vec![
        MV::Vec(vec![s("a"), s("+")]),
        MV::Vec(vec![s("a"), s("-")]),
        MV::Vec(vec![s("a"), s("...")]),
        MV::Vec(vec![MV::List(vec![s("a")], Box::new(s("b")))]),
        MV::Vec(vec![MV::U(1), MV::I(-1), MV::f(1.5)]),
        MV::Vec(vec![]),
        MV::list(vec![MV::Vec(vec![]), MV::Null]),
        k("a"),
        k("!a"),
        k("+"),
        k("..."),
        k("λ"),
        k("a1"),
        k("->x"),
        k("nil"),
        k("t"),
        MV::list(vec![k("a"), k("b1"), s("c")]),
        MV::Vec(vec![k("a")]),
        // initials from every corner of "alphabetic": letter numbers, modifier letters, ideographs, astral letters, title case
        MV::list(vec![s("Ⅻ"), s("ↁx"), s("〇"), s("ʰa"), s("ǅ"), s("𝔸"), s("ᛮ"), s("ͅx"), s("ⅷ-th"), k("Ⅻ"), k("〇x")]),
        MV::Bytes(vec![]),
        MV::Bytes(vec![0, 1, 127, 128, 255]),
        MV::list(vec![MV::Bytes(vec![b'a', b'"', b'\\'])]),
        MV::Vec(vec![MV::Bytes(vec![1, 2])]),
        MV::Nil,
        MV::Bool(true),
        MV::Bool(false),
        MV::list(vec![MV::Nil, MV::Bool(true), MV::Bool(false), MV::Null]),
        MV::List(vec![s("a")], Box::new(MV::Nil)),
        MV::List(vec![s("a")], Box::new(MV::Bool(false))),
        MV::List(vec![s("a")], Box::new(MV::Bool(true))),
        MV::Vec(vec![MV::Nil, MV::Bool(true)]),
        MV::Char('(' as u32),
        MV::Char(')' as u32),
        MV::Char('[' as u32),
        MV::Char(']' as u32),
        MV::Char('\\' as u32),
        MV::Char(';' as u32),
        MV::Char('"' as u32),
        MV::Char('|' as u32),
        MV::Char('\'' as u32),
        MV::Char('`' as u32),
        MV::Char('#' as u32),
        MV::Char('.' as u32),
        MV::Char(',' as u32),
        MV::Char('?' as u32),
        MV::Char(' ' as u32),
        MV::Char('x' as u32),
        MV::Char(0),
        MV::Char(0x7f),
        MV::Char(0xe9),
        MV::Char(0x1F600),
        MV::list(vec![MV::Char('a' as u32), MV::Char('b' as u32)]),
        MV::Vec(vec![MV::Char('a' as u32), MV::Char(']' as u32)]),
        MV::Vec(vec![MV::Char(0x10FFFF), MV::U(1)]),
        MV::Str("a\u{1}b\u{7f}\"\\\n\t\r\u{7}\u{8}é\u{1F600}".into()),
        MV::Str("\u{80}\u{ff}".into()),
        MV::Str("0123".into()),
        MV::list(vec![MV::Str("\u{1}1".into()), MV::Str("\u{1f}f".into())]),
        MV::list(vec![s("quote"), s("a")]),
        s("nil?"),
        s("t1"),
        s("a.b"),
        MV::List(vec![MV::U(1)], Box::new(MV::Vec(vec![MV::U(2)]))),
    ];
    // every printable ASCII character (whichever of them a character syntax escapes)
    v.append(&mut all_ascii);
    v
}

fn qs_for(p: &POpt, tier: Tier, seed: u64) -> Vec<QOpt> {
    let all = compat_sets(p);
    if tier == Tier::Thorough {
        return all;
    }
    let mut out: Vec<QOpt> = Vec::new();
    // canonical: only P's keyword spelling, everything else default
    let canonical = QOpt {
        kw_prefix: p.kw == Kw::ColonPrefix,
        kw_postfix: p.kw == Kw::ColonPostfix,
        kw_octo: p.kw == Kw::Octothorpe,
        nil: QNil::Default,
        t_true: false,
        brackets_vector: p.vec == PVec::Brackets,
        string: p.string,
        chr: p.chr,
        racket: false,
        digits: false,
    };
    out.push(canonical);
    let maximal = QOpt {
        kw_prefix: true,
        kw_postfix: true,
        kw_octo: true,
        nil: QNil::Special,
        t_true: true,
        brackets_vector: true,
        racket: true,
        digits: true,
        ..canonical
    };
    out.push(maximal);
    if *p == POpt::elisp() {
        out.push(QOpt::elisp());
    }
    let mut i = 0u64;
    while out.len() < 6 {
        let q = all[(mix(seed, mix(p.index() as u64, i)) % all.len() as u64) as usize];
        i += 1;
        if !out.contains(&q) {
            out.push(q);
        }
    }
    out
}

fn run(ctx: &mut Ctx) {
    let tier = ctx.tier;
    let per_pair = tier.pick(8u32, 24u32);
    let bat = battery();
    let no_bytes_sets = (0..N_POPT).filter(|pi| !bytes_allowed(&POpt::from_index(*pi))).count() as u64;
    let seed = ctx.seed;
    let parent = &*ctx;
    let children: Vec<Ctx> = (0..N_POPT)
        .into_par_iter()
        .map(|pi| {
            let mut ctx = parent.fork();
            let p = POpt::from_index(pi);
            let qs = qs_for(&p, tier, seed);
            // battery on every selected pair
            for q in &qs {
                for b in &bat {
                    if in_domain(&p, q, b) {
                        ctx.observe("battery", check_case(pi, q.index(), b));
                    } else {
                        ctx.exclude("battery value outside the pair's domain", 1);
                    }
                }
            }
            ctx.flush_failures();
            // every short identifier that is plain for the pair, as symbol and as keyword
            {
                let q = qs[0];
                let rules = ident_rules(&p, &q);
                let mut kw_rules = rules;
                kw_rules.no_nil = false;
                kw_rules.no_t = false;
                for id in small_identifiers(3, kw_rules) {
                    let mut items = vec![MV::Kw(id.clone())];
                    if name_ok(&id, rules) {
                        items.push(MV::Sym(id.clone()));
                    }
                    let v = MV::list(items);
                    if in_domain(&p, &q, &v) {
                        ctx.observe("small-identifiers", check_case(pi, q.index(), &v));
                    }
                }
                ctx.flush_failures();
            }
            // generated values: the strategy picks Q and then a value for (P,Q)
            let qs2 = qs.clone();
            let depth = tier.pick((4, 40), (6, 80));
            let strat = (0..qs.len()).prop_flat_map(move |qi| {
                let q = qs2[qi];
                let cfg = ValueCfg {
                    ident: ident_rules(&p, &q),
                    bytes: bytes_allowed(&p),
                    keywords: true,
                    depth: depth.0,
                    nodes: depth.1,
                    branch: 5,
                    str_max: 12,
                };
                g_value(cfg).prop_map(move |v| (q.index(), v))
            });
            let sub = format!("pairs/p{}", pi);
            ctx.run_prop(&sub, per_pair * qs.len() as u32, strat, |(qi, v)| check_case(pi, *qi, v));
            // every length of name, string and byte vector up to 130 (600): a
            // fixed-size buffer in one of the printer's spellings is off by one
            // at exactly one length
            {
                let q0 = qs[0];
                for len in 1..=tier.pick(130usize, 600usize) {
                    let name: String = std::iter::once('k').chain(std::iter::repeat('a').take(len - 1)).collect();
                    let wide: String = std::iter::repeat('é').take(len / 2).chain(std::iter::repeat('a').take(len % 2)).collect();
                    let mut items = vec![MV::Kw(name.clone()), MV::Sym(name.clone()), MV::Str(name), MV::Kw(if wide.is_empty() { "w".into() } else { wide })];
                    if bytes_allowed(&p) {
                        items.push(MV::Bytes((0..len).map(|i| (i % 251) as u8).collect()));
                    }
                    let v = MV::list(items);
                    if in_domain(&p, &q0, &v) {
                        ctx.observe("every-length", check_case(pi, q0.index(), &v));
                    } else {
                        ctx.exclude("length-sweep value outside the pair's domain", 1);
                    }
                }
                ctx.flush_failures();
            }
            // hundreds of the same small thing in one value (what costs a little
            // per item shows only in numbers), then generated wide values
            {
                let q0 = qs[0];
                let units = [MV::Vec(vec![]), MV::Null, MV::Str(String::new()), MV::Bytes(vec![]), MV::Nil, MV::Bool(false), MV::list(vec![MV::sym("quote"), MV::sym("x")]), MV::Vec(vec![MV::Vec(vec![])]), MV::Char('(' as u32), MV::Kw("k".into())];
                for u in units {
                    for (k, as_vec) in [(130usize, false), (300, true)] {
                        let items: Vec<MV> = std::iter::repeat(u.clone()).take(k).collect();
                        let v = if as_vec { MV::Vec(items) } else { MV::list(items) };
                        if in_domain(&p, &q0, &v) {
                            ctx.observe("repeated-units", check_case(pi, q0.index(), &v));
                        }
                    }
                }
                ctx.flush_failures();
                let cfgw = ValueCfg { ident: ident_rules(&p, &q0), bytes: bytes_allowed(&p), keywords: true, depth: 3, nodes: 12, branch: 3, str_max: 6 };
                ctx.run_prop(&format!("wide/p{}", pi), tier.pick(2, 12), g_wide(cfgw, 400), |v| {
                    if in_domain(&p, &q0, v) {
                        check_case(pi, q0.index(), v)
                    } else {
                        Ok(Eval::new(false, 0).class("wide:outside-the-pair's-domain"))
                    }
                });
            }
            // atoms at the buffer-size thresholds (256 B .. 8 KiB): long strings, names and byte vectors
            {
                let q0 = qs[0];
                ctx.run_prop(&format!("big-atoms/p{}", pi), tier.pick(6, 30), g_big_atom(8192), |v| {
                    if in_domain(&p, &q0, v) {
                        check_case(pi, q0.index(), v)
                    } else {
                        Ok(Eval::new(false, 0).class("big-atom:outside-the-pair's-domain"))
                    }
                });
            }
            if pi % 97 == 0 {
                let v = &bat[pi % bat.len()];
                if in_domain(&p, &qs[0], v) {
                    let t = lexpr::to_string_custom(&v.to_value(), p.to_lexpr()).unwrap_or_default();
                    ctx.add_sample("pairs", json!({"printer": format!("{:?}", p), "parser_index": qs[0].index(), "text": clip(&t, 120)}));
                }
            }
            ctx
        })
        .collect();
    for c in children {
        ctx.absorb(c);
    }
    // the Emacs pairing gets its own deeper run
    let (pe, qe) = (POpt::elisp(), QOpt::elisp());
    let cfg = ValueCfg {
        ident: ident_rules(&pe, &qe),
        bytes: true,
        keywords: true,
        depth: tier.pick(6, 10),
        nodes: tier.pick(80, 300),
        branch: 6,
        str_max: 24,
    };
    let (pei, qei) = (pe.index(), qe.index());
    ctx.run_prop("elisp-pair", tier.pick(4000, 200_000), g_value(cfg), move |v| check_case(pei, qei, v));
    ctx.run_prop("elisp-pair-big-atoms", tier.pick(100, 1000), g_big_atom(tier.pick(65536, 131072)), move |v| check_case(pei, qei, v));
    for v in ctx.sample_values("elisp-pair", &g_value(cfg), 4) {
        let t = lexpr::to_string_custom(&v.to_value(), pe.to_lexpr()).unwrap_or_default();
        ctx.add_sample("elisp-pair", json!({"text": clip(&t, 160)}));
    }
    ctx.exclude(
        "printer option sets with Emacs bytes but R6RS strings (run without byte vectors)",
        no_bytes_sets,
    );
    for b in &bat {
        for r in check_constructors(b) {
            ctx.observe("constructors", r);
        }
    }
    ctx.flush_failures();
    ctx.exhaustive.push("all 576 printer option sets".into());
    if tier == Tier::Thorough {
        ctx.exhaustive
            .push("every compatible parser option set of every printer option set (82944 pairs)".into());
    }
    ctx.required_classes = vec!["pair:elisp", "fold:non-identity", "kind:bytes", "kind:keyword", "kind:vector", "kind:char"];
}

/// The library's own printer constructors are the sets their documentation
/// describes (every pair of the main run is built field by field).
fn check_constructors(b: &MV) -> Vec<CaseResult> {
    let v = b.to_value();
    let pairs: [(&str, lexpr::print::Options, POpt); 2] = [
        ("print::Options::default()", lexpr::print::Options::default(), POpt::default_set()),
        ("print::Options::elisp()", lexpr::print::Options::elisp(), POpt::elisp()),
    ];
    let mut out = Vec::new();
    for (name, opts, p) in pairs {
        if b.any(&|m| matches!(m, MV::Bytes(_))) && !bytes_allowed(&p) {
            continue;
        }
        let got = lexpr::to_string_custom(&v, opts).map_err(|e| e.to_string());
        let want = lexpr::to_string_custom(&v, p.to_lexpr()).map_err(|e| e.to_string());
        let plain = if name.contains("default") { Some(lexpr::to_string(&v).map_err(|e| e.to_string())) } else { None };
        out.push(if got != want || plain.as_ref().map_or(false, |t| *t != want) {
            Err(Failure::new(
                format!("C02 constructor={}", name),
                format!("{} prints {:?}, the documented equivalent built field by field prints {:?} (to_string: {:?})", name, got, want, plain),
                json!({"p": p.index(), "q": 0, "value": b}),
            ))
        } else {
            Ok(Eval::new(false, 0).class("constructors:checked"))
        });
    }
    out
}

fn replay(sub: &str, case: &Json) -> Option<CaseResult> {
    if sub == "constructors" {
        let mv: MV = serde_json::from_value(case.get("value")?.clone()).ok()?;
        return check_constructors(&mv).into_iter().find(|r| r.is_err()).or_else(|| Some(Ok(Eval::new(false, 0))));
    }
    let pi = case.get("p")?.as_u64()? as usize;
    let qi = case.get("q")?.as_u64()? as usize;
    let mv: MV = serde_json::from_value(case.get("value")?.clone()).ok()?;
    Some(check_case(pi, qi, &mv))
}

/// libFuzzer entry: a printer option set, a compatible parser option set, a value of their domain.
pub fn fuzz(f: &mut FuzzIn) -> Option<CaseResult> {
    if f.mode % 2 == 0 && f.raw.len() >= 4 {
        // options and value decoded from the bytes
        let pi = u16::from_le_bytes([f.raw[0], f.raw[1]]) as usize % N_POPT;
        let p = POpt::from_index(pi);
        let qs = compat_sets(&p);
        if qs.is_empty() {
            return None;
        }
        let q = qs[(u16::from_le_bytes([f.raw[2], f.raw[3]]) as usize * qs.len()) >> 16];
        let cfg = ValueCfg { ident: ident_rules(&p, &q), bytes: bytes_allowed(&p), keywords: true, depth: 5, nodes: 50, branch: 5, str_max: 16 };
        let v = f.mv(4, cfg, 5);
        if !in_domain(&p, &q, &v) {
            return None;
        }
        return Some(check_case(pi, q.index(), &v));
    }
    let (pi, qsel) = f.draw(&(0usize..N_POPT, any::<u16>()))?;
    let p = POpt::from_index(pi);
    let qs = compat_sets(&p);
    if qs.is_empty() {
        return None;
    }
    let q = qs[(qsel as usize * qs.len()) >> 16];
    let cfg = ValueCfg { ident: ident_rules(&p, &q), bytes: bytes_allowed(&p), keywords: true, depth: 5, nodes: 50, branch: 5, str_max: 16 };
    let v = f.draw(&g_value(cfg))?;
    if !in_domain(&p, &q, &v) {
        return None;
    }
    Some(check_case(pi, q.index(), &v))
}
