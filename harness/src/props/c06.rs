//! C06 — str / slice / stream agree under every chunking; read errors surface.

use std::io::{self, BufReader, Read};

use lexpr::parse::Parser;
use proptest::collection::vec;
use proptest::prelude::*;
use serde::{Deserialize, Serialize};
use serde_json::{json, Value as Json};

use crate::engine::*;
use crate::gen::*;
use crate::gen_text::*;
use crate::mv::*;
use crate::opts::*;
use crate::props::Prop;
use crate::util::*;

pub const PROP: Prop = Prop {
    id: "C06",
    level: "fault_enumeration",
    rule: "(rounds 6-7: one Parser called again and again after a failed read, persistent and transient, the whole history compared with the fault-free one; inputs with a byte order mark, Unicode spaces, separators, NUL, Ctrl-Z or a shebang at the start, the end or after the first blank) inputs from printed values (several dialects), mutations of them, token-alphabet sequences and arbitrary bytes (<= 200 bytes quick, 2 KiB thorough) x sampled parser option sets (all 1536 reachable) x API (single-shot value, single-shot datum, iterated); the stream is an instrumented io::Read with chunk schedules {1 byte, generated cycle, whole}, optional BufReader of capacity {1,2,3,7,8192}, Interrupted injected by a generated pattern (including before the first read), and a hard error injected at EVERY offset 0..=len of every input with each of four error kinds; oracle: same outcome from str (valid UTF-8 only), slice and stream, and for the iterated APIs the same whole history of items and errors when the caller goes on after an error; a fault at or before the highest offset the fault-free run requested must give an I/O-category error carrying the injected payload, a later fault must change nothing; a stream that keeps failing with WouldBlock must make the call return that error (no further polling), and after a failure that occurs once the parser must not report the end of input before the stream has delivered all its bytes; non-trivial = at least 2 tokens and (a fault strictly inside the input, or >= 2 chunks, or an Interrupted); distinct by digest of (input, options, schedule)",
    assumptions: &[
        "error outcomes are compared by category and message text without the location suffix (locations are C11/C19's subject)",
        "the parser is deterministic, so the set of offsets it requests in the fault-free run determines which faults it must hit",
    ],
    run,
    replay,
    builds: &["ff"],
};

#[derive(Debug)]
pub struct Payload(pub u64);
impl std::fmt::Display for Payload {
    fn fmt(&self, f: &mut std::fmt::Formatter<'_>) -> std::fmt::Result {
        write!(f, "injected read fault #{}", self.0)
    }
}
impl std::error::Error for Payload {}

pub struct FaultyRead<'a> {
    data: &'a [u8],
    pos: usize,
    chunks: Vec<usize>,
    interrupts: Vec<bool>,
    call: usize,
    last_interrupted: bool,
    fault: Option<(usize, io::ErrorKind, u64)>,
    fired: bool,
    pub max_req: Option<usize>,
    pub n_chunks: usize,
    pub n_interrupts: usize,
}

impl<'a> FaultyRead<'a> {
    pub fn new(data: &'a [u8], chunks: &[usize], interrupts: &[bool], fault: Option<(usize, io::ErrorKind, u64)>) -> Self {
        FaultyRead {
            data,
            pos: 0,
            chunks: if chunks.is_empty() { vec![0] } else { chunks.to_vec() },
            interrupts: interrupts.to_vec(),
            call: 0,
            last_interrupted: false,
            fault,
            fired: false,
            max_req: None,
            n_chunks: 0,
            n_interrupts: 0,
        }
    }
}

impl<'a> Read for FaultyRead<'a> {
    fn read(&mut self, buf: &mut [u8]) -> io::Result<usize> {
        if buf.is_empty() {
            return Ok(0);
        }
        let call = self.call;
        self.call += 1;
        if !self.interrupts.is_empty() && self.interrupts[call % self.interrupts.len()] && !self.last_interrupted {
            self.last_interrupted = true;
            self.n_interrupts += 1;
            return Err(io::Error::new(io::ErrorKind::Interrupted, "injected interrupt"));
        }
        self.last_interrupted = false;
        self.max_req = Some(self.max_req.map_or(self.pos, |m| m.max(self.pos)));
        let mut limit = self.data.len() - self.pos;
        if let Some((k, kind, id)) = self.fault {
            if !self.fired {
                if self.pos >= k {
                    self.fired = true;
                    return Err(io::Error::new(kind, Payload(id)));
                }
                limit = limit.min(k - self.pos);
            }
        }
        let c = self.chunks[call % self.chunks.len()];
        let n = buf.len().min(limit).min(if c == 0 { usize::MAX } else { c });
        buf[..n].copy_from_slice(&self.data[self.pos..self.pos + n]);
        self.pos += n;
        if n > 0 {
            self.n_chunks += 1;
        }
        Ok(n)
    }
}

#[derive(Clone, Debug, Serialize, Deserialize, Hash, PartialEq)]
pub enum Api {
    Value,
    Datum,
    Iter,
    IterDatum,
}

#[derive(Clone, Debug, Serialize, Deserialize, Hash)]
pub struct Case {
    pub input: Vec<u8>,
    pub q: usize,
    pub api: Api,
    pub chunks: Vec<usize>,
    pub interrupts: Vec<bool>,
    /// 0 = no BufReader
    pub bufcap: usize,
}

/// What a parse produced, in comparable form.
#[derive(Clone, Debug, PartialEq)]
pub enum Outcome {
    Items(Vec<MV>, Option<(String, String)>),
}

fn err_pair(e: &lexpr::parse::Error) -> (String, String) {
    (category(e).to_string(), err_text(e))
}

fn drive<'de, R: lexpr::parse::Read<'de>>(mut p: Parser<R>, api: &Api, cap: usize) -> Outcome {
    let mut items = Vec::new();
    match api {
        Api::Value => match p.expect_value() {
            Ok(v) => {
                items.push(MV::from_value(&v));
                match p.expect_end() {
                    Ok(()) => Outcome::Items(items, None),
                    Err(e) => Outcome::Items(Vec::new(), Some(err_pair(&e))),
                }
            }
            Err(e) => Outcome::Items(items, Some(err_pair(&e))),
        },
        Api::Datum => match p.expect_datum() {
            Ok(d) => {
                items.push(MV::from_value(d.value()));
                match p.expect_end() {
                    Ok(()) => Outcome::Items(items, None),
                    Err(e) => Outcome::Items(Vec::new(), Some(err_pair(&e))),
                }
            }
            Err(e) => Outcome::Items(items, Some(err_pair(&e))),
        },
        Api::Iter => {
            for _ in 0..cap {
                match p.next_value() {
                    Ok(Some(v)) => items.push(MV::from_value(&v)),
                    Ok(None) => return Outcome::Items(items, None),
                    Err(e) => return Outcome::Items(items, Some(err_pair(&e))),
                }
            }
            Outcome::Items(items, Some(("harness".into(), "iteration cap reached".into())))
        }
        Api::IterDatum => {
            for _ in 0..cap {
                match p.next_datum() {
                    Ok(Some(d)) => items.push(MV::from_value(d.value())),
                    Ok(None) => return Outcome::Items(items, None),
                    Err(e) => return Outcome::Items(items, Some(err_pair(&e))),
                }
            }
            Outcome::Items(items, Some(("harness".into(), "iteration cap reached".into())))
        }
    }
}

/// Single-shot through the public convenience functions (the other route to
/// the same parser), to make sure they agree too.
fn convenience(input: &[u8], q: &QOpt, api: &Api) -> Option<Outcome> {
    match api {
        Api::Value => Some(match lexpr::from_slice_custom(input, q.to_lexpr()) {
            Ok(v) => Outcome::Items(vec![MV::from_value(&v)], None),
            Err(e) => Outcome::Items(Vec::new(), Some(err_pair(&e))),
        }),
        Api::Datum => Some(match lexpr::datum::from_slice_custom(input, q.to_lexpr()) {
            Ok(d) => Outcome::Items(vec![MV::from_value(d.value())], None),
            Err(e) => Outcome::Items(Vec::new(), Some(err_pair(&e))),
        }),
        _ => None,
    }
}

fn outcomes_equal(a: &Outcome, b: &Outcome) -> bool {
    // floats: bit-for-bit, everything else structural
    a == b
}

struct StreamRun {
    outcome: Outcome,
    io_error: Option<lexpr::parse::Error>,
    max_req: Option<usize>,
    n_chunks: usize,
    n_interrupts: usize,
}

fn stream_run(c: &Case, q: &QOpt, fault: Option<(usize, io::ErrorKind, u64)>) -> StreamRun {
    let mut fr = FaultyRead::new(&c.input, &c.chunks, &c.interrupts, fault);
    let cap = c.input.len() + 2;
    // the Io error itself is needed for the payload check, so re-run the
    // single failing call shape here
    let mut io_error = None;
    let outcome = {
        let reader: Box<dyn Read + '_> = if c.bufcap == 0 {
            Box::new(&mut fr)
        } else {
            Box::new(BufReader::with_capacity(c.bufcap, &mut fr))
        };
        let mut p = Parser::from_reader_custom(reader, q.to_lexpr());
        let mut items = Vec::new();
        let mut terminal: Option<(String, String)> = None;
        let mut record_err = |e: lexpr::parse::Error, items: &mut Vec<MV>, single: bool| {
            let pair = err_pair(&e);
            if e.is_io() {
                io_error = Some(e);
            }
            if single {
                items.clear();
            }
            pair
        };
        match c.api {
            Api::Value => match p.expect_value() {
                Ok(v) => {
                    items.push(MV::from_value(&v));
                    if let Err(e) = p.expect_end() {
                        terminal = Some(record_err(e, &mut items, true));
                    }
                }
                Err(e) => terminal = Some(record_err(e, &mut items, false)),
            },
            Api::Datum => match p.expect_datum() {
                Ok(d) => {
                    items.push(MV::from_value(d.value()));
                    if let Err(e) = p.expect_end() {
                        terminal = Some(record_err(e, &mut items, true));
                    }
                }
                Err(e) => terminal = Some(record_err(e, &mut items, false)),
            },
            Api::Iter | Api::IterDatum => {
                let mut n = 0;
                loop {
                    n += 1;
                    if n > cap {
                        terminal = Some(("harness".into(), "iteration cap reached".into()));
                        break;
                    }
                    let r = if c.api == Api::Iter {
                        p.next_value().map(|o| o.map(|v| MV::from_value(&v)))
                    } else {
                        p.next_datum().map(|o| o.map(|d| MV::from_value(d.value())))
                    };
                    match r {
                        Ok(Some(v)) => items.push(v),
                        Ok(None) => break,
                        Err(e) => {
                            terminal = Some(record_err(e, &mut items, false));
                            break;
                        }
                    }
                }
            }
        }
        Outcome::Items(items, terminal)
    };
    StreamRun {
        outcome,
        io_error,
        max_req: fr.max_req,
        n_chunks: fr.n_chunks,
        n_interrupts: fr.n_interrupts,
    }
}

pub const KINDS: [io::ErrorKind; 4] = [
    io::ErrorKind::Other,
    io::ErrorKind::UnexpectedEof,
    io::ErrorKind::InvalidData,
    io::ErrorKind::WouldBlock,
];

fn src_class(label: &str) -> &'static str {
    match label {
        "tokens" => "input:tokens",
        "tokens-spaced" => "input:tokens-spaced",
        "printed" => "input:printed",
        "mutated" => "input:mutated",
        "string-literal" => "input:string-literal",
        _ => "input:anybytes",
    }
}

pub fn check_case(c: &Case, label: &str) -> CaseResult {
    let q = QOpt::from_index(c.q);
    let case = || json!({"case": c, "label": label});
    let fail = |sig: String, msg: String| Failure::new(format!("C06 {}", sig), format!("{} [input {:?}, parser options #{}, api {:?}]", msg, bytes_lossy(&c.input), c.q, c.api), case());
    let r = catch(|| -> Result<(bool, Vec<&'static str>), (String, String)> {
        let cap = c.input.len() + 2;
        // ---- equivalence
        let slice = drive(Parser::from_slice_custom(&c.input, q.to_lexpr()), &c.api, cap);
        if let Some(conv) = convenience(&c.input, &q, &c.api) {
            if !outcomes_equal(&conv, &slice) {
                return Err(("equiv pair=slice-fn/slice-parser".into(), format!("from_slice_custom gives {} but the Parser gives {}", short(&conv), short(&slice))));
            }
        }
        let mut classes = vec![src_class(label)];
        if let Ok(s) = std::str::from_utf8(&c.input) {
            let st = drive(Parser::from_str_custom(s, q.to_lexpr()), &c.api, cap);
            if !outcomes_equal(&st, &slice) {
                return Err((
                    format!("equiv pair=str/slice {}", diff_kind(&st, &slice)),
                    format!("str gives {} but slice gives {}", short(&st), short(&slice)),
                ));
            }
            classes.push("utf8:valid");
        } else {
            classes.push("utf8:invalid");
        }
        let base = stream_run(c, &q, None);
        if !outcomes_equal(&base.outcome, &slice) {
            return Err((
                format!("equiv pair=stream/slice {}", diff_kind(&base.outcome, &slice)),
                format!("stream (chunks {:?}, interrupts {:?}, bufcap {}) gives {} but slice gives {}", c.chunks, c.interrupts, c.bufcap, short(&base.outcome), short(&slice)),
            ));
        }
        // an iterating caller goes on after an error: the whole history of
        // items and errors is the same from every source kind
        if matches!(c.api, Api::Iter | Api::IterDatum) {
            let datum = c.api == Api::IterDatum;
            fn history<'de, R: lexpr::parse::Read<'de>>(mut p: Parser<R>, datum: bool, cap: usize) -> Vec<Result<MV, (String, String)>> {
                let mut out = Vec::new();
                for _ in 0..cap {
                    let r = if datum { p.next_datum().map(|o| o.map(|d| MV::from_value(d.value()))) } else { p.next_value().map(|o| o.map(|v| MV::from_value(&v))) };
                    match r {
                        Ok(Some(m)) => out.push(Ok(m)),
                        Ok(None) => break,
                        Err(e) => out.push(Err(err_pair(&e))),
                    }
                }
                out
            }
            let from_slice = history(Parser::from_slice_custom(&c.input, q.to_lexpr()), datum, cap);
            let from_stream = history(Parser::from_reader_custom(FaultyRead::new(&c.input, &c.chunks, &c.interrupts, None), q.to_lexpr()), datum, cap);
            let first_diff = |a: &Vec<Result<MV, (String, String)>>, b: &Vec<Result<MV, (String, String)>>| a.iter().zip(b.iter()).position(|(x, y)| x != y).unwrap_or(a.len().min(b.len()));
            if from_stream != from_slice {
                let i = first_diff(&from_stream, &from_slice);
                return Err((
                    "equiv pair=stream/slice history-after-error".into(),
                    format!("iterating past errors: call {} gives {} from the stream but {} from the slice ({} vs {} calls in all)", i, short(&from_stream.get(i)), short(&from_slice.get(i)), from_stream.len(), from_slice.len()),
                ));
            }
            if let Ok(st) = std::str::from_utf8(&c.input) {
                let from_str = history(Parser::from_str_custom(st, q.to_lexpr()), datum, cap);
                if from_str != from_slice {
                    let i = first_diff(&from_str, &from_slice);
                    return Err((
                        "equiv pair=str/slice history-after-error".into(),
                        format!("iterating past errors: call {} gives {} from the str but {} from the slice", i, short(&from_str.get(i)), short(&from_slice.get(i))),
                    ));
                }
            }
        }
        // a stream that keeps failing: the call has to return the error instead
        // of polling on (bounded here: the reader gives up after 1000 polls; up to one poll per enclosing list is normal while the error unwinds), and
        // a stream that fails once must not be taken for finished afterwards
        {
            use std::cell::Cell;
            use std::rc::Rc;
            struct Stuck<'a> {
                data: &'a [u8],
                pos: usize,
                stop: usize,
                transient: bool,
                polls: Rc<Cell<usize>>,
                delivered: Rc<Cell<usize>>,
            }
            impl<'a> Read for Stuck<'a> {
                fn read(&mut self, out: &mut [u8]) -> io::Result<usize> {
                    if self.pos == self.stop && (!self.transient || self.polls.get() == 0) {
                        self.polls.set(self.polls.get() + 1);
                        if self.polls.get() > 1000 {
                            return Err(io::Error::new(io::ErrorKind::Other, "poll budget exhausted"));
                        }
                        return Err(io::Error::new(io::ErrorKind::WouldBlock, Payload(4242)));
                    }
                    match (self.data.get(self.pos), out.first_mut()) {
                        (Some(b), Some(o)) => {
                            *o = *b;
                            self.pos += 1;
                            self.delivered.set(self.pos);
                            Ok(1)
                        }
                        _ => Ok(0),
                    }
                }
            }
            let stop = (digest_of(&c.input) as usize) % (c.input.len() + 1);
            let datum = matches!(c.api, Api::Datum | Api::IterDatum);
            // what the same calls give without any failure: an end-of-input
            // error that the delivered bytes determine anyway is not "early"
            let plain: Vec<Option<(String, String)>> = {
                let mut p = Parser::from_slice_custom(&c.input, q.to_lexpr());
                let mut out = Vec::new();
                for _ in 0..cap + 4 {
                    let r = if datum { p.next_datum().map(|o| o.is_some()) } else { p.next_value().map(|o| o.is_some()) };
                    match r {
                        Ok(true) => out.push(None),
                        Ok(false) => break,
                        Err(e) => out.push(Some(err_pair(&e))),
                    }
                }
                out
            };
            for transient in [false, true] {
                let mut idx = 0usize;
                let polls = Rc::new(Cell::new(0usize));
                let delivered = Rc::new(Cell::new(0usize));
                let mut p = Parser::from_reader_custom(Stuck { data: &c.input, pos: 0, stop, transient, polls: polls.clone(), delivered: delivered.clone() }, q.to_lexpr());
                let mut saw_io = false;
                for _ in 0..cap + 4 {
                    let r = if datum { p.next_datum().map(|o| o.is_some()) } else { p.next_value().map(|o| o.is_some()) };
                    if !matches!(&r, Err(e) if e.is_io()) {
                        idx += 1;
                    }
                    match r {
                        Ok(true) => {}
                        Ok(false) => {
                            // (only once the failure has happened: before that an
                            // early end is the parser's reading of the bytes it got)
                            if polls.get() > 0 && delivered.get() < c.input.len() {
                                return Err((
                                    format!("stuck-stream end-reported-early transient={}", transient),
                                    format!("end of input reported after {} of {} bytes: the stream failed{} at offset {} and was taken for finished", delivered.get(), c.input.len(), if transient { " once" } else { "" }, stop),
                                ));
                            }
                            break;
                        }
                        Err(e) if e.is_io() => {
                            saw_io = true;
                            let back: io::Error = e.into();
                            if back.kind() != io::ErrorKind::WouldBlock {
                                return Err(("stuck-stream kept-polling".into(), format!("the stream failed with WouldBlock at offset {} and was polled {} more times until it gave up", stop, polls.get())));
                            }
                            if !transient {
                                break;
                            }
                        }
                        Err(e) => {
                            // an end-of-input *error* is only held against the parser when
                            // the stream keeps failing (after a failure that occurs once,
                            // the token in progress is lost and malformed constants further
                            // on are classified as end-of-input errors as well)
                            let same_without_failure = plain.get(idx - 1).map_or(false, |x| *x == Some(err_pair(&e)));
                            if !transient && polls.get() > 0 && e.is_eof() && delivered.get() < c.input.len() && !same_without_failure {
                                return Err((
                                    format!("stuck-stream eof-reported-early transient={}", transient),
                                    format!("an end-of-input error ({}) after {} of {} bytes: the stream failure at offset {} was taken for the end", e, delivered.get(), c.input.len(), stop),
                                ));
                            }
                        }
                    }
                }
                // (while unwinding, every enclosing list looks at the next byte once:
                // the number of polls is bounded by the nesting limit)
                if polls.get() > 140 {
                    return Err(("stuck-stream kept-polling".into(), format!("the failing stream was polled {} times by a single caller that stopped at the first error", polls.get())));
                }
                let _ = saw_io;
            }
        }
        // the unbuffered one-byte run defines `need`
        let plain = Case { chunks: vec![0], interrupts: vec![], bufcap: 0, ..c.clone() };
        let plain_run = stream_run(&plain, &q, None);
        if !outcomes_equal(&plain_run.outcome, &slice) {
            return Err((
                format!("equiv pair=stream/slice {}", diff_kind(&plain_run.outcome, &slice)),
                format!("plain stream gives {} but slice gives {}", short(&plain_run.outcome), short(&slice)),
            ));
        }
        let need = plain_run.max_req;
        // ---- faults at every offset
        // A fault at offset k may surface as an I/O error carrying the injected
        // error, or leave the fault-free outcome untouched - but the latter
        // only if the first k bytes determine that outcome, i.e. every
        // continuation of input[..k] parses to the same outcome (checked on a
        // few continuations: a sound necessary condition). Anything else means
        // the failure was swallowed or treated as end of input.
        let Outcome::Items(base_items, _) = &slice;
        let mut inside_fault = false;
        const CONT: [&[u8]; 5] = [b"", b")", b"a", b"\"", b" 1"];
        for k in 0..=c.input.len() {
            let mut determined: Option<bool> = None;
            for (ki, kind) in KINDS.iter().enumerate() {
                // all kinds at a few offsets, two kinds everywhere
                if ki >= 2 && k % 5 != 0 && k != c.input.len() {
                    continue;
                }
                let id = (k as u64) << 8 | ki as u64;
                let run = stream_run(c, &q, Some((k, *kind, id)));
                let Outcome::Items(items, term) = &run.outcome;
                let where_ = if k == 0 { "start" } else if k >= c.input.len() { "end" } else { "inside" };
                let is_io = matches!(term, Some((cat, _)) if cat == "io");
                if is_io {
                    if k > 0 && k < c.input.len() {
                        inside_fault = true;
                    }
                    if need.map_or(true, |n| k > n) {
                        return Err((
                            format!("fault io-error-from-unread-offset api={:?}", c.api),
                            format!("an I/O error surfaced for a fault at offset {} although the plain run only reads up to {:?}", k, need),
                        ));
                    }
                    if matches!(c.api, Api::Iter | Api::IterDatum) && !base_items.starts_with(items) {
                        return Err((
                            format!("fault items-before-fault-differ api={:?}", c.api),
                            format!("items before the fault {} are not a prefix of the fault-free items {}", short(items), short(base_items)),
                        ));
                    }
                    match run.io_error {
                        None => return Err(("fault no-io-error-object".into(), "Io outcome without error object".into())),
                        Some(e) => {
                            let src_ok = std::error::Error::source(&e)
                                .and_then(|s| s.downcast_ref::<io::Error>())
                                .and_then(|ioe| ioe.get_ref())
                                .and_then(|inner| inner.downcast_ref::<Payload>())
                                .map_or(false, |p| p.0 == id);
                            let back: io::Error = e.into();
                            let back_ok = back.kind() == *kind
                                && back.get_ref().and_then(|i| i.downcast_ref::<Payload>()).map_or(false, |p| p.0 == id);
                            if !src_ok || !back_ok {
                                return Err((
                                    format!("fault wrong-payload kind={:?}", kind),
                                    format!("the I/O error does not carry the injected error (source ok: {}, io::Error::from ok: {}, kind {:?})", src_ok, back_ok, back.kind()),
                                ));
                            }
                        }
                    }
                    continue;
                }
                if !outcomes_equal(&run.outcome, &slice) {
                    return Err((
                        format!("fault swallowed at={} api={:?} got={}", where_, c.api, term.as_ref().map_or("ok".to_string(), |t| format!("{}:{}", t.0, t.1))),
                        format!("a read error ({:?}) at offset {} turned the result into {} (fault-free: {}): the failure was swallowed or treated as end of input", kind, k, short(&run.outcome), short(&slice)),
                    ));
                }
                // same as fault-free: only allowed if input[..k] determines it
                if need.map_or(false, |n| k <= n) {
                    let det = *determined.get_or_insert_with(|| {
                        CONT.iter().all(|x| {
                            let mut alt = c.input[..k].to_vec();
                            alt.extend_from_slice(x);
                            let o = drive(Parser::from_slice_custom(&alt, q.to_lexpr()), &c.api, alt.len() + 2);
                            outcomes_equal(&o, &slice)
                        })
                    });
                    if !det {
                        return Err((
                            format!("fault ignored at={} api={:?}", where_, c.api),
                            format!("the parser read offset {} (plain run reads up to {:?}), got the injected error ({:?}) and still returned the fault-free outcome {}, although the first {} bytes do not determine it", k, need, kind, short(&slice), k),
                        ));
                    }
                }
            }
        }
        let tokens = c.input.split(|b| b" \n\t\r()[]".contains(b)).filter(|t| !t.is_empty()).count();
        let nt = tokens >= 2 && (inside_fault || base.n_chunks >= 2 || base.n_interrupts >= 1);
        if base.n_interrupts > 0 {
            classes.push("sched:interrupted");
        }
        if c.bufcap > 0 {
            classes.push("sched:bufreader");
        }
        if base.n_chunks >= 2 {
            classes.push("sched:multi-chunk");
        }
        classes.push(match c.api {
            Api::Value => "api:value",
            Api::Datum => "api:datum",
            Api::Iter => "api:iter",
            Api::IterDatum => "api:iter-datum",
        });
        let Outcome::Items(_, term) = &slice;
        classes.push(if term.is_some() { "outcome:error" } else { "outcome:ok" });
        Ok((nt, classes))
    });
    match r {
        Err(pm) => Err(fail(format!("panic={}", panic_sig(&pm)), format!("panicked: {}", pm))),
        Ok(Err((sig, msg))) => Err(fail(sig, msg)),
        Ok(Ok((nt, classes))) => Ok(Eval::new(nt, digest_of(c)).classes(&classes)),
    }
}

fn diff_kind(a: &Outcome, b: &Outcome) -> String {
    let (Outcome::Items(ai, at), Outcome::Items(bi, bt)) = (a, b);
    if ai != bi {
        if ai.len() != bi.len() {
            "items=count".to_string()
        } else {
            "items=value".to_string()
        }
    } else {
        format!(
            "terminal={}/{}",
            at.as_ref().map_or("ok".to_string(), |t| format!("{}:{}", t.0, t.1)),
            bt.as_ref().map_or("ok".to_string(), |t| format!("{}:{}", t.0, t.1))
        )
    }
}

pub fn g_case(max_len: usize) -> BS<(Case, &'static str)> {
    let api = prop_oneof![Just(Api::Value), Just(Api::Datum), Just(Api::Iter), Just(Api::IterDatum)];
    let chunks = prop_oneof![
        2 => Just(vec![1usize]),
        2 => Just(vec![0usize]),
        3 => vec(1usize..9, 1..5),
    ];
    let interrupts = prop_oneof![
        3 => Just(Vec::<bool>::new()),
        2 => vec(any::<bool>(), 1..6),
        1 => Just(vec![true, false]),
    ];
    let bufcap = prop_oneof![3 => Just(0usize), 1 => Just(1usize), 1 => Just(2usize), 1 => Just(3usize), 1 => Just(7usize), 1 => Just(8192usize)];
    (g_input(max_len), g_qopt_index(), api, chunks, interrupts, bufcap)
        .prop_map(|((input, label), q, api, chunks, interrupts, bufcap)| {
            (Case { input, q, api, chunks, interrupts, bufcap }, label)
        })
        .boxed()
}

fn run(ctx: &mut Ctx) {
    let tier = ctx.tier;
    use rayon::prelude::*;
    let max_len = tier.pick(200, 2048);
    let parent = &*ctx;
    let children: Vec<Ctx> = (0..16u32)
        .into_par_iter()
        .map(|w| {
            let mut c = parent.fork();
            c.run_prop(&format!("stream/{}", w), tier.pick(2_500, 20_000), g_case(max_len), |(c, l)| check_case(c, l));
            c
        })
        .collect();
    for c in children {
        ctx.absorb(c);
    }
    for (c, l) in ctx.sample_values("stream", &g_case(60), 6) {
        ctx.add_sample("stream", json!({"input": bytes_lossy(&c.input), "from": l, "parser_index": c.q, "api": format!("{:?}", c.api), "chunks": c.chunks, "interrupts": c.interrupts, "bufcap": c.bufcap}));
    }
    ctx.exhaustive.push("a hard read error at every byte offset 0..=len of every input (2 error kinds everywhere, 4 at every fifth offset)".into());
    ctx.required_classes = vec![
        "input:tokens", "input:printed", "input:mutated", "input:anybytes", "utf8:valid", "utf8:invalid",
        "sched:interrupted", "sched:bufreader", "sched:multi-chunk", "api:value", "api:datum", "api:iter",
        "api:iter-datum", "outcome:ok", "outcome:error",
    ];
}

fn replay(_sub: &str, case: &Json) -> Option<CaseResult> {
    let c: Case = serde_json::from_value(case.get("case")?.clone()).ok()?;
    Some(check_case(&c, case.get("label").and_then(|l| l.as_str()).unwrap_or("anybytes")))
}

/// libFuzzer entry: raw bytes with a derived chunking (mode even) or a generated case.
pub fn fuzz(f: &mut FuzzIn) -> Option<CaseResult> {
    if f.mode % 2 == 0 {
        let (q, rest) = f.raw_q_input();
        if rest.len() < 3 || rest.len() > 300 {
            return None;
        }
        let (h, input) = rest.split_at(3);
        let api = match h[0] % 4 {
            0 => Api::Value,
            1 => Api::Datum,
            2 => Api::Iter,
            _ => Api::IterDatum,
        };
        let chunks: Vec<usize> = vec![1 + (h[1] % 8) as usize, 1 + (h[1] / 8 % 8) as usize, 1 + (h[1] / 64) as usize];
        let interrupts: Vec<bool> = (0..6).map(|i| h[2] >> i & 1 == 1).collect();
        let bufcap = [0usize, 1, 2, 3, 8][(h[0] / 4 % 5) as usize];
        let c = Case { input: input.to_vec(), q, api, chunks, interrupts, bufcap };
        return Some(check_case(&c, "anybytes"));
    }
    let (c, l) = f.draw(&g_case(200))?;
    Some(check_case(&c, l))
}
