//! C16 — stack use does not grow with the number of list elements.
//!
//! Every case is one child process running the operation on a 2 MiB thread
//! (see child.rs). The child checks the result against a model (length, last
//! element, text) so that "surviving by doing nothing" fails too.

use std::io::Cursor;
use std::time::Duration;

use lexpr::{Cons, Value};
use serde::{Deserialize, Serialize};
use serde_json::{json, Value as Json};

use crate::child::{self, ChildOutcome};
use crate::engine::*;
use crate::props::Prop;

pub const PROP: Prop = Prop {
    id: "C16",
    level: "exploration",
    rule: "(rounds 6-7: size_hint, collect, extend, zip, last, nth, skip, step_by, fold, max_by_key on Cons::iter, list_iter and into_iter of a long list) operation x length x shape x builder, one child process per case on a 2 MiB thread stack in the plain optimised profile: operations = parse from str/slice/reader, datum parse from reader (and from str at n <= 10^5), to_string, Display, to_writer, Cons::to_vec/into_vec/to_ref_vec, Value::to_vec/to_ref_vec, iter, list_iter, into_iter, get(n-1), [usize::MAX], is_list, is_dotted_list, clone, ==, drop, Datum clone/==/drop/list_iter/value conversion, serde to_value/from_value/to_string/from_str of Vec<u32>; lengths drawn log-uniformly from [2*10^5, 4*10^6] (two draws per operation in the quick tier, eight plus one 10^7 in the thorough tier); shapes proper, dotted and association list; a list spelled as a chain of n dotted pairs (must be refused by the nesting limit, in both APIs); clone_from into an existing long list (Cons and Value); comparisons of equal lists, of lists differing only at the end, at every position and at every second position; deserialisation of long inputs through a skipped unknown struct field, IgnoredAny, wrong-kind targets, a long vector and a long improper list; element kinds number, #nil, (), boolean, symbol, string, character, float, keyword, byte vector, empty vector and seven long runs of changing kind (drawn per case in the optimised profile, and ALL kinds under the element-touching operations drop, drop of a replaced tail, drop of a partly consumed into_iter, clone, ==, print, parse, parse failing at end of input with n elements collected, to_vec, Datum drop/clone/==/conversion in the unoptimised profile at 1-2*10^5 elements); builders parser, constructors and Serde. The child verifies its result against a model (length, last element, printed text). A child killed by a signal is a violation with signature op=<operation>. Every case is non-trivial: 2*10^5 elements is far beyond what per-element recursion survives on 2 MiB; distinct by (op, n, shape, builder)",
    assumptions: &[
        "stack independence is shown for the sampled lengths, on this platform, for the optimised (release-like) profile without debug assertions: frame sizes and tail-call elimination are compiler artefacts",
        "a watchdog expiry (120 s) is reported as inconclusive, never as a violation",
    ],
    run,
    replay,
    builds: &["ff"],
};

#[derive(Clone, Debug, Serialize, Deserialize, Hash)]
pub struct Spec {
    pub op: String,
    pub n: usize,
    /// "proper" | "dotted" | "alist"
    pub shape: String,
    /// "parser" | "ctor" | "serde"
    pub builder: String,
    /// build profile of the child: "plain" (optimised, no debug assertions)
    /// or "dev" (unoptimised)
    #[serde(default = "default_profile")]
    pub profile: String,
    /// kind of the list elements (alist: of the keys): one of ELEM_KINDS
    #[serde(default = "default_elems")]
    pub elems: String,
}

fn default_elems() -> String {
    "num".to_string()
}

/// Element kinds. "num" is the historical one; the others make sure no
/// per-element-kind shortcut (an emptied-cell test, a fast path for
/// immediates) takes an operation off its iterative path. "runs" is seven
/// long runs, one per kind, so that the kind changes inside the list.
pub const ELEM_KINDS: &[&str] = &["num", "nil", "null", "bool", "sym", "str", "char", "float", "kw", "bytes", "vec", "runs"];

static ELEMS: std::sync::OnceLock<String> = std::sync::OnceLock::new();

fn elems() -> &'static str {
    ELEMS.get().map(|s| s.as_str()).unwrap_or("num")
}

/// (value, default-printer text) of the i-th element of kind `kind` in a list of n
fn atom(i: usize, n: usize, kind: &str) -> (Value, String) {
    match kind {
        "nil" => (Value::Nil, "#nil".into()),
        "null" => (Value::Null, "()".into()),
        "bool" => (Value::Bool(i % 2 == 0), if i % 2 == 0 { "#t" } else { "#f" }.into()),
        "sym" => (Value::symbol(format!("s{}", i % 10)), format!("s{}", i % 10)),
        "str" => (Value::string(format!("t{}", i % 10)), format!("\"t{}\"", i % 10)),
        "char" => (Value::Char((b'a' + (i % 26) as u8) as char), format!("#\\{}", (b'a' + (i % 26) as u8) as char)),
        "float" => (Value::from((i % 100) as f64 + 0.5), format!("{}.5", i % 100)),
        "kw" => (Value::keyword(format!("k{}", i % 10)), format!("#:k{}", i % 10)),
        "bytes" => (Value::from(vec![(i % 200) as u8]), format!("#u8({})", i % 200)),
        "vec" => (Value::Vector(Vec::new().into()), "#()".into()),
        "runs" => {
            const RUN: [&str; 7] = ["nil", "num", "null", "sym", "bool", "str", "vec"];
            let run = (n / 7).max(1);
            atom(i, n, RUN[(i / run) % 7])
        }
        _ => (Value::from((i % 1000) as u32), (i % 1000).to_string()),
    }
}

fn default_profile() -> String {
    "plain".to_string()
}

fn child_exe(profile: &str) -> Option<std::path::PathBuf> {
    let var = if profile == "dev" { "VP_CHILD_EXE_DEV" } else { "VP_CHILD_EXE" };
    std::env::var_os(var).map(std::path::PathBuf::from)
}

fn text_of(n: usize, shape: &str) -> String {
    let mut s = String::with_capacity(n * 8 + 16);
    s.push('(');
    for i in 0..n {
        if i > 0 {
            s.push(' ');
        }
        if shape == "alist" {
            s.push_str(&format!("({} . {})", atom(i, n, elems()).1, i % 7));
        } else {
            s.push_str(&atom(i, n, elems()).1);
        }
    }
    if shape == "dotted" {
        s.push_str(" . end");
    }
    s.push(')');
    s
}

fn elem(i: usize, n: usize, shape: &str) -> Value {
    if shape == "alist" {
        Value::cons(atom(i, n, elems()).0, (i % 7) as u32)
    } else {
        atom(i, n, elems()).0
    }
}

fn build(spec: &Spec) -> Value {
    let n = spec.n;
    match spec.builder.as_str() {
        "parser" => lexpr::from_reader(Cursor::new(text_of(n, &spec.shape).into_bytes())).expect("parse"),
        "serde" => {
            #[cfg(feature = "ff")]
            {
                let v: Vec<u32> = (0..n).map(|i| (i % 1000) as u32).collect();
                return serde_lexpr::to_value(&v).expect("to_value");
            }
            #[allow(unreachable_code)]
            Value::Null
        }
        _ => {
            let items = (0..n).map(|i| elem(i, n, &spec.shape));
            if spec.shape == "dotted" {
                Value::append(items, Value::symbol("end"))
            } else {
                Value::list(items)
            }
        }
    }
}

/// Iterative structural check (does not use ==, clone or to_vec).
fn verify(v: &Value, n: usize, shape: &str) -> bool {
    let mut cur = v;
    let mut i = 0usize;
    while let Value::Cons(c) = cur {
        // the elements are atoms (or empty vectors): == on them does not recurse
        let want = atom(i, n, elems()).0;
        let ok = if shape == "alist" {
            c.car().as_pair().map_or(false, |(a, b)| *a == want && b.as_u64() == Some((i % 7) as u64))
        } else {
            *c.car() == want
        };
        if !ok {
            return false;
        }
        i += 1;
        cur = c.cdr();
    }
    i == n && if shape == "dotted" { cur.as_symbol() == Some("end") } else { cur.is_null() }
}

fn run_op(spec: &Spec) -> Json {
    let _ = ELEMS.set(spec.elems.clone());
    let n = spec.n;
    let shape = spec.shape.as_str();
    let op = spec.op.as_str();
    let proper = shape != "dotted";
    let ok: bool = match op {
        "parse-str" => {
            let t = text_of(n, shape);
            let v = lexpr::from_str(&t).expect("parse");
            let r = verify(&v, n, shape);
            std::mem::forget(v);
            r
        }
        "parse-slice" => {
            let t = text_of(n, shape);
            let v = lexpr::from_slice(t.as_bytes()).expect("parse");
            let r = verify(&v, n, shape);
            std::mem::forget(v);
            r
        }
        "parse-reader" => {
            let v = lexpr::from_reader(Cursor::new(text_of(n, shape).into_bytes())).expect("parse");
            let r = verify(&v, n, shape);
            std::mem::forget(v);
            r
        }
        "parse-iter" => {
            let t = text_of(n, shape);
            let mut p = lexpr::Parser::from_str(&t);
            let v = p.next_value().expect("parse").expect("one value");
            let r = verify(&v, n, shape) && p.next_value().expect("end").is_none();
            std::mem::forget(v);
            r
        }
        "parse-dotted-chain" | "datum-parse-dotted-chain" => {
            // a list spelled as a chain of dotted pairs nests once per element:
            // the parser has to refuse it (nesting limit), not recurse n levels
            let mut t = String::with_capacity(n * 7 + 4);
            for _ in 0..n {
                t.push_str("(0 . ");
            }
            t.push_str("()");
            for _ in 0..n {
                t.push(')');
            }
            if op == "parse-dotted-chain" {
                lexpr::from_reader(Cursor::new(t.into_bytes())).is_err()
            } else {
                lexpr::datum::from_reader(Cursor::new(t.into_bytes())).is_err()
            }
        }
        "parse-error-discard" | "datum-parse-error-discard" => {
            // the closing parenthesis is missing: the parser has to give up at
            // end of input and discard the n elements it has collected
            let mut t = text_of(n, shape);
            t.pop();
            if op == "parse-error-discard" {
                lexpr::from_reader(Cursor::new(t.into_bytes())).is_err()
            } else {
                lexpr::datum::from_reader(Cursor::new(t.into_bytes())).is_err()
            }
        }
        "datum-parse-reader" | "datum-parse-str" | "datum-clone" | "datum-eq" | "datum-ne-last" | "datum-ne-everywhere" | "datum-drop" | "datum-list_iter" | "datum-into-value" | "datum-as_pair-walk" => {
            let t = text_of(n, shape);
            let d = if op == "datum-parse-str" {
                lexpr::datum::from_str(&t).expect("parse")
            } else {
                lexpr::datum::from_reader(Cursor::new(t.clone().into_bytes())).expect("parse")
            };
            match op {
                "datum-parse-reader" | "datum-parse-str" => {
                    let r = verify(d.value(), n, shape);
                    std::mem::forget(d);
                    r
                }
                "datum-clone" => {
                    let c = d.clone();
                    let r = verify(c.value(), n, shape);
                    std::mem::forget(c);
                    std::mem::forget(d);
                    r
                }
                "datum-eq" => {
                    let e = lexpr::datum::from_reader(Cursor::new(t.into_bytes())).expect("parse");
                    let r = d == e;
                    std::mem::forget(e);
                    std::mem::forget(d);
                    r
                }
                "datum-ne-last" => {
                    // differs only at the very end: the comparison has to walk everything
                    let t2 = if shape == "dotted" { t.replace(" . end)", " . other)") } else { format!("{} x)", &t[..t.len() - 1]) };
                    let e = lexpr::datum::from_reader(Cursor::new(t2.into_bytes())).expect("parse");
                    let r = d != e;
                    std::mem::forget(e);
                    std::mem::forget(d);
                    r
                }
                "datum-ne-everywhere" => {
                    // same length, every element different (so are all the spans after the first)
                    let t2 = {
                        let mut s2 = String::with_capacity(t.len() + n);
                        s2.push('(');
                        for i in 0..n {
                            if i > 0 {
                                s2.push(' ');
                            }
                            s2.push_str(if i % 3 == 0 { "zz" } else { "q" });
                        }
                        s2.push(')');
                        s2
                    };
                    let e = lexpr::datum::from_reader(Cursor::new(t2.into_bytes())).expect("parse");
                    let r = d != e && e != d;
                    std::mem::forget(e);
                    std::mem::forget(d);
                    r
                }
                "datum-drop" => {
                    let r = verify(d.value(), n, shape);
                    drop(d);
                    r
                }
                "datum-list_iter" => {
                    let mut it = d.list_iter().expect("list");
                    let mut count = 0usize;
                    let mut guard = 0usize;
                    while !it.is_empty() && guard < 3 * n + 10 {
                        guard += 1;
                        if it.next().is_some() {
                            count += 1;
                        }
                    }
                    let r = count == n + if proper { 0 } else { 1 };
                    std::mem::forget(d);
                    r
                }
                "datum-as_pair-walk" => {
                    let mut r = d.as_ref();
                    let mut count = 0usize;
                    while let Some((_, cdr)) = r.as_pair() {
                        count += 1;
                        r = cdr;
                    }
                    let ok = count == n;
                    std::mem::forget(d);
                    ok
                }
                _ => {
                    let v = Value::from(d);
                    let r = verify(&v, n, shape);
                    std::mem::forget(v);
                    r
                }
            }
        }
        #[cfg(feature = "ff")]
        "serde-to_value" => {
            let v: Vec<u32> = (0..n).map(|i| (i % 1000) as u32).collect();
            let x = serde_lexpr::to_value(&v).expect("to_value");
            let r = verify(&x, n, "proper");
            std::mem::forget(x);
            r
        }
        #[cfg(feature = "ff")]
        "serde-from_value" => {
            let x = build(spec);
            let v: Vec<u32> = serde_lexpr::from_value(&x).expect("from_value");
            std::mem::forget(x);
            v.len() == n && v[n - 1] == ((n - 1) % 1000) as u32
        }
        #[cfg(feature = "ff")]
        "serde-skip-long-field" | "serde-ignored-any" | "serde-wrong-kind-long" | "serde-long-vector" | "serde-improper-long" => {
            #[derive(serde::Deserialize, PartialEq, Debug)]
            struct P2 {
                x: u32,
                y: u32,
            }
            let long = build(spec);
            let r = match op {
                // a derived struct skips an entry it does not know through
                // deserialize_ignored_any, whatever the size of the entry
                "serde-skip-long-field" => {
                    let v = Value::list(vec![Value::cons(Value::symbol("x"), 1u32), Value::cons(Value::symbol("junk"), long), Value::cons(Value::symbol("y"), 2u32)]);
                    let r = serde_lexpr::from_value::<P2>(&v).ok() == Some(P2 { x: 1, y: 2 });
                    std::mem::forget(v);
                    return json!({"ok": r});
                }
                "serde-ignored-any" => serde_lexpr::from_value::<serde::de::IgnoredAny>(&long).is_ok(),
                // a long list where something else is expected: an error, whatever its length
                "serde-wrong-kind-long" => {
                    // (a tuple target reads its two elements and ignores the rest:
                    // either outcome is fine, it only has to return)
                    let _ = serde_lexpr::from_value::<(u32, u32)>(&long);
                    serde_lexpr::from_value::<u32>(&long).is_err()
                        && serde_lexpr::from_value::<String>(&long).is_err()
                        && serde_lexpr::from_value::<P2>(&long).is_err()
                }
                "serde-long-vector" => {
                    let v = Value::Vector((0..n).map(|i| Value::from((i % 1000) as u32)).collect::<Vec<_>>().into());
                    let r = serde_lexpr::from_value::<Vec<u32>>(&v).map(|x| x.len()).ok() == Some(n);
                    std::mem::forget(v);
                    r
                }
                _ => {
                    let v = Value::append((0..n).map(|i| Value::from((i % 1000) as u32)), Value::from(7u32));
                    let r = serde_lexpr::from_value::<Vec<u32>>(&v).is_err();
                    std::mem::forget(v);
                    r
                }
            };
            std::mem::forget(long);
            r
        }
        #[cfg(feature = "ff")]
        "serde-to_string" => {
            let v: Vec<u32> = (0..n).map(|i| (i % 1000) as u32).collect();
            serde_lexpr::to_string(&v).expect("to_string") == text_of(n, "proper")
        }
        #[cfg(feature = "ff")]
        "serde-from_str" => {
            let v: Vec<u32> = serde_lexpr::from_str(&text_of(n, "proper")).expect("from_str");
            v.len() == n && v[n - 1] == ((n - 1) % 1000) as u32
        }
        _ => {
            let v = build(spec);
            let r = match op {
                "print-to_string" => lexpr::to_string(&v).expect("print") == text_of(n, shape),
                "print-display" => format!("{}", v) == text_of(n, shape),
                "print-to_writer" => {
                    let mut w = Vec::new();
                    lexpr::to_writer(&mut w, &v).expect("print");
                    w == text_of(n, shape).into_bytes()
                }
                "cons-to_vec" => {
                    let (xs, t) = v.as_cons().unwrap().to_vec();
                    xs.len() == n && (t.is_null() == proper)
                }
                "cons-to_ref_vec" => {
                    let (xs, t) = v.as_cons().unwrap().to_ref_vec();
                    xs.len() == n && (t.is_null() == proper)
                }
                "value-to_vec" => v.to_vec().map(|x| x.len()) == if proper { Some(n) } else { None },
                "value-to_ref_vec" => v.to_ref_vec().map(|x| x.len()) == if proper { Some(n) } else { None },
                "iter-count" => v.as_cons().unwrap().iter().count() == n,
                "list_iter-count" => {
                    let mut it = v.list_iter().unwrap();
                    let mut count = 0usize;
                    let mut guard = 0usize;
                    while !it.is_empty() && guard < 3 * n + 10 {
                        guard += 1;
                        if it.next().is_some() {
                            count += 1;
                        }
                    }
                    count == n + if proper { 0 } else { 1 }
                }
                "get-last" => v.get(n - 1).map_or(false, |x| *x == elem(n - 1, n, shape)) && v.get(n).is_none(),
                "index-max" => v[usize::MAX].is_nil() && v[n + 5].is_nil(),
                "index-name" => v.get("no-such-key").is_none() && v["no-such-key"].is_nil() && v.get(&Value::from(123456u32)).is_none(),
                "is_list" => v.is_list() == proper,
                "is_dotted_list" => v.is_dotted_list() != proper,
                "clone" => {
                    let c = v.clone();
                    let r = verify(&c, n, shape);
                    std::mem::forget(c);
                    r
                }
                "eq" => {
                    let w = build(spec);
                    let r = v == w;
                    std::mem::forget(w);
                    r
                }
                "ne-last" => {
                    // differs only in the last element: the comparison has to walk everything
                    let w = Value::append((0..n).map(|i| elem(i, n, shape)), Value::symbol("other-end"));
                    let r = v != w;
                    std::mem::forget(w);
                    r
                }
                "cons-clone_from" | "value-clone_from" => {
                    // clone into an existing long list (the destination's cells may be reused)
                    let mut dst = Value::append((0..n + 3).map(|_| Value::symbol("old")), Value::symbol("old-end"));
                    if op == "cons-clone_from" {
                        match (dst.as_cons_mut(), v.as_cons()) {
                            (Some(d), Some(s)) => d.clone_from(s),
                            _ => return json!({"ok": false}),
                        }
                    } else {
                        dst.clone_from(&v);
                    }
                    let r = verify(&dst, n, shape);
                    std::mem::forget(dst);
                    r
                }
                "ne-everywhere" | "ne-half" => {
                    // the other list differs at every (every second) position and in its tail
                    let step = if op == "ne-half" { 2 } else { 1 };
                    let w = Value::append((0..n).map(|i| if i % step == 0 { Value::symbol("different") } else { elem(i, n, shape) }), Value::symbol("other-end"));
                    let r = v != w && w != v;
                    std::mem::forget(w);
                    r
                }
                "drop" => true,
                "drop-tail" => {
                    // replacing the tail of the first cell drops the other n-1 cells
                    let mut v = v;
                    let r = match v.as_cons_mut() {
                        Some(c) => {
                            c.set_cdr(Value::Null);
                            true
                        }
                        None => false,
                    };
                    return json!({"ok": r && v.as_cons().map_or(false, |c| c.cdr().is_null())});
                }
                "into_iter-partial-drop" => {
                    if let Value::Cons(c) = v {
                        let mut it = c.into_iter();
                        let mut seen = 0;
                        for _ in 0..10 {
                            if it.next().is_some() {
                                seen += 1;
                            }
                        }
                        drop(it);
                        return json!({"ok": seen == 10});
                    }
                    false
                }
                // the iterators through the std machinery: whatever a caller's
                // `collect`, `extend`, `zip` or `last` asks of them
                "iter-adaptors" => {
                    let c = v.as_cons().unwrap();
                    let (lo, hi) = c.iter().size_hint();
                    let collected: Vec<&lexpr::Cons> = c.iter().collect();
                    let mut ext: Vec<&Value> = Vec::new();
                    ext.extend(c.iter().map(|cell| cell.car()));
                    let zipped = c.iter().zip(0usize..).last().map(|(_, i)| i);
                    let r#ref: Vec<&lexpr::Cons> = (&*c).into_iter().collect();
                    lo <= n
                        && hi.map_or(true, |h| h >= n)
                        && collected.len() == n
                        && ext.len() == n
                        && zipped == Some(n - 1)
                        && r#ref.len() == n
                        && c.iter().last().is_some()
                        && c.iter().nth(n - 1).is_some()
                        && c.iter().nth(n).is_none()
                        && c.iter().skip(n - 1).count() == 1
                        && c.iter().step_by(1000).count() == (n + 999) / 1000
                        && c.iter().fold(0usize, |a, _| a + 1) == n
                        && c.iter().enumerate().filter(|(i, _)| i % 2 == 0).count() == (n + 1) / 2
                        && c.iter().max_by_key(|cell| cell.car().is_null()).is_some()
                }
                "list_iter-adaptors" => {
                    let it = || v.list_iter().unwrap();
                    let (lo, hi) = it().size_hint();
                    let collected: Vec<&Value> = it().collect();
                    let want = n + if proper { 0 } else { 1 };
                    let _ = want;
                    lo <= collected.len()
                        && hi.map_or(true, |h| h >= collected.len())
                        && collected.len() >= n
                        && it().last().is_some()
                        && it().nth(n - 1).is_some()
                        && it().zip(0usize..).count() == collected.len()
                        && it().fold(0usize, |a, _| a + 1) == collected.len()
                }
                "into_iter-adaptors" => {
                    if let Value::Cons(c) = v {
                        let c2 = c.clone();
                        let c3 = c.clone();
                        let c4 = c.clone();
                        let (lo, hi) = c.clone().into_iter().size_hint();
                        let collected: Vec<(Value, Option<Value>)> = c.into_iter().collect();
                        let last = c2.into_iter().last();
                        let nth = c3.into_iter().nth(n - 1);
                        let mut ext: Vec<Value> = Vec::new();
                        ext.extend(c4.into_iter().map(|(x, _)| x));
                        return json!({"ok": lo <= n && hi.map_or(true, |h| h >= n) && collected.len() == n
                            && last.map_or(false, |(_, t)| t.map_or(false, |t| t.is_null() == proper))
                            && nth.map_or(false, |(_, t)| t.is_some())
                            && ext.len() == n});
                    }
                    false
                }
                "cons-into_vec" | "into_iter-count" => {
                    if let Value::Cons(c) = v {
                        return json!({"ok": if op == "cons-into_vec" {
                            let (xs, t) = c.into_vec();
                            xs.len() == n && (t.is_null() == proper)
                        } else {
                            c.into_iter().count() == n
                        }});
                    }
                    false
                }
                other => panic!("unknown op {}", other),
            };
            if op == "drop" {
                drop(v);
            } else {
                std::mem::forget(v);
            }
            r
        }
    };
    json!({"ok": ok})
}

pub fn child_main(spec: &str) -> i32 {
    let s: Spec = match serde_json::from_str(spec) {
        Ok(s) => s,
        Err(e) => {
            eprintln!("bad spec: {}", e);
            return 2;
        }
    };
    child::run_on_small_stack(move || run_op(&s))
}

pub fn judge(s: &Spec, out: &ChildOutcome) -> Result<CaseResult, String> {
    let case = json!({"spec": s});
    let sig_op = format!(
        "op={} shape={}{}{}",
        s.op,
        s.shape,
        if s.elems == "num" { String::new() } else { format!(" elems={}", s.elems) },
        if s.profile == "dev" { " profile=dev" } else { "" }
    );
    let desc = format!("{} on a {} list of {} {} elements built by {} ({} profile)", s.op, s.shape, s.n, s.elems, s.builder, s.profile);
    match out {
        ChildOutcome::Timeout => Err(format!("watchdog expired: {}", desc)),
        ChildOutcome::SpawnError(e) => Err(format!("cannot spawn child: {}", e)),
        ChildOutcome::Signal(sig, err) => Ok(Err(Failure::new(
            format!("C16 {} mode=abort", sig_op),
            format!("{}: the process was killed by signal {} on a 2 MiB stack: {}", desc, sig, crate::mv::clip(err, 200)),
            case,
        ))),
        ChildOutcome::Exit(code, text) => Ok(Err(Failure::new(
            format!("C16 {} mode=exit-{}", sig_op, code),
            format!("{}: the child exited with status {}: {}", desc, code, crate::mv::clip(text, 300)),
            case,
        ))),
        ChildOutcome::Result(j) => {
            if j["ok"].as_bool() == Some(true) {
                let cls: &'static str = if s.op.starts_with("datum") {
                    "ops:datum"
                } else if s.op.starts_with("serde") {
                    "ops:serde"
                } else if s.op.starts_with("parse") {
                    "ops:parse"
                } else if s.op.starts_with("print") {
                    "ops:print"
                } else {
                    "ops:value"
                };
                Ok(Ok(Eval::new(true, digest_of(s)).class(cls).class(if s.profile == "dev" { "profile:dev" } else { "profile:plain" }).class(match s.shape.as_str() {
                    "proper" => "shape:proper",
                    "dotted" => "shape:dotted",
                    _ => "shape:alist",
                })))
            } else {
                Ok(Err(Failure::new(
                    format!("C16 {} mode=wrong-result", sig_op),
                    format!("{}: completed but the result does not match the model", desc),
                    case,
                )))
            }
        }
    }
}

const VALUE_OPS: &[&str] = &[
    "print-to_string", "print-display", "print-to_writer", "cons-to_vec", "cons-into_vec", "cons-to_ref_vec", "value-to_vec",
    "value-to_ref_vec", "iter-count", "list_iter-count", "into_iter-count", "get-last", "index-max", "index-name", "is_list",
    "is_dotted_list", "iter-adaptors", "list_iter-adaptors", "into_iter-adaptors", "clone", "cons-clone_from", "value-clone_from", "eq", "ne-last", "ne-everywhere", "ne-half", "drop", "drop-tail", "into_iter-partial-drop",
];
const PARSE_OPS: &[&str] = &["parse-str", "parse-slice", "parse-reader", "parse-iter", "parse-error-discard", "parse-dotted-chain"];
const DATUM_OPS: &[&str] = &[
    "datum-parse-reader", "datum-clone", "datum-eq", "datum-ne-last", "datum-ne-everywhere", "datum-drop", "datum-list_iter", "datum-into-value", "datum-as_pair-walk",
    "datum-parse-error-discard", "datum-parse-dotted-chain",
];
/// operations swept over every element kind in the unoptimised profile
const KIND_SWEEP_OPS: &[&str] = &[
    "drop", "drop-tail", "into_iter-partial-drop", "clone", "eq", "ne-everywhere", "print-to_string", "parse-reader", "parse-error-discard", "value-to_vec",
    "datum-drop", "datum-clone", "datum-eq", "datum-into-value",
];
const SERDE_OPS: &[&str] = &[
    "serde-to_value", "serde-from_value", "serde-to_string", "serde-from_str", "serde-skip-long-field", "serde-ignored-any",
    "serde-wrong-kind-long", "serde-long-vector", "serde-improper-long",
];
/// the deserialisation operations that C18 (totality) also runs as children
pub const SERDE_TOTALITY_OPS: &[&str] = &["serde-skip-long-field", "serde-ignored-any", "serde-wrong-kind-long", "serde-long-vector", "serde-improper-long", "serde-from_value"];

fn specs(tier: Tier, seed: u64) -> Vec<Spec> {
    let mut out = Vec::new();
    let draws = tier.pick(2usize, 8usize);
    let mut k = 0u64;
    let mut draw_n = |k: &mut u64| -> usize {
        *k += 1;
        // log-uniform in [2e5, 4e6]
        let u = (mix(seed, *k) % 10_000) as f64 / 10_000.0;
        (2e5 * (20.0f64).powf(u)) as usize
    };
    let shapes = ["proper", "dotted", "alist"];
    for (gi, group) in [VALUE_OPS, PARSE_OPS, DATUM_OPS].iter().enumerate() {
        for op in group.iter() {
            for d in 0..draws {
                let n = draw_n(&mut k);
                let shape = shapes[(mix(seed, k + 77) % 3) as usize];
                let builder = if gi == 0 { ["parser", "ctor", "ctor"][(d + k as usize) % 3] } else { "parser" };
                let elems = ELEM_KINDS[(mix(seed, k + 55) % ELEM_KINDS.len() as u64) as usize];
                out.push(Spec { op: op.to_string(), n, shape: shape.to_string(), builder: builder.to_string(), profile: "plain".into(), elems: elems.into() });
            }
        }
    }
    for op in SERDE_OPS {
        for d in 0..draws {
            let n = draw_n(&mut k);
            out.push(Spec { op: op.to_string(), n, shape: "proper".into(), builder: if d % 2 == 0 { "serde" } else { "ctor" }.into(), profile: "plain".into(), elems: "num".into() });
        }
    }
    // the value built by Serde goes through the value operations too
    for op in ["clone", "eq", "drop", "print-to_string", "value-to_vec"] {
        out.push(Spec { op: op.to_string(), n: draw_n(&mut k), shape: "proper".into(), builder: "serde".into(), profile: "plain".into(), elems: "num".into() });
    }
    // datum parsing from &str recomputes positions per datum (quadratic): keep n small there
    out.push(Spec { op: "datum-parse-str".into(), n: 100_000, shape: "proper".into(), builder: "parser".into(), profile: "plain".into(), elems: "runs".into() });
    // the same operations in an unoptimised build: stack independence must not
    // rest on the optimiser turning recursion into loops (smaller n: the
    // unoptimised build is an order of magnitude slower, and per-element
    // recursion overflows 2 MiB at ~10^4 elements there)
    let mut dev: Vec<Spec> = Vec::new();
    for group in [VALUE_OPS, PARSE_OPS, DATUM_OPS, SERDE_OPS] {
        for op in group.iter() {
            k += 1;
            let n = 200_000 + (mix(seed, k) % 200_000) as usize;
            let shape = if group.as_ptr() == SERDE_OPS.as_ptr() { "proper" } else { shapes[(mix(seed, k + 99) % 3) as usize] };
            let builder = if op.starts_with("serde") { "serde" } else if k % 2 == 0 { "ctor" } else { "parser" };
            let elems = if builder == "serde" { "num" } else { ELEM_KINDS[(mix(seed, k + 55) % ELEM_KINDS.len() as u64) as usize] };
            dev.push(Spec { op: op.to_string(), n, shape: shape.to_string(), builder: builder.to_string(), profile: "dev".into(), elems: elems.into() });
        }
    }
    // every element kind under the operations that touch the elements (cheap
    // at this size; the shape and the builder rotate with the seed)
    for (oi, op) in KIND_SWEEP_OPS.iter().enumerate() {
        for (ki, kind) in ELEM_KINDS.iter().enumerate() {
            if *kind == "num" {
                continue;
            }
            k += 1;
            let shape = shapes[((seed as usize).wrapping_add(oi + ki)) % 3];
            let builder = if op.starts_with("parse") || op.starts_with("datum") || (seed as usize + oi + ki) % 2 == 0 { "parser" } else { "ctor" };
            let n = 100_000 + (mix(seed, k) % 100_000) as usize;
            dev.push(Spec { op: op.to_string(), n, shape: shape.to_string(), builder: builder.to_string(), profile: "dev".into(), elems: kind.to_string() });
        }
    }
    out.extend(dev);
    if tier == Tier::Thorough {
        for op in ["parse-reader", "print-to_string", "drop", "eq", "iter-count", "datum-parse-reader", "serde-from_value"] {
            out.push(Spec { op: op.to_string(), n: 10_000_000, shape: "proper".into(), builder: if op.starts_with("serde") { "serde" } else { "parser" }.into(), profile: "plain".into(), elems: "num".into() });
        }
    }
    out
}

fn run(ctx: &mut Ctx) {
    let sp = specs(ctx.tier, ctx.seed);
    let js: Vec<Json> = sp.iter().map(|s| serde_json::to_value(s).unwrap()).collect();
    let exes: Vec<Option<std::path::PathBuf>> = sp.iter().map(|s| child_exe(&s.profile)).collect();
    if sp.iter().zip(exes.iter()).any(|(s, e)| s.profile == "dev" && e.is_none()) {
        ctx.inconclusive.push("VP_CHILD_EXE_DEV is not set: the unoptimised child binary is missing (run through ./check)".into());
    }
    let outs = child::spawn_all_with("c16", &js, &exes, Duration::from_secs(180), 12);
    for (s, o) in sp.iter().zip(outs.iter()) {
        match judge(s, o) {
            Ok(r) => ctx.observe("child", r),
            Err(inc) => ctx.inconclusive.push(inc),
        }
    }
    ctx.flush_failures();
    for s in sp.iter().step_by(17).take(6) {
        ctx.add_sample("child", json!({"op": s.op, "n": s.n, "shape": s.shape, "builder": s.builder}));
    }
    // control: nesting depth (not length) is allowed to exhaust the stack; recorded, not asserted
    ctx.notes.push("control (not asserted): values nested 10^5 levels deep through the constructors may exhaust the stack; the property is about length only".into());
    ctx.required_classes = vec!["ops:value", "ops:parse", "ops:print", "ops:datum", "ops:serde", "shape:proper", "shape:dotted", "shape:alist", "profile:plain", "profile:dev"];
}

fn replay(_sub: &str, case: &Json) -> Option<CaseResult> {
    let s: Spec = serde_json::from_value(case.get("spec")?.clone()).ok()?;
    let out = child::spawn_with("c16", &serde_json::to_value(&s).ok()?, child_exe(&s.profile), Duration::from_secs(180));
    judge(&s, &out).ok()
}

#[allow(dead_code)]
fn unused(_: Cons) {}
