//! C10 — the location-tracking (datum) API agrees with the plain value API.

use std::io::Cursor;

use lexpr::datum::Ref;
use lexpr::parse::Parser;
use lexpr::Value;
use proptest::prelude::*;
use serde::{Deserialize, Serialize};
use serde_json::{json, Value as Json};

use crate::engine::*;
use crate::gen::*;
use crate::gen_text::*;
use crate::mv::*;
use crate::opts::*;
use crate::props::Prop;
use crate::util::*;

pub const PROP: Prop = Prop {
    id: "C10",
    level: "exploration",
    rule: "(round 9: the item-and-error histories of the value and the datum API are compared to the end of the input, not only up to the first error) (on every input the one-shot entry points - from_*, from_*_custom, from_*_elisp, datum::from_*, datum::from_*_custom, datum::from_*_elisp for str, slice and reader, str::parse, and Parser::expect_value / parse_value / expect_datum followed by expect_end - are compared: to the letter within a source kind, value and error message across source kinds; the span and shape of every car reached through as_pair are compared with the item list_iter yields) inputs from printed values in several dialects (multi-datum streams), mutations of them, token-alphabet sequences and arbitrary bytes x sampled parser option sets (all 1536 reachable) x three sources; the value API and the datum API are run to the end or first error on fresh parsers and compared item by item (value equality, same terminal event with identical message, location and category); value_iter, datum_iter and Iterator for Parser must give the same sequences; every datum is walked recursively through Ref::list_iter (with peek/is_empty), vector_iter, as_pair, Deref and compared with the value's own accessors; non-trivial = at least 2 datums, or a composite datum, or malformed input that yields an item before failing; distinct by digest of (input, options, source)",
    assumptions: &["the accessor walks use the items up to the first error; the item-and-error histories of both APIs are compared to the end of the input"],
    run,
    replay,
    builds: &["ff"],
};

#[derive(Clone, Debug, Serialize, Deserialize, Hash)]
pub struct Case {
    pub input: Vec<u8>,
    pub q: usize,
    /// 0 str (falls back to slice when not UTF-8), 1 slice, 2 reader
    pub source: u8,
}

type Term = Option<(String, &'static str)>;

fn err_term(e: &lexpr::parse::Error) -> Term {
    Some((e.to_string(), category(e)))
}

/// Walk a datum reference and the value side by side.
fn check_ref(r: Ref<'_>, v: &Value, depth: usize) -> Result<usize, (String, String)> {
    if depth > 300 {
        return Ok(0);
    }
    let mut visited = 1;
    if r.value() != v || &*r != v || <Ref<'_> as AsRef<Value>>::as_ref(&r) != v {
        return Err(("ref-value".into(), format!("Ref exposes {} for value {}", short(r.value()), short(v))));
    }
    match v {
        Value::Cons(cell) => {
            let (mut ri, mut vi) = match (r.list_iter(), v.list_iter()) {
                (Some(a), Some(b)) => (a, b),
                (a, b) => {
                    return Err((
                        "list_iter-presence".into(),
                        format!("list_iter: datum {} value {}", a.is_some(), b.is_some()),
                    ))
                }
            };
            let mut steps = 0;
            // spans of the items in iteration order (compared with what the
            // pair accessor reports for the same cells below)
            let mut item_spans: Vec<lexpr::datum::Span> = Vec::new();
            loop {
                steps += 1;
                if steps > 100_000 {
                    return Err(("list_iter-unbounded".into(), "datum list_iter does not end".into()));
                }
                let rp = ri.peek().map(|x| x.value().clone());
                let vp = vi.peek().cloned();
                let (re, ve) = (ri.is_empty(), vi.is_empty());
                let rn = ri.next();
                let vn = vi.next();
                if rp != vp || re != ve || rn.as_ref().map(|x| x.value()) != vn {
                    return Err((
                        "list_iter-protocol".into(),
                        format!(
                            "list_iter step {}: datum peek/is_empty/next = {}/{}/{}, value {}/{}/{}",
                            steps,
                            short(&rp),
                            re,
                            short(&rn.as_ref().map(|x| x.value())),
                            short(&vp),
                            ve,
                            short(&vn)
                        ),
                    ));
                }
                if let (Some(rr), Some(vv)) = (rn, vn) {
                    item_spans.push(rr.span());
                    visited += check_ref(rr, vv, depth + 1)?;
                }
                if re && ve {
                    break;
                }
            }
            // walk the spine through as_pair (iteratively: elements are visited
            // once, by the list_iter loop above)
            let mut rc = r;
            let mut vc: &Value = v;
            let mut guard = 0usize;
            loop {
                guard += 1;
                match (rc.as_pair(), vc.as_pair()) {
                    (Some((rcar, rcdr)), Some((vcar, vcdr))) => {
                        if rcar.value() != vcar || rcdr.value() != vcdr {
                            return Err(("as_pair".into(), "as_pair exposes different car/cdr".into()));
                        }
                        // the car reached through the pair accessor is the same
                        // sub-datum the iterator yields: same span, same shape
                        if let Some(sp) = item_spans.get(guard - 1) {
                            if rcar.span() != *sp {
                                return Err((
                                    "as_pair-span".into(),
                                    format!("element {} has span {:?} through list_iter but {:?} through as_pair", guard - 1, sp, rcar.span()),
                                ));
                            }
                        }
                        if rcar.as_pair().is_some() != vcar.as_pair().is_some() || rcar.list_iter().is_some() != vcar.list_iter().is_some() || rcar.vector_iter().is_some() != vcar.as_slice().is_some() {
                            return Err(("as_pair".into(), "the car reached through as_pair exposes another shape than the value".into()));
                        }
                        rc = rcdr;
                        vc = vcdr;
                    }
                    (None, None) => break,
                    _ => return Err(("as_pair".into(), "as_pair presence differs along the list".into())),
                }
                if guard > 1_000_000 {
                    break;
                }
            }
            let _ = cell;
            if r.vector_iter().is_some() {
                return Err(("vector_iter-presence".into(), "vector_iter is Some on a cons".into()));
            }
        }
        Value::Null => {
            match r.list_iter() {
                Some(mut it) => {
                    if !it.is_empty() || it.peek().is_some() || it.next().is_some() {
                        return Err(("list_iter-protocol".into(), "list_iter on the empty list is not empty".into()));
                    }
                }
                None => return Err(("list_iter-presence".into(), "list_iter is None on the empty list".into())),
            }
            if r.as_pair().is_some() || r.vector_iter().is_some() {
                return Err(("as_pair".into(), "as_pair/vector_iter is Some on the empty list".into()));
            }
        }
        Value::Vector(elems) => {
            let it = match r.vector_iter() {
                Some(it) => it,
                None => return Err(("vector_iter-presence".into(), "vector_iter is None on a vector".into())),
            };
            let refs: Vec<Ref<'_>> = it.collect();
            if refs.len() != elems.len() {
                return Err((
                    "vector_iter-length".into(),
                    format!("vector_iter yields {} elements, the vector has {}", refs.len(), elems.len()),
                ));
            }
            for (rr, vv) in refs.into_iter().zip(elems.iter()) {
                visited += check_ref(rr, vv, depth + 1)?;
            }
            if r.list_iter().is_some() || r.as_pair().is_some() {
                return Err(("list_iter-presence".into(), "list_iter/as_pair is Some on a vector".into()));
            }
        }
        _ => {
            if r.list_iter().is_some() || r.vector_iter().is_some() || r.as_pair().is_some() {
                return Err(("accessor-presence".into(), format!("a list/vector/pair accessor is Some on {}", short(v))));
            }
        }
    }
    Ok(visited)
}

macro_rules! with_parser {
    ($c:expr, $q:expr, |$p:ident| $body:expr) => {{
        let opts = $q.to_lexpr();
        match ($c.source, std::str::from_utf8(&$c.input)) {
            (0, Ok(s)) => {
                let mut $p = Parser::from_str_custom(s, opts);
                $body
            }
            (2, _) => {
                let mut $p = Parser::from_reader_custom(Cursor::new(&$c.input[..]), opts);
                $body
            }
            _ => {
                let mut $p = Parser::from_slice_custom(&$c.input, opts);
                $body
            }
        }
    }};
}

pub fn check_case(c: &Case, label: &str) -> CaseResult {
    let q = QOpt::from_index(c.q);
    let case = || json!({"case": c, "label": label});
    let src = match (c.source, std::str::from_utf8(&c.input).is_ok()) {
        (0, true) => "str",
        (2, _) => "reader",
        _ => "slice",
    };
    let fail = |sig: String, msg: String| {
        Failure::new(
            format!("C10 src={} {}", src, sig),
            format!("{} [input {:?}, parser options #{}]", msg, bytes_lossy(&c.input), c.q),
            case(),
        )
    };
    let cap = c.input.len() + 2;
    let r = catch(|| -> Result<(bool, Vec<&'static str>), (String, String)> {
        // the one-shot entry points of both APIs (and, under the default
        // options, the functions that take no options) agree with each other
        {
            type R = Result<MV, String>;
            let val = |r: lexpr::parse::Result<Value>| -> R { r.map(|v| MV::from_value(&v)).map_err(|e| e.to_string()) };
            let dat = |r: lexpr::parse::Result<lexpr::Datum>| -> R { r.map(|d| MV::from_value(d.value())).map_err(|e| e.to_string()) };
            let opts = q.to_lexpr();
            let input = &c.input[..];
            let mut results: Vec<(&'static str, R)> = vec![
                ("from_slice_custom", val(lexpr::from_slice_custom(input, opts))),
                ("datum::from_slice_custom", dat(lexpr::datum::from_slice_custom(input, opts))),
                ("from_reader_custom", val(lexpr::from_reader_custom(Cursor::new(input), opts))),
                ("datum::from_reader_custom", dat(lexpr::datum::from_reader_custom(Cursor::new(input), opts))),
            ];
            if let Ok(s) = std::str::from_utf8(input) {
                results.push(("from_str_custom", val(lexpr::from_str_custom(s, opts))));
                results.push(("datum::from_str_custom", dat(lexpr::datum::from_str_custom(s, opts))));
            }
            if c.q == QOpt::default_set().index() {
                results.push(("from_slice", val(lexpr::from_slice(input))));
                results.push(("datum::from_slice", dat(lexpr::datum::from_slice(input))));
                results.push(("from_reader", val(lexpr::from_reader(Cursor::new(input)))));
                results.push(("datum::from_reader", dat(lexpr::datum::from_reader(Cursor::new(input)))));
                if let Ok(s) = std::str::from_utf8(input) {
                    results.push(("from_str", val(lexpr::from_str(s))));
                    results.push(("datum::from_str", dat(lexpr::datum::from_str(s))));
                    results.push(("str::parse", val(s.parse::<Value>())));
                }
            }
            if c.q == QOpt::elisp().index() {
                results.push(("from_slice_elisp", val(lexpr::parse::from_slice_elisp(input))));
                results.push(("datum::from_slice_elisp", dat(lexpr::datum::from_slice_elisp(input))));
                results.push(("from_reader_elisp", val(lexpr::parse::from_reader_elisp(Cursor::new(input)))));
                results.push(("datum::from_reader_elisp", dat(lexpr::datum::from_reader_elisp(Cursor::new(input)))));
                if let Ok(s) = std::str::from_utf8(input) {
                    results.push(("from_str_elisp", val(lexpr::parse::from_str_elisp(s))));
                    results.push(("datum::from_str_elisp", dat(lexpr::datum::from_str_elisp(s))));
                }
            }
            // the single-datum methods of a parser agree with the one-shot functions
            {
                let one = |r: lexpr::parse::Result<Value>, end: lexpr::parse::Result<()>| -> R { r.and_then(|v| end.map(|_| v)).map(|v| MV::from_value(&v)).map_err(|e| e.to_string()) };
                let mut p = Parser::from_slice_custom(input, opts);
                let v = p.expect_value();
                let e = if v.is_ok() { p.expect_end() } else { Ok(()) };
                results.push(("Parser(slice)::expect_value+expect_end", one(v, e)));
                #[allow(deprecated)]
                {
                    let mut p = Parser::from_slice_custom(input, opts);
                    let v = p.parse_value();
                    let e = if v.is_ok() { p.expect_end() } else { Ok(()) };
                    results.push(("Parser(slice)::parse_value+expect_end", one(v, e)));
                }
                let mut p = Parser::from_slice_custom(input, opts);
                let d = p.expect_datum();
                let e = if d.is_ok() { p.expect_end() } else { Ok(()) };
                results.push(("Parser(slice)::expect_datum+expect_end", one(d.map(Value::from), e)));
            }
            // within one source kind the two APIs agree to the letter (value,
            // or error message with its location); across source kinds values
            // and error messages agree (locations may differ: C06 and C19 own that)
            let source_of = |n: &str| if n.contains("slice") { 0 } else if n.contains("reader") { 1 } else { 2 };
            let strip = |r: &R| -> R { r.clone().map_err(|e| err_text_str(&e).to_string()) };
            for (i, (name, r)) in results.iter().enumerate() {
                for (name2, r2) in &results[..i] {
                    let same = if source_of(name) == source_of(name2) { r == r2 } else { strip(r) == strip(r2) };
                    if !same {
                        return Err((
                            format!("entry-point={}", name),
                            format!("{} gives {} but {} gives {}", name, short(r), name2, short(r2)),
                        ));
                    }
                }
            }
        }
        // value API
        let (vals, vterm): (Vec<Value>, Term) = with_parser!(c, q, |p| {
            let mut out = Vec::new();
            let mut term = None;
            for _ in 0..cap {
                match p.next_value() {
                    Ok(Some(v)) => out.push(v),
                    Ok(None) => break,
                    Err(e) => {
                        term = err_term(&e);
                        break;
                    }
                }
            }
            (out, term)
        });
        // datum API
        let (dats, dterm): (Vec<lexpr::Datum>, Term) = with_parser!(c, q, |p| {
            let mut out = Vec::new();
            let mut term = None;
            for _ in 0..cap {
                match p.next_datum() {
                    Ok(Some(d)) => out.push(d),
                    Ok(None) => break,
                    Err(e) => {
                        term = err_term(&e);
                        break;
                    }
                }
            }
            (out, term)
        });
        // a caller that goes on after an error: both APIs report the same
        // sequence of items and errors (message, location, category) to the end
        {
            let hist_v: Vec<Result<Value, Term>> = with_parser!(c, q, |p| {
                let mut out = Vec::new();
                for _ in 0..cap {
                    match p.next_value() {
                        Ok(Some(v)) => out.push(Ok(v)),
                        Ok(None) => break,
                        Err(e) => {
                            let io = e.is_io();
                            out.push(Err(err_term(&e)));
                            if io {
                                break;
                            }
                        }
                    }
                }
                out
            });
            let hist_d: Vec<Result<Value, Term>> = with_parser!(c, q, |p| {
                let mut out = Vec::new();
                for _ in 0..cap {
                    match p.next_datum() {
                        Ok(Some(d)) => out.push(Ok(d.value().clone())),
                        Ok(None) => break,
                        Err(e) => {
                            let io = e.is_io();
                            out.push(Err(err_term(&e)));
                            if io {
                                break;
                            }
                        }
                    }
                }
                out
            });
            if hist_v != hist_d {
                let i = hist_v.iter().zip(hist_d.iter()).position(|(a, b)| a != b).unwrap_or(hist_v.len().min(hist_d.len()));
                let show = |h: &Vec<Result<Value, Term>>| match h.get(i) {
                    Some(Ok(v)) => format!("item {}", short(v)),
                    Some(Err(t)) => format!("error {:?}", t),
                    None => "end of input".to_string(),
                };
                return Err((
                    format!("history-after-error differs at={}", if i == 0 { "first" } else if hist_v[..i].iter().any(|r| r.is_err()) { "after-an-error" } else { "before-any-error" }),
                    format!("going on after errors, step {}: the value API gives {}, the datum API {} ({} vs {} steps in all)", i + 1, show(&hist_v), show(&hist_d), hist_v.len(), hist_d.len()),
                ));
            }
        }
        if vals.len() != dats.len() {
            return Err((
                "item-count".into(),
                format!("value API yields {} items (then {:?}), datum API {} items (then {:?})", vals.len(), vterm, dats.len(), dterm),
            ));
        }
        for (i, (v, d)) in vals.iter().zip(dats.iter()).enumerate() {
            if d.value() != v {
                return Err((
                    format!("item-value kind={}", value_kind(v)),
                    format!("item {}: value API {} but datum API {}", i, short(v), short(d.value())),
                ));
            }
        }
        if vterm != dterm {
            let kind = match (&vterm, &dterm) {
                (Some(a), Some(b)) if a.1 != b.1 => "category",
                (Some(a), Some(b)) if crate::util::err_text_str(&a.0) != crate::util::err_text_str(&b.0) => "message",
                (Some(_), Some(_)) => "location",
                _ => "end-vs-error",
            };
            return Err((
                format!("terminal differs={}", kind),
                format!("after {} items the value API ends with {:?} but the datum API with {:?}", vals.len(), vterm, dterm),
            ));
        }
        // the other ways of iterating
        let via_value_iter: (Vec<Value>, Term) = with_parser!(c, q, |p| collect_iter(p.value_iter(), cap));
        let via_iterator: (Vec<Value>, Term) = with_parser!(c, q, |p| collect_iter(&mut p, cap));
        let via_datum_iter: (Vec<Value>, Term) = with_parser!(c, q, |p| {
            let mut out = Vec::new();
            let mut term = None;
            for item in p.datum_iter().take(cap) {
                match item {
                    Ok(d) => out.push(Value::from(d)),
                    Err(e) => {
                        term = err_term(&e);
                        break;
                    }
                }
            }
            (out, term)
        });
        for (name, got) in [("value_iter", &via_value_iter), ("Iterator", &via_iterator), ("datum_iter", &via_datum_iter)] {
            if got.0 != vals || got.1 != vterm {
                return Err((
                    format!("iteration-way={}", name),
                    format!("{} yields {} items then {:?}; next_value loop yields {} items then {:?}", name, got.0.len(), got.1, vals.len(), vterm),
                ));
            }
        }
        // structure exposed by every datum
        let mut visited = 0;
        let mut composite = false;
        for (d, v) in dats.iter().zip(vals.iter()) {
            if Value::from(d.clone()) != *v {
                return Err(("value-from-datum".into(), "Value::from(datum.clone()) differs from the value".into()));
            }
            if d.list_iter().is_some() != v.list_iter().is_some() {
                return Err(("list_iter-presence".into(), "Datum::list_iter presence differs from Value::list_iter".into()));
            }
            if d.vector_iter().is_some() != v.is_vector() {
                return Err(("vector_iter-presence".into(), "Datum::vector_iter presence differs".into()));
            }
            composite |= v.is_cons() || v.is_vector();
            visited += check_ref(d.as_ref(), v, 0).map_err(|(s, m)| (format!("accessor={}", s), m))?;
            // owned copies expose the same structure through the same accessors
            if v.is_cons() || v.is_vector() {
                let copy = d.clone();
                check_ref(copy.as_ref(), v, 0).map_err(|(s, m)| (format!("accessor={} on=clone", s), m))?;
                let owned = lexpr::Datum::from(d.as_ref());
                check_ref(owned.as_ref(), v, 0).map_err(|(s, m)| (format!("accessor={} on=Datum::from(Ref)", s), m))?;
                if copy != *d || owned != *d {
                    return Err(("copy-not-equal".into(), "a clone of the datum (or Datum::from(Ref)) is not equal to the datum".into()));
                }
            }
        }
        let mut classes: Vec<&'static str> = vec![match src {
            "str" => "src:str",
            "reader" => "src:reader",
            _ => "src:slice",
        }];
        classes.push(if vterm.is_some() { "terminal:error" } else { "terminal:end" });
        if vals.len() >= 2 {
            classes.push("items:>=2");
        }
        if composite {
            classes.push("items:composite");
        }
        if visited > vals.len() {
            classes.push("walk:sub-datums");
        }
        let nt = vals.len() >= 2 || composite || (vterm.is_some() && !vals.is_empty());
        Ok((nt, classes))
    });
    match r {
        Err(pm) => Err(fail(format!("panic={}", panic_sig(&pm)), format!("panicked: {}", pm))),
        Ok(Err((sig, msg))) => Err(fail(sig, msg)),
        Ok(Ok((nt, classes))) => Ok(Eval::new(nt, digest_of(c)).classes(&classes)),
    }
}

fn collect_iter<I: Iterator<Item = lexpr::parse::Result<Value>>>(it: I, cap: usize) -> (Vec<Value>, Term) {
    let mut out = Vec::new();
    let mut term = None;
    for item in it.take(cap) {
        match item {
            Ok(v) => out.push(v),
            Err(e) => {
                term = err_term(&e);
                break;
            }
        }
    }
    (out, term)
}

pub fn g_case(max_len: usize) -> BS<(Case, &'static str)> {
    (g_input(max_len), g_qopt_index(), 0u8..3)
        .prop_map(|((input, label), q, source)| (Case { input, q, source }, label))
        .boxed()
}

/// Streams made of many copies of small datums: state that leaks from one
/// top-level datum to the next shows up only after many of them.
fn g_repetition() -> BS<(Case, &'static str)> {
    let unit = prop_oneof![
        Just("()"), Just("#()"), Just("[]"), Just("(a)"), Just("'a"), Just("#u8()"), Just("(a . b)"), Just("[a]"),
        Just("#(#())"), Just("((a))"), Just(",@a"), Just("`(a ,b)"), Just("\"s\""), Just("1"),
    ];
    (proptest::collection::vec(unit, 1..4), 100usize..400, g_qopt_index(), 0u8..3)
        .prop_map(|(units, n, q, source)| {
            let mut input = Vec::new();
            for i in 0..n {
                input.extend_from_slice(units[i % units.len()].as_bytes());
                input.push(if i % 7 == 0 { b'\n' } else { b' ' });
            }
            (Case { input, q, source }, "repetition")
        })
        .boxed()
}

/// Nesting around the recursion limit through generated mixtures of every
/// nesting construct: the two APIs must draw the line at the same depth.
fn g_nesting() -> BS<(Case, &'static str)> {
    (proptest::collection::vec(0u8..9, 100..=170), g_qopt_index(), 0u8..3, any::<bool>())
        .prop_map(|(kinds, q, source, uniform)| {
            let kinds = if uniform { vec![kinds[0]; kinds.len()] } else { kinds };
            let (text, _) = crate::props::c03::nest_text(&crate::props::c03::Nest { kinds, q });
            (Case { input: text.into_bytes(), q, source }, "nesting")
        })
        .boxed()
}

fn run(ctx: &mut Ctx) {
    let tier = ctx.tier;
    use rayon::prelude::*;
    let max_len = tier.pick(300, 2048);
    let parent = &*ctx;
    let children: Vec<Ctx> = (0..16u32)
        .into_par_iter()
        .map(|w| {
            let mut c = parent.fork();
            c.run_prop(&format!("inputs/{}", w), tier.pick(5_000, 120_000), g_case(max_len), |(c, l)| check_case(c, l));
            c.run_prop(&format!("repetition/{}", w), tier.pick(30, 600), g_repetition(), |(c, l)| check_case(c, l));
            c.run_prop(&format!("nesting/{}", w), tier.pick(150, 3_000), g_nesting(), |(c, l)| check_case(c, l));
            c
        })
        .collect();
    for c in children {
        ctx.absorb(c);
    }
    for (c, l) in ctx.sample_values("inputs", &g_case(60), 6) {
        ctx.add_sample("inputs", json!({"input": bytes_lossy(&c.input), "from": l, "parser_index": c.q, "source": c.source}));
    }
    ctx.required_classes = vec!["src:str", "src:slice", "src:reader", "terminal:error", "terminal:end", "items:>=2", "items:composite", "walk:sub-datums"];
}

fn replay(_sub: &str, case: &Json) -> Option<CaseResult> {
    let c: Case = serde_json::from_value(case.get("case")?.clone()).ok()?;
    Some(check_case(&c, case.get("label").and_then(|l| l.as_str()).unwrap_or("anybytes")))
}

/// libFuzzer entry: raw bytes (mode % 3 == 0) or a generated case.
pub fn fuzz(f: &mut FuzzIn) -> Option<CaseResult> {
    match f.mode % 3 {
        0 => {
            let (q, rest) = f.raw_q_input();
            let (src, input) = rest.split_first()?;
            if input.len() > 400 {
                return None;
            }
            Some(check_case(&Case { input: input.to_vec(), q, source: src % 3 }, "anybytes"))
        }
        1 => {
            let (c, l) = f.draw(&g_case(256))?;
            Some(check_case(&c, l))
        }
        _ => {
            let (c, l) = f.draw(&g_nesting())?;
            Some(check_case(&c, l))
        }
    }
}
