//! M_big: a small unsigned bignum and exact decimal/binary comparison
//! routines (DESIGN.md section 3). Self-checked at start-up against u128
//! arithmetic and against `str::parse::<f64>`.

use std::cmp::Ordering;

#[derive(Clone, Debug, PartialEq, Eq)]
pub struct Big {
    /// little-endian base 2^32 limbs, no trailing zero limbs
    l: Vec<u32>,
}

impl Big {
    pub fn zero() -> Big {
        Big { l: Vec::new() }
    }
    pub fn from_u64(x: u64) -> Big {
        let mut b = Big {
            l: vec![x as u32, (x >> 32) as u32],
        };
        b.trim();
        b
    }
    pub fn from_u128(x: u128) -> Big {
        let mut b = Big {
            l: vec![x as u32, (x >> 32) as u32, (x >> 64) as u32, (x >> 96) as u32],
        };
        b.trim();
        b
    }
    fn trim(&mut self) {
        while self.l.last() == Some(&0) {
            self.l.pop();
        }
    }
    pub fn is_zero(&self) -> bool {
        self.l.is_empty()
    }
    pub fn mul_small(&mut self, m: u32) {
        let mut carry = 0u64;
        for x in self.l.iter_mut() {
            let v = *x as u64 * m as u64 + carry;
            *x = v as u32;
            carry = v >> 32;
        }
        if carry > 0 {
            self.l.push(carry as u32);
        }
        self.trim();
    }
    pub fn add_small(&mut self, a: u32) {
        let mut carry = a as u64;
        for x in self.l.iter_mut() {
            if carry == 0 {
                break;
            }
            let v = *x as u64 + carry;
            *x = v as u32;
            carry = v >> 32;
        }
        if carry > 0 {
            self.l.push(carry as u32);
        }
    }
    /// Parse digits in `radix` (2..=16); returns None on an invalid digit.
    pub fn from_digits(s: &str, radix: u32) -> Option<Big> {
        let mut b = Big::zero();
        for c in s.chars() {
            let d = c.to_digit(radix)?;
            b.mul_small(radix);
            b.add_small(d);
        }
        Some(b)
    }
    pub fn pow(base: u32, e: u32) -> Big {
        let mut b = Big::from_u64(1);
        for _ in 0..e {
            b.mul_small(base);
        }
        b
    }
    pub fn mul(&self, o: &Big) -> Big {
        if self.is_zero() || o.is_zero() {
            return Big::zero();
        }
        let mut out = vec![0u32; self.l.len() + o.l.len() + 1];
        for (i, &a) in self.l.iter().enumerate() {
            let mut carry = 0u64;
            for (j, &b) in o.l.iter().enumerate() {
                let v = out[i + j] as u64 + a as u64 * b as u64 + carry;
                out[i + j] = v as u32;
                carry = v >> 32;
            }
            let mut k = i + o.l.len();
            while carry > 0 {
                let v = out[k] as u64 + carry;
                out[k] = v as u32;
                carry = v >> 32;
                k += 1;
            }
        }
        let mut b = Big { l: out };
        b.trim();
        b
    }
    pub fn shl(&self, bits: u32) -> Big {
        if self.is_zero() {
            return Big::zero();
        }
        let limbs = (bits / 32) as usize;
        let r = bits % 32;
        let mut out = vec![0u32; limbs];
        let mut carry = 0u32;
        for &x in &self.l {
            if r == 0 {
                out.push(x);
            } else {
                out.push((x << r) | carry);
                carry = x >> (32 - r);
            }
        }
        if carry > 0 {
            out.push(carry);
        }
        let mut b = Big { l: out };
        b.trim();
        b
    }
    pub fn cmp(&self, o: &Big) -> Ordering {
        if self.l.len() != o.l.len() {
            return self.l.len().cmp(&o.l.len());
        }
        for i in (0..self.l.len()).rev() {
            if self.l[i] != o.l[i] {
                return self.l[i].cmp(&o.l[i]);
            }
        }
        Ordering::Equal
    }
    /// |self - o|
    pub fn abs_diff(&self, o: &Big) -> Big {
        let (a, b) = if self.cmp(o) == Ordering::Less { (o, self) } else { (self, o) };
        let mut out = a.l.clone();
        let mut borrow = 0i64;
        for i in 0..out.len() {
            let v = out[i] as i64 - borrow - *b.l.get(i).unwrap_or(&0) as i64;
            if v < 0 {
                out[i] = (v + (1i64 << 32)) as u32;
                borrow = 1;
            } else {
                out[i] = v as u32;
                borrow = 0;
            }
        }
        let mut r = Big { l: out };
        r.trim();
        r
    }
    pub fn add(&self, o: &Big) -> Big {
        let n = self.l.len().max(o.l.len());
        let mut out = Vec::with_capacity(n + 1);
        let mut carry = 0u64;
        for i in 0..n {
            let v = *self.l.get(i).unwrap_or(&0) as u64 + *o.l.get(i).unwrap_or(&0) as u64 + carry;
            out.push(v as u32);
            carry = v >> 32;
        }
        if carry > 0 {
            out.push(carry as u32);
        }
        let mut r = Big { l: out };
        r.trim();
        r
    }
    /// Divide in place by a small number, returning the remainder.
    pub fn div_small(&mut self, d: u32) -> u32 {
        let mut rem = 0u64;
        for x in self.l.iter_mut().rev() {
            let cur = (rem << 32) | *x as u64;
            *x = (cur / d as u64) as u32;
            rem = cur % d as u64;
        }
        self.trim();
        rem as u32
    }
    pub fn to_decimal(&self) -> String {
        if self.is_zero() {
            return "0".to_string();
        }
        let mut b = self.clone();
        let mut chunks: Vec<u32> = Vec::new();
        while !b.is_zero() {
            chunks.push(b.div_small(1_000_000_000));
        }
        let mut out = format!("{}", chunks.pop().unwrap());
        while let Some(c) = chunks.pop() {
            out.push_str(&format!("{:09}", c));
        }
        out
    }
    pub fn to_radix(&self, radix: u32) -> String {
        if self.is_zero() {
            return "0".to_string();
        }
        let mut b = self.clone();
        let mut out = Vec::new();
        while !b.is_zero() {
            out.push(std::char::from_digit(b.div_small(radix), radix).unwrap());
        }
        out.iter().rev().collect()
    }
    pub fn bit_len(&self) -> u32 {
        match self.l.last() {
            None => 0,
            Some(&t) => (self.l.len() as u32 - 1) * 32 + (32 - t.leading_zeros()),
        }
    }
    pub fn to_u128(&self) -> Option<u128> {
        if self.l.len() > 4 {
            return None;
        }
        let mut v = 0u128;
        for (i, &x) in self.l.iter().enumerate() {
            v |= (x as u128) << (32 * i);
        }
        Some(v)
    }
}

/// A non-negative exact rational N / (M) with an extra power of two:
/// value = n / m * 2^e2.
#[derive(Clone, Debug)]
pub struct Exact {
    pub n: Big,
    pub m: Big,
}

impl Exact {
    /// digits * radix^exp (exp may be negative only for radix 10)
    pub fn from_parts(digits: &Big, base: u32, exp: i64) -> Exact {
        if exp >= 0 {
            Exact {
                n: digits.mul(&Big::pow(base, exp as u32)),
                m: Big::from_u64(1),
            }
        } else {
            Exact {
                n: digits.clone(),
                m: Big::pow(base, (-exp) as u32),
            }
        }
    }
    pub fn is_zero(&self) -> bool {
        self.n.is_zero()
    }
}

/// Decompose a finite non-negative double into (mantissa, exponent) with
/// value = m * 2^q exactly.
pub fn decompose(r: f64) -> (u64, i32) {
    let bits = r.abs().to_bits();
    let e = ((bits >> 52) & 0x7ff) as i32;
    let f = bits & ((1u64 << 52) - 1);
    if e == 0 {
        (f, -1074)
    } else {
        (f | (1u64 << 52), e - 1075)
    }
}

/// Compare x = n/m with k * 2^q (k >= 0): returns ordering of x relative to it.
fn cmp_scaled(x: &Exact, k: &Big, q: i32) -> Ordering {
    // n/m ? k*2^q   <=>   n ? k*m*2^q
    let km = k.mul(&x.m);
    if q >= 0 {
        x.n.cmp(&km.shl(q as u32))
    } else {
        x.n.shl((-q) as u32).cmp(&km)
    }
}

/// |r - x| <= 2^-50 * x  or  |r - x| <= 2^-1074 (x >= 0, r >= 0 finite).
pub fn within_tolerance(r: f64, x: &Exact) -> bool {
    if !r.is_finite() {
        return false;
    }
    let (m, q) = decompose(r);
    // A = m*2^q*M, B = N ; scale by 2^-q when q < 0
    let mm = Big::from_u64(m).mul(&x.m);
    let (a, b) = if q >= 0 {
        (mm.shl(q as u32), x.n.clone())
    } else {
        (mm, x.n.shl((-q) as u32))
    };
    let diff = a.abs_diff(&b);
    // relative: diff * 2^50 <= b
    if diff.shl(50).cmp(&b) != Ordering::Greater {
        return true;
    }
    // absolute: |r - x| <= 2^-1074  <=> diff/(M * 2^max(-q,0)) <= 2^-1074
    // diff is in units of 1/(M*2^s) where s = max(-q,0)
    let s = if q >= 0 { 0 } else { (-q) as u32 };
    // diff / (M*2^s) <= 2^-1074  <=>  diff * 2^1074 <= M * 2^s
    diff.shl(1074).cmp(&x.m.shl(s)) != Ordering::Greater
}

/// Is `r` the correctly rounded (nearest, ties to even) double of x >= 0?
/// (x below the overflow threshold.)
pub fn is_correctly_rounded(r: f64, x: &Exact) -> bool {
    if !r.is_finite() || r < 0.0 {
        return false;
    }
    let (m, q) = decompose(r);
    // units of 2^(q-2): R = 4m, upper midpoint 4m+2, lower midpoint 4m-2 or 4m-1
    let boundary = m == (1u64 << 52) && q > -1074;
    let up = Big::from_u128(4 * m as u128 + 2);
    let tie_ok = m % 2 == 0;
    match cmp_scaled(x, &up, q - 2) {
        Ordering::Greater => return false,
        Ordering::Equal if !tie_ok => return false,
        _ => {}
    }
    if m == 0 {
        return true; // x <= half of the smallest subnormal (tie goes to even = 0)
    }
    let low = Big::from_u128(4 * m as u128 - if boundary { 1 } else { 2 });
    match cmp_scaled(x, &low, q - 2) {
        Ordering::Less => false,
        Ordering::Equal if !tie_ok => false,
        _ => true,
    }
}

/// x >= 2^1024 - 2^970 (rounds to infinity)
pub fn overflows(x: &Exact) -> bool {
    // threshold = (2^54 - 1) * 2^970
    let k = Big::from_u64((1u64 << 54) - 1);
    cmp_scaled(x, &k, 970) != Ordering::Less
}

/// x >= 2^1024
pub fn at_least_2_1024(x: &Exact) -> bool {
    cmp_scaled(x, &Big::from_u64(1), 1024) != Ordering::Less
}

/// x * (1 + 2^-50) >= overflow threshold
pub fn near_overflow(x: &Exact) -> bool {
    // n*(2^50+1) / (m*2^50)
    let n2 = x.n.mul(&Big::from_u64((1u64 << 50) + 1));
    let x2 = Exact { n: n2, m: x.m.shl(50) };
    overflows(&x2)
}

pub fn self_test() {
    // bignum vs u128
    let mut s = 0x9E3779B97F4A7C15u64;
    let mut next = || {
        s ^= s << 13;
        s ^= s >> 7;
        s ^= s << 17;
        s
    };
    for _ in 0..2000 {
        let a = next() as u128 * (next() % 1000) as u128;
        let b = next() as u128;
        let (ba, bb) = (Big::from_u128(a), Big::from_u128(b));
        assert_eq!(ba.add(&bb).to_u128(), a.checked_add(b));
        assert_eq!(ba.abs_diff(&bb).to_u128(), Some(a.max(b) - a.min(b)));
        assert_eq!(ba.cmp(&bb), a.cmp(&b));
        let (c, d) = (next() as u128, next() as u128 >> 3);
        assert_eq!(Big::from_u128(c).mul(&Big::from_u128(d)).to_u128(), c.checked_mul(d));
        let sh = (next() % 60) as u32;
        assert_eq!(Big::from_u128(c).shl(sh).to_u128(), Some(c << sh));
        assert_eq!(Big::from_digits(&format!("{}", a), 10).unwrap().to_u128(), Some(a));
        assert_eq!(Big::from_digits(&format!("{:x}", a), 16).unwrap().to_u128(), Some(a));
        assert_eq!(Big::from_u128(a).bit_len(), 128 - a.leading_zeros());
        assert_eq!(Big::from_u128(a).to_decimal(), format!("{}", a));
        assert_eq!(Big::from_u128(a).to_radix(16), format!("{:x}", a));
        assert_eq!(Big::from_u128(a).to_radix(2), format!("{:b}", a));
    }
    // rounding oracle vs str::parse::<f64> on random decimal literals
    for i in 0..20_000u32 {
        let nd = 1 + (next() % 30) as usize;
        let mut digits = String::new();
        for k in 0..nd {
            let d = (next() % 10) as u8;
            digits.push((b'0' + if k == 0 && d == 0 { 1 } else { d }) as char);
        }
        let e = (next() % 700) as i64 - 350;
        let lit = format!("{}e{}", digits, e);
        let r: f64 = lit.parse().unwrap();
        let x = Exact::from_parts(&Big::from_digits(&digits, 10).unwrap(), 10, e);
        if r.is_infinite() {
            assert!(overflows(&x), "oracle disagreement on overflow for {}", lit);
            continue;
        }
        assert!(!overflows(&x), "oracle disagreement on overflow for {}", lit);
        assert!(is_correctly_rounded(r, &x), "M_big and str::parse disagree on {} (#{})", lit, i);
        assert!(within_tolerance(r, &x), "tolerance check rejects the correctly rounded value of {}", lit);
        // neighbours are not correctly rounded (unless x is a tie, which random literals are not)
        let up = f64::from_bits(r.to_bits() + 1);
        if up.is_finite() && r > 0.0 {
            assert!(!is_correctly_rounded(up, &x) || !is_correctly_rounded(r, &x));
        }
    }
    // exact halfway: 2^53 + 1 is a tie between 2^53 and 2^53+2 -> even mantissa
    let x = Exact::from_parts(&Big::from_u64((1u64 << 53) + 1), 10, 0);
    assert!(is_correctly_rounded(9007199254740992.0, &x));
    assert!(!is_correctly_rounded(9007199254740994.0, &x));
    let x = Exact::from_parts(&Big::from_u64((1u64 << 53) + 3), 10, 0);
    assert!(is_correctly_rounded(9007199254740996.0, &x));
    assert!(!is_correctly_rounded(9007199254740994.0, &x));
    // tolerance: 17 ulps off is outside 2^-50 (= 8 ulps at most)
    let x = Exact::from_parts(&Big::from_u64(1), 10, 0);
    assert!(within_tolerance(1.0 + 4.0 * f64::EPSILON, &x));
    assert!(!within_tolerance(1.0 + 17.0 * f64::EPSILON, &x));
    // subnormal absolute term
    let x = Exact::from_parts(&Big::from_u64(3), 10, -324);
    assert!(within_tolerance(5e-324, &x) && within_tolerance(0.0, &x));
    assert!(!within_tolerance(1.5e-323, &x));
    assert!(overflows(&Exact::from_parts(&Big::from_u64(18), 10, 307)));
    assert!(!overflows(&Exact::from_parts(&Big::from_u64(17), 10, 307)));
}
