//! Entry point shared by the libFuzzer target (/verif/harness/fuzz) and by
//! `vp fuzz-replay`: one input, one property, the property's own oracle.

use crate::engine::{CaseResult, FuzzIn};
use crate::props;

/// Properties that have a coverage-guided mode. C03's abort clause, C09
/// (compile-time) and C16 (one process per case) need a process per case and
/// stay with their own engines.
pub const FUZZ_PROPS: &[&str] = &[
    "C01", "C02", "C03", "C04", "C05", "C06", "C07", "C08", "C10", "C11", "C12", "C13", "C14", "C15", "C17", "C18", "C19", "C20",
];

pub fn run(prop: &str, data: &[u8]) -> Option<CaseResult> {
    let mut f = FuzzIn::new(data);
    match prop {
        "C01" => props::c01::fuzz(&mut f),
        "C02" => props::c02::fuzz(&mut f),
        "C03" => props::c03::fuzz(&mut f),
        "C05" => props::c05::fuzz(&mut f),
        "C06" => props::c06::fuzz(&mut f),
        "C07" => props::c07::fuzz(&mut f),
        "C08" => props::c08::fuzz(&mut f),
        "C10" => props::c10::fuzz(&mut f),
        "C11" => props::c11::fuzz(&mut f),
        "C12" => props::c12::fuzz(&mut f),
        "C13" => props::c13::fuzz(&mut f),
        "C15" => props::c15::fuzz(&mut f),
        "C17" => props::c17::fuzz(&mut f),
        "C19" => props::c19::fuzz(&mut f),
        "C20" => props::c20::fuzz(&mut f),
        #[cfg(feature = "ff")]
        "C04" => props::c04::fuzz(&mut f),
        #[cfg(feature = "ff")]
        "C14" => props::c14::fuzz(&mut f),
        #[cfg(feature = "ff")]
        "C18" => props::c18::fuzz(&mut f),
        _ => None,
    }
}

// ------------------------------------------------------------------ libFuzzer side

use std::collections::{BTreeMap, HashSet};
use std::sync::Mutex;

struct State {
    prop: String,
    known: crate::engine::Ctx,
    stats_path: Option<String>,
    execs: u64,
    checked: u64,
    known_hits: u64,
    nontrivial: HashSet<u64>,
    classes: BTreeMap<String, u64>,
}

static STATE: Mutex<Option<State>> = Mutex::new(None);

extern "C" {
    fn atexit(cb: extern "C" fn()) -> i32;
}

extern "C" fn write_stats_at_exit() {
    if let Ok(g) = STATE.lock() {
        if let Some(s) = g.as_ref() {
            write_stats(s);
        }
    }
}

fn write_stats(s: &State) {
    if let Some(p) = &s.stats_path {
        let mut digests: Vec<u64> = s.nontrivial.iter().copied().collect();
        digests.sort_unstable();
        let j = serde_json::json!({
            "property": s.prop,
            "execs": s.execs,
            "checked": s.checked,
            "known_hits": s.known_hits,
            "nontrivial_digests": digests,
            "classes": s.classes,
        });
        let tmp = format!("{}.tmp", p);
        if std::fs::write(&tmp, j.to_string()).is_ok() {
            let _ = std::fs::rename(&tmp, p);
        }
    }
}

/// Body of the libFuzzer target. The property comes from VP_FUZZ_PROP; counts
/// go to VP_FUZZ_STATS (at exit, and every 2^15 executions). A violation that
/// known_findings.json does not list prints its signature and aborts, which
/// makes libFuzzer save the input.
pub fn fuzz_one(data: &[u8]) {
    let mut g = STATE.lock().unwrap_or_else(|e| e.into_inner());
    if g.is_none() {
        // replaces libfuzzer-sys' abort-on-panic hook: panics of the code under
        // test are caught by the oracles and become violations with a signature
        crate::util::install_quiet_panic_hook();
        let prop = std::env::var("VP_FUZZ_PROP").unwrap_or_else(|_| "C03".to_string());
        let known = crate::engine::Ctx::new(&prop, crate::engine::Tier::Quick, 0);
        *g = Some(State {
            prop,
            known,
            stats_path: std::env::var("VP_FUZZ_STATS").ok(),
            execs: 0,
            checked: 0,
            known_hits: 0,
            nontrivial: HashSet::new(),
            classes: BTreeMap::new(),
        });
        unsafe {
            atexit(write_stats_at_exit);
        }
    }
    let s = g.as_mut().unwrap();
    s.execs += 1;
    let prop = s.prop.clone();
    match run(&prop, data) {
        None => {}
        Some(Ok(ev)) => {
            s.checked += 1;
            if ev.nontrivial {
                s.nontrivial.insert(ev.digest);
            }
            for c in ev.classes {
                *s.classes.entry(c.to_string()).or_insert(0) += 1;
            }
        }
        Some(Err(f)) => {
            s.checked += 1;
            if s.known.is_known(&f.signature) {
                s.known_hits += 1;
            } else {
                write_stats(s);
                eprintln!("VP-FUZZ-FAILURE property={} signature={}", prop, f.signature);
                eprintln!("  {}", crate::mv::clip(&f.message, 600));
                std::process::abort();
            }
        }
    }
    if s.execs & 0x7FFF == 0 {
        write_stats(s);
    }
}
