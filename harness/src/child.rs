//! Self-re-exec for observing process aborts (stack overflow) and hangs.
//!
//! The parent spawns `vp child <prop> <json-spec>`; the child runs the
//! operation on a thread with an explicit 2 MiB stack (Rust's default for
//! spawned threads, the "default-sized thread stack" of C16) and prints one
//! `RESULT <json>` line. Signal death = abort; watchdog expiry = inconclusive.

use std::io::Read;
use std::process::{Command, Stdio};
use std::time::{Duration, Instant};

use serde_json::Value as Json;

pub const STACK_BYTES: usize = 2 * 1024 * 1024;

#[derive(Debug)]
pub enum ChildOutcome {
    /// exit code 0 with a RESULT line
    Result(Json),
    /// exited with a status but no RESULT line (e.g. panic -> 101)
    Exit(i32, String),
    /// killed by a signal (SIGSEGV / SIGABRT on stack overflow)
    Signal(i32, String),
    Timeout,
    SpawnError(String),
}

pub fn spawn(prop: &str, spec: &Json, timeout: Duration) -> ChildOutcome {
    spawn_with(prop, spec, None, timeout)
}

pub fn spawn_with(prop: &str, spec: &Json, exe: Option<std::path::PathBuf>, timeout: Duration) -> ChildOutcome {
    let exe = match exe.or_else(|| std::env::var_os("VP_CHILD_EXE").map(std::path::PathBuf::from)).or_else(|| std::env::current_exe().ok()) {
        Some(e) => e,
        None => return ChildOutcome::SpawnError("cannot find own executable".into()),
    };
    let mut child = match Command::new(exe)
        .arg("child")
        .arg(prop)
        .arg(spec.to_string())
        .stdin(Stdio::null())
        .stdout(Stdio::piped())
        .stderr(Stdio::piped())
        .spawn()
    {
        Ok(c) => c,
        Err(e) => return ChildOutcome::SpawnError(e.to_string()),
    };
    let start = Instant::now();
    loop {
        match child.try_wait() {
            Ok(Some(status)) => {
                let mut out = String::new();
                let mut err = String::new();
                if let Some(mut o) = child.stdout.take() {
                    let _ = o.read_to_string(&mut out);
                }
                if let Some(mut e) = child.stderr.take() {
                    let _ = e.read_to_string(&mut err);
                }
                #[cfg(unix)]
                {
                    use std::os::unix::process::ExitStatusExt;
                    if let Some(sig) = status.signal() {
                        return ChildOutcome::Signal(sig, crate::mv::clip(&err, 300));
                    }
                }
                for line in out.lines() {
                    if let Some(j) = line.strip_prefix("RESULT ") {
                        if let Ok(v) = serde_json::from_str(j) {
                            if status.code() == Some(0) {
                                return ChildOutcome::Result(v);
                            }
                        }
                    }
                }
                return ChildOutcome::Exit(status.code().unwrap_or(-1), crate::mv::clip(&format!("{}{}", out, err), 400));
            }
            Ok(None) => {
                if start.elapsed() > timeout {
                    let _ = child.kill();
                    let _ = child.wait();
                    return ChildOutcome::Timeout;
                }
                std::thread::sleep(Duration::from_millis(5));
            }
            Err(e) => return ChildOutcome::SpawnError(e.to_string()),
        }
    }
}

/// Run `f` on a 2 MiB thread and print its result line.
pub fn run_on_small_stack(f: impl FnOnce() -> Json + Send + 'static) -> i32 {
    let h = std::thread::Builder::new()
        .stack_size(STACK_BYTES)
        .name("vp-child-2MiB".into())
        .spawn(f)
        .expect("spawn thread");
    match h.join() {
        Ok(j) => {
            println!("RESULT {}", j);
            0
        }
        Err(_) => {
            println!("PANIC");
            101
        }
    }
}

/// Like [`spawn_all`], with an executable per spec.
pub fn spawn_all_with(prop: &str, specs: &[Json], exes: &[Option<std::path::PathBuf>], timeout: Duration, par: usize) -> Vec<ChildOutcome> {
    use rayon::prelude::*;
    let pool = rayon::ThreadPoolBuilder::new().num_threads(par.max(1)).build().expect("pool");
    pool.install(|| specs.par_iter().zip(exes.par_iter()).map(|(s, e)| spawn_with(prop, s, e.clone(), timeout)).collect())
}

/// Run many child specs, `par` at a time, preserving order.
pub fn spawn_all(prop: &str, specs: &[Json], timeout: Duration, par: usize) -> Vec<ChildOutcome> {
    use rayon::prelude::*;
    let pool = rayon::ThreadPoolBuilder::new().num_threads(par.max(1)).build().expect("pool");
    pool.install(|| specs.par_iter().map(|s| spawn(prop, s, timeout)).collect())
}
