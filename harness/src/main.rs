//! vp — property-based verification harness for lexpr-rs.
//!
//!   vp run <ID> --tier quick|thorough --seed N --out <evidence-part.json>
//!   vp replay <file> [--strict]
//!   vp selftest
//!   vp list

mod big;
mod child;
mod engine;
mod gen;
mod gen_text;
mod layout;
mod model;
mod mv;
mod opts;
mod props;
mod reader;
#[cfg(feature = "ff")]
mod serde_fam;
mod util;

use std::path::{Path, PathBuf};
use std::time::Instant;

use engine::*;
use serde_json::{json, Value as Json};

fn arg_value(args: &[String], name: &str) -> Option<String> {
    args.iter()
        .position(|a| a == name)
        .and_then(|i| args.get(i + 1).cloned())
}

fn verif_dir() -> PathBuf {
    std::env::var_os("VERIF_DIR")
        .map(PathBuf::from)
        .unwrap_or_else(|| PathBuf::from("/verif"))
}

fn selftest() {
    opts::self_test();
    model::self_test();
    reader::self_test();
    big::self_test();
    layout::self_test();
}

/// Run the committed corpus (replay tier) of a property.
fn run_corpus(ctx: &mut Ctx, prop: &props::Prop) {
    let dir = verif_dir().join("corpus").join(prop.id);
    let mut files: Vec<PathBuf> = match std::fs::read_dir(&dir) {
        Ok(rd) => rd.filter_map(|e| e.ok().map(|e| e.path())).collect(),
        Err(_) => return,
    };
    files.sort();
    for f in files {
        if f.extension().and_then(|e| e.to_str()) != Some("json") {
            continue;
        }
        let text = match std::fs::read_to_string(&f) {
            Ok(t) => t,
            Err(_) => continue,
        };
        let j: Json = match serde_json::from_str(&text) {
            Ok(j) => j,
            Err(e) => {
                ctx.inconclusive.push(format!("corpus file {:?} is not JSON: {}", f, e));
                continue;
            }
        };
        let build = j.get("build").and_then(|b| b.as_str()).unwrap_or("any");
        if build != "any" && build != BUILD {
            continue;
        }
        let sub = j.get("sub").and_then(|s| s.as_str()).unwrap_or("corpus");
        let case = j.get("case").cloned().unwrap_or(Json::Null);
        match (prop.replay)(sub, &case) {
            Some(r) => {
                *ctx.stats.classes.entry("corpus-case".into()).or_insert(0) += 1;
                ctx.observe(&format!("corpus:{}", sub), r);
            }
            None => ctx
                .inconclusive
                .push(format!("corpus file {:?} could not be decoded for replay", f)),
        }
    }
    ctx.flush_failures();
}

fn cmd_run(args: &[String]) -> i32 {
    let id = match args.get(0) {
        Some(i) => i.clone(),
        None => {
            eprintln!("usage: vp run <ID> ...");
            return 2;
        }
    };
    let prop = match props::find(&id) {
        Some(p) => p,
        None => {
            eprintln!("unknown property {}", id);
            return 2;
        }
    };
    let tier = match arg_value(args, "--tier")
        .or_else(|| std::env::var("VERIF_TIER").ok())
        .as_deref()
    {
        Some("thorough") => Tier::Thorough,
        _ => Tier::Quick,
    };
    let seed: u64 = arg_value(args, "--seed")
        .or_else(|| std::env::var("VERIF_SEED").ok())
        .and_then(|s| s.parse().ok())
        .unwrap_or(0);
    let out = arg_value(args, "--out");
    if !prop.builds.contains(&BUILD) {
        eprintln!("{} does not run in build {}", id, BUILD);
        return 0;
    }
    util::install_quiet_panic_hook();
    selftest();
    let start = Instant::now();
    let mut ctx = Ctx::new(prop.id, tier, seed);
    run_corpus(&mut ctx, &prop);
    (prop.run)(&mut ctx);
    ctx.flush_failures();
    // generator health
    let required = ctx.required_classes.clone();
    for c in required {
        if ctx.stats.classes.get(c).copied().unwrap_or(0) == 0 {
            ctx.inconclusive
                .push(format!("generator failed to reach class {}", c));
        }
    }
    let wall = start.elapsed().as_secs_f64();
    let ev = ctx.evidence(prop.level, prop.rule, prop.assumptions, wall);
    if let Some(out) = out {
        if let Some(parent) = Path::new(&out).parent() {
            let _ = std::fs::create_dir_all(parent);
        }
        std::fs::write(&out, serde_json::to_string_pretty(&ev).unwrap()).expect("write evidence part");
    }
    for (sub, f, path) in &ctx.violations {
        println!("VIOLATION property={} replay={}", prop.id, path.display());
        println!("  build={} sub={} signature={}", BUILD, sub, f.signature);
        println!("  {}", mv::clip(&f.message, 600));
    }
    for (sig, (n, _, msg)) in &ctx.stats.known_hits {
        println!("KNOWN-HIT property={} build={} hits={} signature={} :: {}", prop.id, BUILD, n, sig, mv::clip(msg, 200));
    }
    for m in &ctx.inconclusive {
        println!("INCONCLUSIVE property={} build={} {}", prop.id, BUILD, m);
    }
    eprintln!(
        "[{} {} {}] evaluations={} distinct_nontrivial={} violations={} known={} wall={:.1}s",
        prop.id,
        BUILD,
        tier.name(),
        ctx.stats.evals,
        ctx.stats.nontrivial.len(),
        ctx.violations.len(),
        ctx.stats.known_hits.len(),
        wall
    );
    if !ctx.violations.is_empty() {
        1
    } else if !ctx.inconclusive.is_empty() {
        2
    } else {
        0
    }
}

fn cmd_replay(args: &[String]) -> i32 {
    let file = match args.get(0) {
        Some(f) => f,
        None => {
            eprintln!("usage: vp replay <file>");
            return 2;
        }
    };
    let text = std::fs::read_to_string(file).expect("read replay file");
    let j: Json = serde_json::from_str(&text).expect("replay file is JSON");
    let id = j["property"].as_str().expect("property");
    let prop = props::find(id).expect("known property");
    let build = j.get("build").and_then(|b| b.as_str()).unwrap_or("any");
    if build != "any" && build != BUILD {
        println!("SKIP replay is for build {} (this is {})", build, BUILD);
        return 0;
    }
    util::install_quiet_panic_hook();
    let sub = j.get("sub").and_then(|s| s.as_str()).unwrap_or("corpus");
    let case = j.get("case").cloned().unwrap_or(Json::Null);
    match (prop.replay)(sub, &case) {
        None => {
            println!("INCONCLUSIVE cannot decode case");
            2
        }
        Some(Ok(_)) => {
            println!("PASS property={} build={} (case holds)", id, BUILD);
            0
        }
        Some(Err(f)) => {
            let ctx = Ctx::new(id, Tier::Quick, 0);
            let known = ctx.is_known(&f.signature) && !args.iter().any(|a| a == "--strict");
            if known {
                println!("KNOWN-FINDING: property={} {}", id, f.signature);
                println!("  {}", f.message);
                0
            } else {
                println!("VIOLATION property={} replay={}", id, file);
                println!("  signature={}", f.signature);
                println!("  {}", f.message);
                1
            }
        }
    }
}

fn main() {
    let args: Vec<String> = std::env::args().skip(1).collect();
    let code = match args.get(0).map(|s| s.as_str()) {
        Some("run") => cmd_run(&args[1..]),
        Some("replay") => cmd_replay(&args[1..]),
        Some("child") => match args.get(1).map(|s| s.as_str()) {
            Some("c03") => props::c03::child_main(args.get(2).map(|s| s.as_str()).unwrap_or("")),
            Some("c16") => props::c16::child_main(args.get(2).map(|s| s.as_str()).unwrap_or("")),
            _ => 2,
        },
        Some("selftest") => {
            selftest();
            println!("selftest ok ({})", BUILD);
            0
        }
        Some("list") => {
            for p in props::all() {
                println!("{} {:?}", p.id, p.builds);
            }
            0
        }
        _ => {
            eprintln!("usage: vp run|replay|selftest|list ...");
            2
        }
    };
    let _ = json!(null);
    std::process::exit(code);
}
