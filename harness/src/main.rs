//! vp — property-based verification harness for lexpr-rs.
//!
//!   vp run <ID> --tier quick|thorough --seed N --out <evidence-part.json>
//!   vp replay <file> [--strict]
//!   vp selftest
//!   vp list

use vp::{big, engine, layout, model, mv, opts, props, reader, util};

use std::path::{Path, PathBuf};
use std::time::Instant;

use engine::*;
use serde_json::{json, Value as Json};

fn arg_value(args: &[String], name: &str) -> Option<String> {
    args.iter()
        .position(|a| a == name)
        .and_then(|i| args.get(i + 1).cloned())
}

fn verif_dir() -> PathBuf {
    std::env::var_os("VERIF_DIR")
        .map(PathBuf::from)
        .unwrap_or_else(|| PathBuf::from("/verif"))
}

fn selftest() {
    opts::self_test();
    model::self_test();
    reader::self_test();
    big::self_test();
    layout::self_test();
}

/// Run the committed corpus (replay tier) of a property.
fn run_corpus(ctx: &mut Ctx, prop: &props::Prop) {
    let dir = verif_dir().join("corpus").join(prop.id);
    let mut files: Vec<PathBuf> = match std::fs::read_dir(&dir) {
        Ok(rd) => rd.filter_map(|e| e.ok().map(|e| e.path())).collect(),
        Err(_) => return,
    };
    files.sort();
    for f in files {
        if f.extension().and_then(|e| e.to_str()) != Some("json") {
            continue;
        }
        let text = match std::fs::read_to_string(&f) {
            Ok(t) => t,
            Err(_) => continue,
        };
        let j: Json = match serde_json::from_str(&text) {
            Ok(j) => j,
            Err(e) => {
                ctx.inconclusive.push(format!("corpus file {:?} is not JSON: {}", f, e));
                continue;
            }
        };
        let build = j.get("build").and_then(|b| b.as_str()).unwrap_or("any");
        if build != "any" && build != BUILD {
            continue;
        }
        let sub = j.get("sub").and_then(|s| s.as_str()).unwrap_or("corpus");
        let case = j.get("case").cloned().unwrap_or(Json::Null);
        match (prop.replay)(sub, &case) {
            Some(r) => {
                *ctx.stats.classes.entry("corpus-case".into()).or_insert(0) += 1;
                ctx.observe(&format!("corpus:{}", sub), r);
            }
            None => ctx
                .inconclusive
                .push(format!("corpus file {:?} could not be decoded for replay", f)),
        }
    }
    ctx.flush_failures();
}

fn cmd_run(args: &[String]) -> i32 {
    let id = match args.get(0) {
        Some(i) => i.clone(),
        None => {
            eprintln!("usage: vp run <ID> ...");
            return 2;
        }
    };
    let prop = match props::find(&id) {
        Some(p) => p,
        None => {
            eprintln!("unknown property {}", id);
            return 2;
        }
    };
    let tier = match arg_value(args, "--tier")
        .or_else(|| std::env::var("VERIF_TIER").ok())
        .as_deref()
    {
        Some("thorough") => Tier::Thorough,
        _ => Tier::Quick,
    };
    let seed: u64 = arg_value(args, "--seed")
        .or_else(|| std::env::var("VERIF_SEED").ok())
        .and_then(|s| s.parse().ok())
        .unwrap_or(0);
    let out = arg_value(args, "--out");
    if !prop.builds.contains(&BUILD) {
        eprintln!("{} does not run in build {}", id, BUILD);
        return 0;
    }
    util::install_quiet_panic_hook();
    selftest();
    let start = Instant::now();
    let mut ctx = Ctx::new(prop.id, tier, seed);
    // VP_ONLY_FUZZ=1 (development aid): measure the coverage-guided stage on its own
    let only_fuzz = std::env::var("VP_ONLY_FUZZ").map_or(false, |v| v == "1");
    if !only_fuzz {
        run_corpus(&mut ctx, &prop);
        (prop.run)(&mut ctx);
        ctx.flush_failures();
    }
    if BUILD == "ff" && vp::fuzz_entry::FUZZ_PROPS.contains(&prop.id) {
        if let Some(exe) = std::env::var_os("VP_FUZZ_EXE") {
            fuzz_stage(&mut ctx, Path::new(&exe));
        }
    }
    // generator health
    let required = if only_fuzz { Vec::new() } else { ctx.required_classes.clone() };
    for c in required {
        if ctx.stats.classes.get(c).copied().unwrap_or(0) == 0 {
            ctx.inconclusive
                .push(format!("generator failed to reach class {}", c));
        }
    }
    let wall = start.elapsed().as_secs_f64();
    let ev = ctx.evidence(prop.level, prop.rule, prop.assumptions, wall);
    if let Some(out) = out {
        if let Some(parent) = Path::new(&out).parent() {
            let _ = std::fs::create_dir_all(parent);
        }
        std::fs::write(&out, serde_json::to_string_pretty(&ev).unwrap()).expect("write evidence part");
    }
    for (sub, f, path) in &ctx.violations {
        println!("VIOLATION property={} replay={}", prop.id, path.display());
        println!("  build={} sub={} signature={}", BUILD, sub, f.signature);
        println!("  {}", mv::clip(&f.message, 600));
    }
    for (sig, (n, _, msg)) in &ctx.stats.known_hits {
        println!("KNOWN-HIT property={} build={} hits={} signature={} :: {}", prop.id, BUILD, n, sig, mv::clip(msg, 200));
    }
    for m in &ctx.inconclusive {
        println!("INCONCLUSIVE property={} build={} {}", prop.id, BUILD, m);
    }
    eprintln!(
        "[{} {} {}] evaluations={} distinct_nontrivial={} violations={} known={} wall={:.1}s",
        prop.id,
        BUILD,
        tier.name(),
        ctx.stats.evals,
        ctx.stats.nontrivial.len(),
        ctx.violations.len(),
        ctx.stats.known_hits.len(),
        wall
    );
    if !ctx.violations.is_empty() {
        1
    } else if !ctx.inconclusive.is_empty() {
        2
    } else {
        0
    }
}

fn cmd_replay(args: &[String]) -> i32 {
    let file = match args.get(0) {
        Some(f) => f,
        None => {
            eprintln!("usage: vp replay <file>");
            return 2;
        }
    };
    let text = std::fs::read_to_string(file).expect("read replay file");
    let j: Json = serde_json::from_str(&text).expect("replay file is JSON");
    let id = j["property"].as_str().expect("property");
    let prop = props::find(id).expect("known property");
    let build = j.get("build").and_then(|b| b.as_str()).unwrap_or("any");
    if build != "any" && build != BUILD {
        println!("SKIP replay is for build {} (this is {})", build, BUILD);
        return 0;
    }
    util::install_quiet_panic_hook();
    let sub = j.get("sub").and_then(|s| s.as_str()).unwrap_or("corpus");
    let case = j.get("case").cloned().unwrap_or(Json::Null);
    let result = match case.get("fuzz_input").and_then(|h| h.as_str()) {
        Some(h) => {
            let bytes: Vec<u8> = (0..h.len() / 2).filter_map(|i| u8::from_str_radix(&h[2 * i..2 * i + 2], 16).ok()).collect();
            vp::fuzz_entry::run(id, &bytes)
        }
        None => (prop.replay)(sub, &case),
    };
    match result {
        None => {
            println!("INCONCLUSIVE cannot decode case");
            2
        }
        Some(Ok(_)) => {
            println!("PASS property={} build={} (case holds)", id, BUILD);
            0
        }
        Some(Err(f)) => {
            let ctx = Ctx::new(id, Tier::Quick, 0);
            let known = ctx.is_known(&f.signature) && !args.iter().any(|a| a == "--strict");
            if known {
                println!("KNOWN-FINDING: property={} {}", id, f.signature);
                println!("  {}", f.message);
                0
            } else {
                println!("VIOLATION property={} replay={}", id, file);
                println!("  signature={}", f.signature);
                println!("  {}", f.message);
                1
            }
        }
    }
}

fn hex(b: &[u8]) -> String {
    b.iter().map(|x| format!("{:02x}", x)).collect()
}

/// Coverage-guided stage: run the libFuzzer target (built by ./check from the
/// current tree) for a fixed number of executions per worker, merge its counts
/// into the evidence, and turn every saved crash input into a violation with
/// the usual replay file by running it through the same oracle in-process.
fn fuzz_stage(ctx: &mut Ctx, exe: &Path) {
    use std::process::{Command, Stdio};
    let id = ctx.prop.clone();
    let tier = ctx.tier;
    let work = verif_dir().join("work").join("fuzz").join(&id);
    let _ = std::fs::remove_dir_all(&work);
    let corpus = work.join("corpus");
    let art = work.join("artifacts");
    std::fs::create_dir_all(&corpus).expect("fuzz corpus dir");
    std::fs::create_dir_all(&art).expect("fuzz artifact dir");
    // seed corpus: committed inputs (shared + per property)
    let mut nseeds = 0usize;
    for d in [verif_dir().join("harness/fuzz/seeds/common"), verif_dir().join("harness/fuzz/seeds").join(&id)] {
        if let Ok(rd) = std::fs::read_dir(&d) {
            let mut files: Vec<PathBuf> = rd.filter_map(|e| e.ok().map(|e| e.path())).collect();
            files.sort();
            for f in files {
                if let (Some(name), Ok(data)) = (f.file_name(), std::fs::read(&f)) {
                    let _ = std::fs::write(corpus.join(name), data);
                    nseeds += 1;
                }
            }
        }
    }
    let workers: u64 = std::env::var("VP_FUZZ_WORKERS").ok().and_then(|s| s.parse().ok()).unwrap_or(tier.pick(8, 16));
    let runs: u64 = std::env::var("VP_FUZZ_RUNS").ok().and_then(|s| s.parse().ok()).unwrap_or(tier.pick(20_000, 300_000));
    let budget = std::time::Duration::from_secs(tier.pick(600, 2700));
    // libFuzzer measures memory with getrusage's peak RSS, and on Linux a
    // spawned process starts with the peak of the process that spawned it: the
    // limit has to sit above this process's own high-water mark
    let own_peak_mb: u64 = std::fs::read_to_string("/proc/self/status")
        .ok()
        .and_then(|t| t.lines().find(|l| l.starts_with("VmHWM:")).and_then(|l| l.split_whitespace().nth(1).and_then(|n| n.parse::<u64>().ok())))
        .map_or(0, |kb| kb / 1024);
    let rss_limit = own_peak_mb + 6000;
    let start = Instant::now();
    let mut children = Vec::new();
    for w in 0..workers {
        let log = std::fs::File::create(work.join(format!("log-{}.txt", w))).expect("fuzz log");
        let seed = 1 + (ctx.seed.wrapping_mul(1000).wrapping_add(w)) % 0x7FFF_FFFF;
        let child = Command::new(exe)
            .arg(&corpus)
            .arg(format!("-runs={}", runs))
            .arg(format!("-seed={}", seed))
            .arg("-max_len=400")
            .arg("-len_control=0")
            // no per-input alarm: libFuzzer's timeout handler allocates inside a
            // signal handler and deadlocks when it interrupts malloc (seen when
            // the whole sandbox was paused for half a minute); a worker that
            // really hangs is ended by the wall-clock budget below instead
            .arg("-timeout=0")
            .arg(format!("-rss_limit_mb={}", rss_limit))
            .arg("-reload=1")
            .arg(format!("-dict={}", verif_dir().join("harness/fuzz/dict.txt").display()))
            .arg(format!("-artifact_prefix={}/w{}-", art.display(), w))
            .env("VP_FUZZ_PROP", &id)
            .env("VP_FUZZ_STATS", work.join(format!("stats-{}.json", w)))
            .env("VERIF_DIR", verif_dir())
            .stdin(Stdio::null())
            .stdout(Stdio::null())
            .stderr(Stdio::from(log))
            .spawn();
        match child {
            Ok(c) => children.push((w, c)),
            Err(e) => ctx.inconclusive.push(format!("cannot start the libFuzzer target {}: {}", exe.display(), e)),
        }
    }
    for (w, mut c) in children {
        loop {
            match c.try_wait() {
                Ok(Some(_)) => break,
                Ok(None) if start.elapsed() > budget => {
                    let _ = c.kill();
                    let _ = c.wait();
                    ctx.inconclusive.push(format!("libFuzzer worker {} exceeded the wall-clock budget of {} s", w, budget.as_secs()));
                    break;
                }
                Ok(None) => std::thread::sleep(std::time::Duration::from_millis(50)),
                Err(e) => {
                    ctx.inconclusive.push(format!("waiting for libFuzzer worker {}: {}", w, e));
                    break;
                }
            }
        }
    }
    // counts
    let (mut execs, mut checked, mut known_hits) = (0u64, 0u64, 0u64);
    for w in 0..workers {
        let p = work.join(format!("stats-{}.json", w));
        let j: Json = match std::fs::read_to_string(&p).ok().and_then(|t| serde_json::from_str(&t).ok()) {
            Some(j) => j,
            None => {
                ctx.inconclusive.push(format!("libFuzzer worker {} left no statistics (see {})", w, work.join(format!("log-{}.txt", w)).display()));
                continue;
            }
        };
        execs += j["execs"].as_u64().unwrap_or(0);
        checked += j["checked"].as_u64().unwrap_or(0);
        known_hits += j["known_hits"].as_u64().unwrap_or(0);
        let mut st = Stats::default();
        st.evals = j["checked"].as_u64().unwrap_or(0);
        if let Some(ds) = j["nontrivial_digests"].as_array() {
            st.nontrivial.extend(ds.iter().filter_map(|d| d.as_u64()));
        }
        if let Some(cs) = j["classes"].as_object() {
            for (k, v) in cs {
                st.classes.insert(k.clone(), v.as_u64().unwrap_or(0));
            }
        }
        ctx.merge(st);
    }
    let corpus_files = std::fs::read_dir(&corpus).map(|rd| rd.count()).unwrap_or(0);
    ctx.notes.push(format!(
        "coverage-guided stage (libFuzzer, sancov, debug assertions and the UTF-8 hook assertions on): {} workers x {} executions from {} seed inputs; {} executions, {} decoded to a case and went through the oracle ({} hits on listed findings); the corpus grew to {} inputs",
        workers, runs, nseeds, execs, checked, known_hits, corpus_files
    ));
    *ctx.stats.classes.entry("engine:libfuzzer-executions".to_string()).or_insert(0) += execs;
    // a few inputs of the final corpus as samples: the ones libFuzzer kept last
    {
        let mut files: Vec<(std::time::SystemTime, PathBuf)> = std::fs::read_dir(&corpus)
            .map(|rd| rd.filter_map(|e| e.ok()).filter_map(|e| Some((e.metadata().ok()?.modified().ok()?, e.path()))).collect())
            .unwrap_or_default();
        files.sort();
        for (_, f) in files.iter().rev().take(4) {
            if let Ok(data) = std::fs::read(f) {
                let outcome = match util::catch(|| vp::fuzz_entry::run(&id, &data)) {
                    Ok(Some(Ok(ev))) => format!("checked; non-trivial={} classes={:?}", ev.nontrivial, ev.classes),
                    Ok(Some(Err(f))) => format!("FAILS: {}", f.signature),
                    Ok(None) => "does not decode to a case".to_string(),
                    Err(pm) => format!("panic: {}", pm),
                };
                ctx.samples.push(json!({"sub": "fuzz", "engine": "libfuzzer", "mode_byte": data.first().copied().unwrap_or(0), "input": mv::clip(&mv::bytes_lossy(&data), 160), "outcome": outcome}));
            }
        }
    }
    // saved inputs
    let mut arts: Vec<PathBuf> = std::fs::read_dir(&art).map(|rd| rd.filter_map(|e| e.ok().map(|e| e.path())).collect()).unwrap_or_default();
    arts.sort();
    for a in arts {
        let name = a.file_name().and_then(|n| n.to_str()).unwrap_or("").to_string();
        let data = match std::fs::read(&a) {
            Ok(d) => d,
            Err(_) => continue,
        };
        if name.contains("timeout-") || name.contains("oom-") || name.contains("slow-unit-") {
            if !name.contains("slow-unit-") {
                ctx.inconclusive.push(format!("libFuzzer reported {} (input {}); not counted as a violation", name, hex(&data)));
            }
            continue;
        }
        match util::catch(|| vp::fuzz_entry::run(&id, &data)) {
            Ok(Some(Err(f))) => ctx.add_violation("fuzz", f),
            Ok(Some(Ok(_))) | Ok(None) => {
                // the instrumented build failed on it, the plain build does not
                let sig = format!("{} fuzz crash not reproduced by the oracle in the plain build", id);
                ctx.add_violation("fuzz", Failure::new(sig, format!("libFuzzer saved {} but vp fuzz-replay passes; see the worker logs in {}", name, work.display()), json!({"fuzz_input": hex(&data)})));
            }
            Err(pm) => ctx.add_violation("fuzz", Failure::new(format!("{} fuzz panic outside the oracle: {}", id, util::panic_sig(&pm)), pm, json!({"fuzz_input": hex(&data)}))),
        }
    }
}

/// vp fuzz-smoke <ID> <n> [seed]: n pseudo-random and seed-derived inputs through
/// the fuzz entry of a property, without libFuzzer (development aid: speed,
/// decode rate, false alarms).
fn cmd_fuzz_smoke(args: &[String]) -> i32 {
    use rayon::prelude::*;
    let id = args.get(0).cloned().unwrap_or_default();
    let n: u64 = args.get(1).and_then(|s| s.parse().ok()).unwrap_or(10_000);
    let seed: u64 = args.get(2).and_then(|s| s.parse().ok()).unwrap_or(1);
    util::install_quiet_panic_hook();
    let mut seeds: Vec<Vec<u8>> = Vec::new();
    if let Ok(rd) = std::fs::read_dir(verif_dir().join("harness/fuzz/seeds/common")) {
        for e in rd.flatten() {
            if let Ok(d) = std::fs::read(e.path()) {
                seeds.push(d);
            }
        }
    }
    seeds.sort();
    let start = Instant::now();
    let results: Vec<(u64, u64, Option<(String, String, Vec<u8>)>)> = (0..n)
        .into_par_iter()
        .map(|i| {
            let mut x = engine::mix(seed, i);
            let mut next = || {
                x = engine::mix(x, 0x1234_5678);
                x
            };
            let mut data: Vec<u8> = if !seeds.is_empty() && next() % 2 == 0 {
                seeds[(next() % seeds.len() as u64) as usize].clone()
            } else {
                (0..next() % 120).map(|_| next() as u8).collect()
            };
            for _ in 0..next() % 6 {
                if data.is_empty() {
                    break;
                }
                let at = (next() % data.len() as u64) as usize;
                match next() % 3 {
                    0 => data[at] = next() as u8,
                    1 => {
                        const PUNCT: &[u8] = b"()#\\\".;'`,|[]0123456789ae+-:?xX";
                        data.insert(at, PUNCT[(next() % PUNCT.len() as u64) as usize])
                    }
                    _ => {
                        data.remove(at);
                    }
                }
            }
            if !data.is_empty() && next() % 2 == 0 {
                data[0] = next() as u8;
            }
            match util::catch(|| vp::fuzz_entry::run(&id, &data)) {
                Ok(None) => (0, 0, None),
                Ok(Some(Ok(ev))) => (1, ev.nontrivial as u64, None),
                Ok(Some(Err(f))) => (1, 0, Some((f.signature, f.message, data))),
                Err(pm) => (1, 0, Some((format!("panic outside the oracle: {}", util::panic_sig(&pm)), pm, data))),
            }
        })
        .collect();
    let checked: u64 = results.iter().map(|r| r.0).sum();
    let nontrivial: u64 = results.iter().map(|r| r.1).sum();
    let mut sigs: std::collections::BTreeMap<String, (u64, String, Vec<u8>)> = Default::default();
    for (_, _, f) in results {
        if let Some((sig, msg, data)) = f {
            let e = sigs.entry(sig).or_insert((0, msg, data));
            e.0 += 1;
        }
    }
    println!("{}: {} inputs, {} decoded, {} non-trivial, {} failing signatures, {:.1}s", id, n, checked, nontrivial, sigs.len(), start.elapsed().as_secs_f64());
    for (sig, (k, msg, data)) in &sigs {
        println!("  {} x {}\n    {}\n    input {}", k, sig, mv::clip(msg, 300), hex(data));
    }
    if sigs.is_empty() {
        0
    } else {
        1
    }
}

/// vp fuzz-replay <ID> <file>: run one libFuzzer input through the property's oracle.
fn cmd_fuzz_replay(args: &[String]) -> i32 {
    let (id, file) = match (args.get(0), args.get(1)) {
        (Some(i), Some(f)) => (i, f),
        _ => {
            eprintln!("usage: vp fuzz-replay <ID> <file>");
            return 2;
        }
    };
    let data = std::fs::read(file).expect("read input");
    util::install_quiet_panic_hook();
    match vp::fuzz_entry::run(id, &data) {
        None => {
            println!("SKIP the input does not decode to a case of {}", id);
            0
        }
        Some(Ok(ev)) => {
            println!("PASS property={} nontrivial={} classes={:?}", id, ev.nontrivial, ev.classes);
            0
        }
        Some(Err(f)) => {
            println!("VIOLATION property={} replay={}", id, file);
            println!("  signature={}", f.signature);
            println!("  {}", mv::clip(&f.message, 600));
            1
        }
    }
}

fn main() {
    let args: Vec<String> = std::env::args().skip(1).collect();
    let code = match args.get(0).map(|s| s.as_str()) {
        Some("run") => cmd_run(&args[1..]),
        Some("replay") => cmd_replay(&args[1..]),
        Some("child") => match args.get(1).map(|s| s.as_str()) {
            Some("c03") => props::c03::child_main(args.get(2).map(|s| s.as_str()).unwrap_or("")),
            Some("c16") => props::c16::child_main(args.get(2).map(|s| s.as_str()).unwrap_or("")),
            _ => 2,
        },
        Some("fuzz-replay") => cmd_fuzz_replay(&args[1..]),
        Some("fuzz-smoke") => cmd_fuzz_smoke(&args[1..]),
        Some("selftest") => {
            selftest();
            println!("selftest ok ({})", BUILD);
            0
        }
        Some("list") => {
            for p in props::all() {
                println!("{} {:?}", p.id, p.builds);
            }
            0
        }
        _ => {
            eprintln!("usage: vp run|replay|selftest|list ...");
            2
        }
    };
    let _ = json!(null);
    std::process::exit(code);
}
