//! Shared proptest generators (DESIGN.md section 2). Everything is built by
//! construction; no `prop_filter` on hot paths.

use proptest::collection::vec;
use proptest::prelude::*;
use proptest::strategy::Union;

use crate::mv::MV;

pub type BS<T> = BoxedStrategy<T>;

// --------------------------------------------------------------------------
// characters

pub const ASCII_LETTERS: &str = "abcdefghijklmnopqrstuvwxyzABCDEFGHIJKLMNOPQRSTUVWXYZ";
/// R7RS <special initial>
pub const SPECIAL_INITIAL: &str = "!$%&*/:<=>?^_~";
/// R7RS <special subsequent> and digits
pub const SPECIAL_SUBSEQUENT: &str = "+-.@";
pub const DIGITS: &str = "0123456789";

fn pick(s: &'static str) -> BS<char> {
    let cs: Vec<char> = s.chars().collect();
    (0..cs.len()).prop_map(move |i| cs[i]).boxed()
}

/// A Unicode alphabetic scalar (non-ASCII).
pub fn unicode_alpha() -> BS<char> {
    let by_range = prop_oneof![
        3 => 0x00C0u32..=0x00FF,
        3 => 0x0370u32..=0x03FF,
        2 => 0x0400u32..=0x04FF,
        2 => 0x4E00u32..=0x9FFF,
        1 => 0xAC00u32..=0xD7A3,
        1 => 0x10000u32..=0x1007F,
        1 => 0x1D400u32..=0x1D7FF,
        1 => 0x20000u32..=0x2A6DF,
    ]
    .prop_map(|u| match char::from_u32(u) {
        Some(c) if c.is_alphabetic() => c,
        _ => 'λ',
    });
    // uniformly over every alphabetic code point, and over the alphabetic ones
    // that are also numeric (letter numbers: Roman numerals, 〇, ...), which a
    // rule written with is_numeric() or is_alphanumeric() treats differently
    let all = alphabetic_table();
    let (na, nn) = (all.0.len(), all.1.len());
    prop_oneof![
        6 => by_range,
        3 => (0..na).prop_map(move |i| alphabetic_table().0[i]),
        2 => (0..nn).prop_map(move |i| alphabetic_table().1[i]),
    ]
    .boxed()
}

/// (all non-ASCII alphabetic code points, those of them that are numeric too)
fn alphabetic_table() -> &'static (Vec<char>, Vec<char>) {
    static T: std::sync::OnceLock<(Vec<char>, Vec<char>)> = std::sync::OnceLock::new();
    T.get_or_init(|| {
        let all: Vec<char> = (0x80u32..=0x10FFFF).filter_map(char::from_u32).filter(|c| c.is_alphabetic()).collect();
        let num: Vec<char> = all.iter().copied().filter(|c| c.is_numeric()).collect();
        (all, num)
    })
}

/// A Unicode numeric (non-ASCII) scalar, for subsequents.
pub fn unicode_numeric() -> BS<char> {
    prop_oneof![0x0660u32..=0x0669, 0x0966u32..=0x096F, 0xFF10u32..=0xFF19]
        .prop_map(|u| match char::from_u32(u) {
            Some(c) if c.is_numeric() => c,
            _ => '٣',
        })
        .boxed()
}

/// Every Unicode scalar value reachable, with weights on the interesting
/// classes (G_char).
pub fn g_char() -> BS<u32> {
    prop_oneof![
        6 => 0x21u32..=0x7E,                         // printable ASCII
        3 => pick("()[];\"#|'`, \\.x?:").prop_map(|c| c as u32), // delimiters & sigils
        2 => 0x00u32..=0x1F,                         // C0 controls
        1 => Just(0x7Fu32),                          // DEL
        1 => 0x80u32..=0x9F,                         // C1 (incl. NEL)
        2 => 0xA0u32..=0xFF,                         // Latin-1
        2 => 0x100u32..=0xD7FF,                      // BMP below surrogates
        1 => 0xE000u32..=0xFFFF,                     // BMP above surrogates
        2 => 0x10000u32..=0x10FFFF,                  // astral
        1 => prop_oneof![Just(0x10FFFFu32), Just(0xFFFFu32), Just(0xD7FFu32), Just(0xE000u32), Just(0x2028u32), Just(0x85u32), Just(0xFEFFu32)],
    ]
    .boxed()
}

pub fn g_string(max: usize) -> BS<String> {
    prop_oneof![
        8 => vec(g_char(), 0..=max).prop_map(|cs| cs.into_iter().map(|u| char::from_u32(u).unwrap()).collect::<String>()),
        1 => vec(prop_oneof![Just('"'), Just('\\'), Just('\n'), Just('\u{7f}'), Just('é'), Just('\u{1}'), Just('a'), Just('\u{1F600}')], 0..=max)
            .prop_map(|cs| cs.into_iter().collect::<String>()),
        1 => "[ -~]{0,24}".prop_map(|s| s),
        // control soup: every C0 control, DEL and blank, next to each other (line
        // counting, tab expansion and byte-parallel scanning all care about pairs)
        1 => vec(prop_oneof![4 => (0u32..0x21), 1 => Just(0x7fu32), 1 => Just(0x85u32), 1 => Just(0x2028u32), 1 => Just('a' as u32)], 0..=max)
            .prop_map(|cs| cs.into_iter().filter_map(char::from_u32).collect::<String>()),
    ]
    .boxed()
}

// --------------------------------------------------------------------------
// numbers

/// Finite doubles (as bit patterns), biased towards the interesting regions.
pub fn g_float() -> BS<u64> {
    fn fin(x: f64) -> u64 {
        if x.is_finite() {
            x.to_bits()
        } else {
            1.5f64.to_bits()
        }
    }
    let short = (1u64..1_000_000_000_000_000u64, -22i32..=22, any::<bool>()).prop_map(|(m, e, neg)| {
        // m * 10^e with m < 10^15: text form is short; value = correctly rounded via std
        let s = format!("{}{}e{}", if neg { "-" } else { "" }, m, e);
        fin(s.parse::<f64>().unwrap())
    });
    let short_small = (1u64..100_000u64, -30i32..=30, any::<bool>()).prop_map(|(m, e, neg)| {
        let s = format!("{}{}e{}", if neg { "-" } else { "" }, m, e);
        fin(s.parse::<f64>().unwrap())
    });
    let one_digit = (1u64..10, -330i32..=308).prop_map(|(k, e)| {
        let s = format!("{}e{}", k, e);
        fin(s.parse::<f64>().unwrap())
    });
    let pow2 = (-1074i32..=1023, any::<bool>()).prop_map(|(k, neg)| {
        let x = 2f64.powi(k);
        fin(if neg { -x } else { x })
    });
    let big_int = (53u32..=63, any::<u64>()).prop_map(|(k, r)| {
        let x = (1u64 << k) | (r & ((1u64 << k) - 1));
        fin(x as f64)
    });
    let subnormal = (1u64..(1u64 << 52)).prop_map(|m| m);
    let specials = prop_oneof![
        Just(0.0f64.to_bits()),
        Just((-0.0f64).to_bits()),
        Just(f64::MAX.to_bits()),
        Just(f64::MIN.to_bits()),
        Just(f64::MIN_POSITIVE.to_bits()),
        Just(5e-324f64.to_bits()),
        Just(1e21f64.to_bits()),
        Just(1e22f64.to_bits()),
        Just(1e23f64.to_bits()),
        Just(1e-7f64.to_bits()),
        Just(1.7976931348623157e308f64.to_bits()),
        Just(2.2250738585072014e-308f64.to_bits()),
        Just(9007199254740993f64.to_bits()),
        Just(0.1f64.to_bits()),
        Just(123456789012345680000f64.to_bits()),
    ];
    let base = prop_oneof![
        4 => any::<u64>().prop_map(|b| fin(f64::from_bits(b))),
        4 => short,
        3 => short_small,
        2 => one_digit,
        1 => pow2,
        1 => big_int,
        1 => subnormal,
        2 => specials,
    ];
    // neighbours
    (base, -1i64..=1)
        .prop_map(|(b, d)| {
            let nb = (b as i64).wrapping_add(d) as u64;
            if f64::from_bits(nb).is_finite() {
                nb
            } else {
                b
            }
        })
        .boxed()
}

/// Integers in [-2^63, 2^64-1], boundary biased.
pub fn g_int() -> BS<i128> {
    let clamp = |x: i128| x.clamp(-(1i128 << 63), (1i128 << 64) - 1);
    let pow2 = (0u32..=64, -1i128..=1, any::<bool>()).prop_map(move |(k, d, neg)| {
        let x = (1i128 << k) + d;
        clamp(if neg { -x } else { x })
    });
    let pow10 = (0u32..=19, -1i128..=1, any::<bool>()).prop_map(move |(k, d, neg)| {
        let x = 10i128.pow(k) + d;
        clamp(if neg { -x } else { x })
    });
    let width = prop_oneof![
        Just(i8::MIN as i128),
        Just(i8::MAX as i128),
        Just(u8::MAX as i128),
        Just(i16::MIN as i128),
        Just(i16::MAX as i128),
        Just(u16::MAX as i128),
        Just(i32::MIN as i128),
        Just(i32::MAX as i128),
        Just(u32::MAX as i128),
        Just(i64::MIN as i128),
        Just(i64::MAX as i128),
        Just(u64::MAX as i128),
    ];
    let width_nb = (width, -1i128..=1).prop_map(move |(w, d)| clamp(w + d));
    prop_oneof![
        3 => pow2,
        2 => pow10,
        2 => width_nb,
        2 => any::<u64>().prop_map(|u| u as i128),
        2 => any::<i64>().prop_map(|i| i as i128),
        3 => -1000i128..1000,
    ]
    .boxed()
}

pub fn g_bytes(max: usize) -> BS<Vec<u8>> {
    prop_oneof![
        6 => vec(any::<u8>(), 0..=max),
        1 => vec(prop_oneof![Just(0u8), Just(255u8), Just(127u8), Just(128u8), Just(b'"'), Just(b'\\')], 0..=max),
    ]
    .boxed()
}

// --------------------------------------------------------------------------
// identifiers

#[derive(Clone, Copy, Debug, Default, PartialEq, Eq)]
pub struct IdentRules {
    /// leading '?' is not plain (Emacs character syntax on the parser side)
    pub no_leading_question: bool,
    /// leading / trailing ':' not plain (a colon keyword syntax on either side)
    pub no_colon_edges: bool,
    /// the name `nil` is not a plain symbol here
    pub no_nil: bool,
    /// the name `t` is not a plain symbol here
    pub no_t: bool,
    /// exclude the `<sign> . <dot subsequent>` production (see known finding)
    pub no_sign_dot: bool,
}

const EXCLUDED_NUMERIC_NAMES: [&str; 6] = ["+inf.0", "-inf.0", "+nan.0", "-nan.0", "+i", "-i"];

pub fn subsequent_char() -> BS<char> {
    prop_oneof![
        8 => pick(ASCII_LETTERS),
        3 => pick(SPECIAL_INITIAL),
        3 => pick(DIGITS),
        3 => pick(SPECIAL_SUBSEQUENT),
        2 => unicode_alpha(),
        1 => unicode_numeric(),
    ]
    .boxed()
}

fn subsequents(max: usize) -> BS<String> {
    vec(subsequent_char(), 0..=max)
        .prop_map(|cs| cs.into_iter().collect::<String>())
        .boxed()
}

/// Apply the dialect rules to a syntactically plain R7RS identifier so that it
/// stays plain under `rules` (construction, not rejection).
pub fn fix_ident(mut s: String, rules: IdentRules) -> String {
    if rules.no_colon_edges {
        while s.starts_with(':') {
            s.remove(0);
            s.insert(0, 'c');
        }
        while s.ends_with(':') {
            s.pop();
            s.push('c');
        }
    }
    if rules.no_leading_question && s.starts_with('?') {
        s.remove(0);
        s.insert(0, 'q');
    }
    if rules.no_sign_dot && (s.starts_with("+.") || s.starts_with("-.")) {
        s.insert(1, 'd');
    }
    let lower = s.to_ascii_lowercase();
    if EXCLUDED_NUMERIC_NAMES.contains(&lower.as_str()) {
        s.push('x');
    }
    if (rules.no_nil && s == "nil") || (rules.no_t && s == "t") {
        s.push('x');
    }
    if s.is_empty() || s == "." {
        s = "dot".to_string();
    }
    s
}

/// Every plain identifier of up to `max_len` characters over a small alphabet
/// that has one representative of each character class the identifier
/// productions distinguish (letter, non-ASCII letter, sign, dot, `@`, digit,
/// colon, another special initial): the short peculiar identifiers (`+.a`,
/// `λ.`, `-..`, `..@`) are where readers special-case, and a random generator
/// meets any particular one of them rarely.
pub fn small_identifiers(max_len: usize, rules: IdentRules) -> Vec<String> {
    const ALPHABET: [char; 9] = ['a', 'λ', '+', '-', '.', '@', '1', ':', '!'];
    let mut out = Vec::new();
    let mut cur: Vec<String> = vec![String::new()];
    for _ in 0..max_len {
        let mut next = Vec::new();
        for s in &cur {
            for c in ALPHABET {
                let mut t = s.clone();
                t.push(c);
                next.push(t);
            }
        }
        for t in &next {
            if crate::reader::is_identifier(t) && fix_ident(t.clone(), rules) == *t {
                out.push(t.clone());
            }
        }
        cur = next;
    }
    out
}

/// Plain identifiers by the R7RS productions (G_ident).
pub fn g_ident(rules: IdentRules) -> BS<String> {
    let initial = prop_oneof![6 => pick(ASCII_LETTERS), 2 => pick(SPECIAL_INITIAL)];
    let ordinary = (initial, subsequents(12)).prop_map(|(i, rest)| format!("{}{}", i, rest));
    let unicode = (unicode_alpha(), subsequents(8)).prop_map(|(i, rest)| format!("{}{}", i, rest));
    let sign = || prop_oneof![Just('+'), Just('-')];
    // <sign subsequent> -> <initial> | <explicit sign> | @
    let sign_subsequent = || {
        prop_oneof![
            4 => pick(ASCII_LETTERS),
            2 => pick(SPECIAL_INITIAL),
            2 => pick("+-@"),
            1 => unicode_alpha(),
        ]
    };
    let dot_subsequent = || prop_oneof![4 => sign_subsequent(), 1 => Just('.')];
    let peculiar = prop_oneof![
        3 => sign().prop_map(|c| c.to_string()),
        1 => Just("...".to_string()),
        4 => (sign(), sign_subsequent(), subsequents(6)).prop_map(|(s, t, r)| format!("{}{}{}", s, t, r)),
        2 => (sign(), dot_subsequent(), subsequents(6)).prop_map(|(s, d, r)| format!("{}.{}{}", s, d, r)),
        3 => (dot_subsequent(), subsequents(6)).prop_map(|(d, r)| format!(".{}{}", d, r)),
    ];
    let fixed = prop_oneof![
        Just("nil"), Just("t"), Just("a"), Just("x"), Just("quote"), Just("lambda"), Just("e"), Just("nil?"),
        Just("a1"), Just("->x"), Just("<=?"), Just("!"), Just("*"), Just("/"), Just("%"), Just("_"),
        Just(":a"), Just("a:"), Just("?a"), Just("a.b"), Just("x+"), Just("a-"), Just("T"), Just("NIL"),
    ]
    .prop_map(|s| s.to_string());
    prop_oneof![
        6 => ordinary,
        2 => unicode,
        3 => peculiar,
        2 => fixed,
    ]
    .prop_map(move |s| fix_ident(s, rules))
    .boxed()
}

/// Classify an identifier (for evidence histograms).
pub fn ident_class(s: &str) -> &'static str {
    let first = s.chars().next().unwrap_or('a');
    if first == '+' || first == '-' || first == '.' {
        if s.len() > 1 && (s[1..].starts_with('.')) && first != '.' {
            "ident:peculiar-sign-dot"
        } else {
            "ident:peculiar"
        }
    } else if !first.is_ascii() {
        "ident:unicode-initial"
    } else if SPECIAL_INITIAL.contains(first) {
        "ident:special-initial"
    } else if s.chars().any(|c| c.is_ascii_digit()) {
        "ident:with-digits"
    } else {
        "ident:ascii"
    }
}

// --------------------------------------------------------------------------
// values

#[derive(Clone, Copy, Debug)]
pub struct ValueCfg {
    pub ident: IdentRules,
    pub bytes: bool,
    pub keywords: bool,
    pub depth: u32,
    pub nodes: u32,
    pub branch: u32,
    pub str_max: usize,
}

impl ValueCfg {
    pub fn default_dialect(depth: u32, nodes: u32) -> Self {
        ValueCfg {
            ident: IdentRules::default(),
            bytes: true,
            keywords: true,
            depth,
            nodes,
            branch: 6,
            str_max: 24,
        }
    }
}

pub fn g_atom(cfg: ValueCfg) -> BS<MV> {
    let mut alts: Vec<(u32, BS<MV>)> = vec![
        (1, Just(MV::Nil).boxed()),
        (1, Just(MV::Null).boxed()),
        (1, any::<bool>().prop_map(MV::Bool).boxed()),
        (4, g_int().prop_map(MV::int).boxed()),
        (4, g_float().prop_map(MV::F).boxed()),
        (3, g_char().prop_map(MV::Char).boxed()),
        (4, g_string(cfg.str_max).prop_map(MV::Str).boxed()),
        (5, g_ident(cfg.ident).prop_map(MV::Sym).boxed()),
    ];
    if cfg.keywords {
        alts.push((2, g_ident(cfg.ident).prop_map(MV::Kw).boxed()));
    }
    if cfg.bytes {
        alts.push((2, g_bytes(12).prop_map(MV::Bytes).boxed()));
    }
    Union::new_weighted(alts).boxed()
}

/// A non-null atom or a vector: the dotted tails of G_value.
fn non_null(m: MV) -> MV {
    match m {
        MV::Null => MV::Nil,
        MV::List(..) => MV::U(7),
        other => other,
    }
}

pub fn g_value(cfg: ValueCfg) -> BS<MV> {
    let leaf = g_atom(cfg);
    let atom_for_tail = g_atom(cfg);
    leaf.prop_recursive(cfg.depth, cfg.nodes, cfg.branch, move |inner| {
        let tail = prop_oneof![
            3 => atom_for_tail.clone().prop_map(non_null),
            1 => vec(inner.clone(), 0..3).prop_map(MV::Vec),
        ];
        prop_oneof![
            5 => vec(inner.clone(), 0..=(cfg.branch as usize)).prop_map(MV::list),
            2 => (vec(inner.clone(), 1..=(cfg.branch as usize)), tail)
                .prop_map(|(xs, t)| MV::List(xs, Box::new(t))),
            3 => vec(inner.clone(), 0..=(cfg.branch as usize)).prop_map(MV::Vec),
            // alist shaped
            1 => vec((inner.clone(), inner), 1..4).prop_map(|kvs| {
                MV::list(
                    kvs.into_iter()
                        .map(|(k, v)| match v {
                            MV::Null => MV::List(vec![k], Box::new(MV::Null)),
                            MV::List(mut xs, t) => {
                                xs.insert(0, k);
                                MV::List(xs, t)
                            }
                            other => MV::List(vec![k], Box::new(other)),
                        })
                        .collect(),
                )
            }),
        ]
    })
    .boxed()
}

/// Narrow and deep values (depth up to `depth`), one child per level.
pub fn g_deep(cfg: ValueCfg, depth: usize) -> BS<MV> {
    (g_atom(cfg), vec(0u8..4, 1..=depth))
        .prop_map(|(leaf, shape)| {
            let mut v = leaf;
            for s in shape {
                v = match s {
                    0 => MV::list(vec![v]),
                    1 => MV::Vec(vec![v]),
                    2 => MV::List(vec![MV::U(1)], Box::new(non_null(v.clone()))).normalize(),
                    _ => MV::list(vec![MV::sym("a"), v]),
                };
            }
            v
        })
        .boxed()
}

/// Wide values: a list or vector of 100..=`max` elements that repeat a few
/// small units (dotted pairs, improper lists, vectors, byte vectors, nested
/// lists, strings, plain atoms). A reader or printer that keeps a running
/// budget or counter and fails to give it back after some construct is fine on
/// small inputs and breaks on the hundredth repetition.
pub fn g_wide(cfg: ValueCfg, max: usize) -> BS<MV> {
    let small = ValueCfg { depth: 2, nodes: 6, branch: 3, str_max: 6, ..cfg };
    let unit = prop_oneof![
        3 => (g_atom(small), g_atom(small)).prop_map(|(a, b)| MV::List(vec![a], Box::new(non_null(b))).normalize()),
        2 => (vec(g_atom(small), 1..4), g_atom(small)).prop_map(|(xs, t)| MV::List(xs, Box::new(non_null(t))).normalize()),
        2 => vec(g_atom(small), 0..3).prop_map(MV::Vec),
        2 => vec(g_atom(small), 0..3).prop_map(MV::list),
        2 => g_value(small),
        2 => g_atom(small),
        1 => g_deep(small, 4),
    ];
    (vec(unit, 1..4), 100usize..=max.max(100), 0u8..8, g_atom(small))
        .prop_map(|(units, k, form, tail)| {
            let items: Vec<MV> = (0..k).map(|i| units[i % units.len()].clone()).collect();
            match form {
                0 | 1 => MV::Vec(items),
                2 => MV::List(items, Box::new(non_null(tail))).normalize(),
                // an association list under a head symbol
                3 => MV::list(std::iter::once(MV::sym("alist")).chain(items).collect()),
                _ => MV::list(items),
            }
        })
        .boxed()
}

/// Atoms whose size sits on or next to the buffer sizes code tends to
/// special-case (256, 1 KiB, 4 KiB, 8 KiB, 64 KiB): strings, symbols and
/// keywords of that many bytes with a multi-byte character straddling the
/// threshold, strings that need an escape (they go through the scratch
/// buffer), and byte vectors of that many octets.
pub fn g_big_atom(max: usize) -> BS<MV> {
    let sizes: Vec<usize> = [256usize, 1024, 4096, 8192, 65536, 131072].into_iter().filter(|s| *s <= max).collect();
    let wide = prop_oneof![Just('é'), Just('λ'), Just('中'), Just('\u{1F600}')];
    (proptest::sample::select(sizes), -2i64..=2, wide, 0u8..6, 0usize..3000)
        .prop_map(|(size, delta, w, form, extra)| {
            // `lead` ASCII bytes, then the wide character so that it straddles
            // byte offset `size` (delta shifts it), then a tail
            let lead = (size as i64 - 1 + delta).max(1) as usize;
            // names have to stay identifiers: a letter instead of the emoji there
            let body = |first: char| {
                let w = if first != 'a' && !w.is_alphabetic() { 'λ' } else { w };
                let mut t = String::with_capacity(lead + extra + 8);
                t.push(first);
                for _ in 1..lead {
                    t.push('a');
                }
                t.push(w);
                for _ in 0..extra {
                    t.push('b');
                }
                t
            };
            match form {
                0 | 1 => MV::Str(body('a')),
                2 => MV::Str(format!("\"{}", body('a'))),
                3 => MV::Sym(body('s')),
                4 => MV::Kw(body('k')),
                _ => MV::Bytes((0..lead + extra % 7).map(|i| (i % 251) as u8).collect()),
            }
        })
        .boxed()
}

// --------------------------------------------------------------------------
// trivia

/// Whitespace and comments (G_trivia); `min1` forces at least one byte.
pub fn g_trivia(min1: bool) -> BS<String> {
    let comment_body = vec(
        prop_oneof![
            6 => (0x20u32..=0x7E).prop_map(|u| char::from_u32(u).unwrap()),
            1 => Just('\t'),
            1 => Just('\r'),
            1 => Just('\u{c}'),
            1 => pick("()[]\"#;'|\\"),
            1 => unicode_alpha(),
            // every control character but the line feed, DEL, and the characters
            // other tools take for line ends or for nothing at all
            1 => prop_oneof![(0u32..0x20).prop_filter_map("lf", |u| if u == 0x0a { None } else { char::from_u32(u) }), Just('\u{7f}'), Just('\u{0}'), Just('\u{85}'), Just('\u{2028}'), Just('\u{feff}'), Just('\u{1a}')],
        ],
        0..12,
    )
    .prop_map(|cs| cs.into_iter().collect::<String>());
    let piece = prop_oneof![
        5 => Just(" ".to_string()),
        2 => Just("\t".to_string()),
        2 => Just("\r".to_string()),
        3 => Just("\n".to_string()),
        2 => Just("\u{c}".to_string()),
        2 => Just("\r\n".to_string()),
        3 => comment_body.prop_map(|b| format!(";{}\n", b)),
    ];
    let lo = if min1 { 1 } else { 0 };
    vec(piece, lo..5)
        .prop_map(|ps| ps.concat())
        .boxed()
}

/// Arbitrary bytes.
pub fn g_anybytes(max: usize) -> BS<Vec<u8>> {
    prop_oneof![
        3 => vec(any::<u8>(), 0..=max),
        2 => vec(prop_oneof![
                4 => pick("()[]#\\\"';`,@.:?|+-01axeu8tfn \n\t"),
                1 => (0x80u8..=0xFF).prop_map(|b| b as char).prop_map(|c| c),
            ].prop_map(|c| c as u32 as u8), 0..=max),
    ]
    .boxed()
}

// --------------------------------------------------------------------------
// byte-driven decoding (coverage-guided mode)

/// Cursor over a libFuzzer input; reads zeros once exhausted.
pub struct Cur<'a> {
    pub d: &'a [u8],
    pub i: usize,
}

impl<'a> Cur<'a> {
    pub fn new(d: &'a [u8]) -> Cur<'a> {
        Cur { d, i: 0 }
    }
    pub fn u8(&mut self) -> u8 {
        let b = self.d.get(self.i).copied().unwrap_or(0);
        self.i += 1;
        b
    }
    pub fn u64(&mut self) -> u64 {
        let mut x = 0u64;
        for k in 0..8 {
            x |= (self.u8() as u64) << (8 * k);
        }
        x
    }
    pub fn exhausted(&self) -> bool {
        self.i >= self.d.len()
    }
    fn ch(&mut self) -> char {
        let b = self.u8();
        let u = match b {
            0..=0x7F => b as u32,
            0x80..=0xBF => 0x80 + (((b & 0x3F) as u32) << 5) + (self.u8() as u32 & 0x1F),
            0xC0..=0xEF => (((b & 0x2F) as u32) << 8) + self.u8() as u32 + 0x800,
            _ => 0x10000 + (((b & 0x0F) as u32) << 16) + ((self.u8() as u32) << 8) + self.u8() as u32,
        };
        char::from_u32(u).unwrap_or('\u{FFFD}')
    }
    fn text(&mut self, max: usize) -> String {
        let n = self.u8() as usize % (max + 1);
        (0..n).map(|_| self.ch()).collect()
    }
    fn ident(&mut self, rules: IdentRules) -> String {
        let alphabet: Vec<char> = ASCII_LETTERS.chars().chain(SPECIAL_INITIAL.chars()).chain(DIGITS.chars()).chain(SPECIAL_SUBSEQUENT.chars()).chain("λé中".chars()).collect();
        let n = 1 + self.u8() as usize % 10;
        let raw: String = (0..n).map(|_| alphabet[self.u8() as usize % alphabet.len()]).collect();
        let fixed = fix_ident(raw, rules);
        if crate::reader::is_identifier(&fixed) && fix_ident(fixed.clone(), rules) == fixed {
            fixed
        } else {
            "a".to_string()
        }
    }
}

/// Decode a model value from bytes: one tag byte per node, payload bytes after
/// it, so that a byte mutation changes one node and leaves the rest in place.
/// Every value of the decoder lies in the domain described by `cfg` (names are
/// plain identifiers under `cfg.ident`, floats are finite, characters are
/// scalar values).
pub fn decode_mv(c: &mut Cur, cfg: ValueCfg, depth: u32) -> MV {
    let t = c.u8();
    let hi = t >> 4;
    let kind = if depth == 0 || c.exhausted() { t % 12 } else { t % 16 };
    match kind {
        0 => MV::Nil,
        1 => MV::Null,
        2 => MV::Bool(hi & 1 == 1),
        3 => MV::int(c.u8() as i8 as i128),
        4 => {
            let x = c.u64();
            match hi % 4 {
                0 => MV::U(x),
                1 => MV::int(x as i64 as i128),
                2 => MV::int([i64::MIN as i128, i64::MAX as i128, u64::MAX as i128, (1i128 << 53) + 1, -(1i128 << 63) + 1][(x % 5) as usize]),
                _ => MV::int((x >> (x % 64)) as i128),
            }
        }
        5 => {
            let x = f64::from_bits(c.u64());
            MV::f(if x.is_finite() { x } else { f64::from_bits(x.to_bits() & !(1u64 << 62)) })
        }
        6 => {
            // short decimal: mantissa * 10^exp
            let m = c.u8() as i8 as f64 + (c.u8() as f64) / 256.0;
            let e = (c.u8() as i8 as i32) * if hi & 1 == 1 { 3 } else { 1 };
            let x = format!("{}e{}", m, e).parse::<f64>().unwrap_or(0.0);
            MV::f(if x.is_finite() { x } else { 1.5 })
        }
        7 => MV::Char(c.ch() as u32),
        8 => MV::Str(c.text(cfg.str_max.max(4))),
        9 => MV::Sym(c.ident(cfg.ident)),
        10 => {
            if cfg.keywords {
                let mut r = cfg.ident;
                r.no_nil = false;
                r.no_t = false;
                MV::Kw(c.ident(r))
            } else {
                MV::Sym(c.ident(cfg.ident))
            }
        }
        11 => {
            if cfg.bytes {
                let n = c.u8() as usize % 12;
                MV::Bytes((0..n).map(|_| c.u8()).collect())
            } else {
                MV::Null
            }
        }
        12 | 13 => {
            let n = hi as usize % (cfg.branch as usize + 1);
            let xs: Vec<MV> = (0..n).map(|_| decode_mv(c, cfg, depth - 1)).collect();
            if kind == 13 && !xs.is_empty() {
                let tail = decode_mv(c, cfg, 0);
                MV::List(xs, Box::new(non_null(tail))).normalize()
            } else {
                MV::list(xs)
            }
        }
        14 => {
            let n = hi as usize % (cfg.branch as usize + 1);
            MV::Vec((0..n).map(|_| decode_mv(c, cfg, depth - 1)).collect())
        }
        _ => {
            let head = ["quote", "quasiquote", "unquote", "unquote-splicing"][hi as usize % 4];
            MV::list(vec![MV::sym(head), decode_mv(c, cfg, depth - 1)])
        }
    }
}
