//! Shared oracles: float acceptance rule, structural equality, dialect folding.

use crate::mv::MV;
use crate::opts::*;

// --------------------------------------------------------------------------
// float acceptance (DESIGN.md appendix A.4)

/// Decomposition of a decimal literal `[sign] digits [. digits] [e [sign] digits]`.
#[derive(Debug, Clone)]
pub struct DecLit {
    pub neg: bool,
    /// all digits with the point removed, leading zeros stripped ("" = 0)
    pub digits: String,
    /// exponent as written (0 if absent); saturating
    pub written_exp: i64,
    /// written exponent minus number of fraction digits
    pub eff_exp: i64,
    pub has_frac: bool,
    pub has_exp: bool,
}

pub fn parse_dec_lit(text: &str) -> Option<DecLit> {
    let b = text.as_bytes();
    let mut i = 0;
    let mut neg = false;
    if i < b.len() && (b[i] == b'-' || b[i] == b'+') {
        neg = b[i] == b'-';
        i += 1;
    }
    let start = i;
    let mut digits = String::new();
    while i < b.len() && b[i].is_ascii_digit() {
        digits.push(b[i] as char);
        i += 1;
    }
    if i == start {
        return None;
    }
    let mut frac = 0i64;
    let mut has_frac = false;
    if i < b.len() && b[i] == b'.' {
        has_frac = true;
        i += 1;
        let fs = i;
        while i < b.len() && b[i].is_ascii_digit() {
            digits.push(b[i] as char);
            frac += 1;
            i += 1;
        }
        if i == fs {
            return None;
        }
    }
    let mut written_exp = 0i64;
    let mut has_exp = false;
    if i < b.len() && (b[i] == b'e' || b[i] == b'E') {
        has_exp = true;
        i += 1;
        let mut eneg = false;
        if i < b.len() && (b[i] == b'-' || b[i] == b'+') {
            eneg = b[i] == b'-';
            i += 1;
        }
        let es = i;
        while i < b.len() && b[i].is_ascii_digit() {
            written_exp = written_exp.saturating_mul(10).saturating_add((b[i] - b'0') as i64);
            if written_exp > 1_000_000_000_000 {
                written_exp = 1_000_000_000_000;
            }
            i += 1;
        }
        if i == es {
            return None;
        }
        if eneg {
            written_exp = -written_exp;
        }
    }
    if i != b.len() {
        return None;
    }
    let digits = digits.trim_start_matches('0').to_string();
    Some(DecLit {
        neg,
        digits,
        written_exp,
        eff_exp: written_exp - frac,
        has_frac,
        has_exp,
    })
}

impl DecLit {
    pub fn sig_digits(&self) -> usize {
        self.digits.trim_end_matches('0').len()
    }
    pub fn fits_2_53(&self) -> bool {
        self.digits.len() <= 16
            && self.digits.parse::<u64>().map_or(self.digits.is_empty(), |d| d <= (1u64 << 53))
    }
    /// scientific exponent of the value (position of the leading digit)
    pub fn sci_exp(&self) -> i64 {
        self.eff_exp + self.digits.len() as i64 - 1
    }
    /// Row 1 of A.4, under every reading of "|exponent| <= 22" (written,
    /// effective and scientific), so that nothing is demanded that one reading
    /// of the statement would not demand.
    pub fn must_be_exact_any_build(&self) -> bool {
        self.digits.is_empty()
            || (self.fits_2_53()
                && self.eff_exp.abs() <= 22
                && self.written_exp.abs() <= 22
                && self.sci_exp().abs() <= 22)
    }
}

impl DecLit {
    /// The same number with the trailing zeros of its digit string moved into
    /// the exponent: `8000000000000020.0` is 800000000000002 x 10^1. The
    /// quantifier of C01 speaks of the shortest decimal form of a double, and
    /// that form has no trailing zeros, however the printer pads it.
    pub fn canonical(&self) -> DecLit {
        let trimmed = self.digits.trim_end_matches('0');
        let moved = (self.digits.len() - trimmed.len()) as i64;
        DecLit {
            neg: self.neg,
            digits: trimmed.to_string(),
            written_exp: self.written_exp,
            eff_exp: self.eff_exp + moved,
            has_frac: self.has_frac,
            has_exp: self.has_exp,
        }
    }
}

/// Is `got` acceptable as the reading of the shortest decimal form of `orig`
/// (C01 / C13 quantifier)? `printed` is that decimal form.
pub fn float_roundtrip_ok(orig: f64, got: f64, printed: &str) -> bool {
    if orig.to_bits() == got.to_bits() {
        return true;
    }
    if cfg!(not(feature = "ff")) {
        return false; // bit-exact in the build without fast-float-parsing
    }
    match parse_dec_lit(printed) {
        Some(l) => {
            if l.canonical().must_be_exact_any_build() && l.sig_digits() <= 15 {
                return false;
            }
        }
        None => return false,
    }
    within_c05(orig, got)
}

/// |got - x| <= max(2^-50 |x|, 2^-1074) where x is within half an ulp of
/// `orig` (the shortest decimal form of `orig`): slack factor 1.25 covers the
/// half ulp (2^-53) and rounding of this very computation.
pub fn within_c05(orig: f64, got: f64) -> bool {
    if !got.is_finite() {
        return false;
    }
    if orig == 0.0 {
        return got == 0.0 && orig.is_sign_negative() == got.is_sign_negative()
            || got.abs() <= 5e-324;
    }
    let diff = (got - orig).abs();
    let tol = orig.abs() * (2f64.powi(-50) * 1.25);
    diff <= tol.max(5e-324)
}

// --------------------------------------------------------------------------
// structural comparison

/// Compare `expected` with `got`; floats by `fl(expected, got)`. Returns the
/// kind of the smallest differing sub-value and a description.
pub fn mv_diff(
    expected: &MV,
    got: &MV,
    fl: &dyn Fn(f64, f64) -> bool,
) -> Option<(String, String)> {
    match (expected, got) {
        (MV::F(a), MV::F(b)) => {
            let (x, y) = (f64::from_bits(*a), f64::from_bits(*b));
            if fl(x, y) {
                None
            } else {
                Some((
                    "float".into(),
                    format!("float {:?} (bits {:#x}) became {:?} (bits {:#x})", x, a, y, b),
                ))
            }
        }
        (MV::List(xs, xt), MV::List(ys, yt)) => {
            if xs.len() != ys.len() {
                return Some((
                    expected.kind().into(),
                    format!("list length {} became {}", xs.len(), ys.len()),
                ));
            }
            for (x, y) in xs.iter().zip(ys) {
                if let Some(d) = mv_diff(x, y, fl) {
                    return Some(d);
                }
            }
            mv_diff(xt, yt, fl)
        }
        (MV::Vec(xs), MV::Vec(ys)) => {
            if xs.len() != ys.len() {
                return Some((
                    "vector".into(),
                    format!("vector length {} became {}", xs.len(), ys.len()),
                ));
            }
            for (x, y) in xs.iter().zip(ys) {
                if let Some(d) = mv_diff(x, y, fl) {
                    return Some(d);
                }
            }
            None
        }
        (a, b) => {
            if a == b {
                None
            } else {
                Some((
                    format!("{}->{}", a.kind(), b.kind()),
                    format!("{} became {}", crate::mv::short(a), crate::mv::short(b)),
                ))
            }
        }
    }
}

pub fn exact(a: f64, b: f64) -> bool {
    a.to_bits() == b.to_bits()
}

// --------------------------------------------------------------------------
// dialect folding (DESIGN.md appendix A.1)

/// What the token `nil` reads as under `q`.
fn read_nil(q: &QOpt) -> MV {
    match q.nil {
        QNil::Default => MV::sym("nil"),
        QNil::EmptyList => MV::Null,
        QNil::Special => MV::Nil,
    }
}

fn read_t(q: &QOpt) -> MV {
    if q.t_true {
        MV::Bool(true)
    } else {
        MV::sym("t")
    }
}

/// `M_fold(P, Q, v)`: the value documented to come back when `v` is printed
/// with `p` and read with `q`.
pub fn fold(p: &POpt, q: &QOpt, v: &MV) -> MV {
    let f = |m: &MV| -> Option<MV> {
        match m {
            MV::Nil => Some(match p.nil {
                PNil::Token => MV::Nil,
                PNil::Symbol => read_nil(q),
                PNil::EmptyList => MV::Null,
                PNil::False => match p.boolean {
                    PBool::Token => MV::Bool(false),
                    PBool::Symbol => read_nil(q),
                },
            }),
            MV::Bool(b) => Some(match p.boolean {
                PBool::Token => MV::Bool(*b),
                PBool::Symbol => {
                    if *b {
                        read_t(q)
                    } else {
                        read_nil(q)
                    }
                }
            }),
            MV::Bytes(b) if b.is_empty() && p.bytes == PBytes::Elisp => Some(MV::Str(String::new())),
            _ => None,
        }
    };
    v.map(&f).normalize()
}

/// Folding as seen by a reader that treats `nil` and `t` as plain symbols
/// (used with the independent reader).
pub fn fold_ref(p: &POpt, v: &MV) -> MV {
    let q = QOpt {
        nil: QNil::Default,
        t_true: false,
        ..QOpt::default_set()
    };
    fold(p, &q, v)
}

/// Is `fold(p, q, .)` the identity on `v`?
pub fn fold_is_identity(p: &POpt, q: &QOpt, v: &MV) -> bool {
    fold(p, q, v) == v.normalize()
}

/// The identifier rules that make a name plain for the pair (P, Q)
/// (DESIGN.md appendix A.1).
pub fn ident_rules(p: &POpt, q: &QOpt) -> crate::gen::IdentRules {
    crate::gen::IdentRules {
        no_leading_question: q.chr == Syn::Elisp,
        no_colon_edges: p.kw != Kw::Octothorpe || q.any_colon_kw(),
        no_nil: q.nil != QNil::Default || p.prints_nil_symbol(),
        no_t: q.t_true || p.boolean == PBool::Symbol,
        no_sign_dot: false,
    }
}

pub fn self_test() {
    let l = parse_dec_lit("1.5e-7").unwrap();
    assert_eq!(l.digits, "15");
    assert_eq!(l.eff_exp, -8);
    assert_eq!(l.sci_exp(), -7);
    assert!(l.must_be_exact_any_build());
    let l = parse_dec_lit("1.2345e-20").unwrap();
    assert!(!l.must_be_exact_any_build());
    let l = parse_dec_lit("-100.0").unwrap();
    assert_eq!(l.digits, "1000");
    assert!(l.neg && l.eff_exp == -1 && l.sig_digits() == 1);
    assert!(parse_dec_lit("1e").is_none());
    assert!(parse_dec_lit("1.").is_none());
    assert!(parse_dec_lit("0.0").unwrap().digits.is_empty());
    assert!(within_c05(1.0, 1.0 + f64::EPSILON));
    assert!(!within_c05(1.0, 1.0 + 16.0 * f64::EPSILON));
    assert!(within_c05(5e-324, 1e-323));
    assert!(!within_c05(1e300, f64::INFINITY));
}
