//! G_layout: renders a model value as text with alternative spellings and
//! trivia at every token boundary, together with a position map of every
//! datum and sub-datum (DESIGN.md section 2 and appendix D).
//!
//! All choices come from a stream of u32 drawn by proptest; zeros select the
//! canonical spelling, so shrinking moves towards printer-like text.

use crate::gen::IdentRules;
use crate::mv::MV;
use crate::opts::*;

pub struct Ch<'a> {
    v: &'a [u32],
    i: usize,
}

impl<'a> Ch<'a> {
    pub fn new(v: &'a [u32]) -> Self {
        Ch { v, i: 0 }
    }
    /// Monotone map of the next choice onto 0..n (0 when exhausted).
    pub fn pick(&mut self, n: u32) -> u32 {
        let x = self.v.get(self.i).copied().unwrap_or(0);
        self.i += 1;
        ((x as u64 * n as u64) >> 32) as u32
    }
    pub fn flip(&mut self, one_in: u32) -> bool {
        self.pick(one_in) == one_in - 1 && one_in > 0
    }
}

#[derive(Clone, Debug, PartialEq)]
pub enum NodeKind {
    Atom,
    List,
    Vector,
    /// children = [head (the shorthand characters), quoted datum]
    Quote,
    /// the head pseudo-node of a quotation
    QuoteHead,
}

#[derive(Clone, Debug)]
pub struct Node {
    pub start: usize,
    pub end: usize,
    pub mv: MV,
    pub kind: NodeKind,
    /// for List: the elements reachable through list_iter, in order
    pub children: Vec<Node>,
    /// for List: the dotted tail (non-list), if any
    pub tail: Option<Box<Node>>,
    /// token class of an atom (for truncation signatures)
    pub token: &'static str,
}

pub struct Layout {
    pub text: String,
    pub root: Node,
}

#[derive(Clone, Copy, Debug)]
pub struct LayoutCfg {
    /// 0 = canonical single spaces only, 1 = whitespace, 2 = whitespace + comments
    pub trivia: u8,
    /// allow alternative spellings
    pub alt: bool,
    /// allow form feed in trivia (see known finding about FF after symbols)
    pub ff: bool,
}

impl LayoutCfg {
    pub fn full() -> Self {
        LayoutCfg { trivia: 2, alt: true, ff: true }
    }
    pub fn canonical() -> Self {
        LayoutCfg { trivia: 0, alt: false, ff: false }
    }
}

const TRIVIA_WS: [&str; 7] = [" ", "\n", "\t", "\r\n", "  ", "\r", "\n\n"];
const TRIVIA_COMMENT: [&str; 10] = [";c\n", ";\n", "; λ comment (] \" #\n", ";;; x\r\n", ";a\n ;b\n", ";\t\n", ";x\u{0}y\n", ";\u{1a}\u{7f}\r\u{1}z\n", ";\u{feff}\u{2028}\u{85}|#\n", "; #| ( \\\n"];

pub struct Builder<'a, 'b> {
    pub out: String,
    pub q: QOpt,
    pub cfg: LayoutCfg,
    pub ch: &'b mut Ch<'a>,
    /// trivia pieces used (for classification)
    pub used_comment: bool,
    pub used_ws_kinds: u8,
    pub alt_spellings: u32,
    /// the text emitted last is a closing delimiter (of a list, vector,
    /// string or byte vector), after which a separator is optional
    closer: bool,
}

impl<'a, 'b> Builder<'a, 'b> {
    pub fn new(q: QOpt, cfg: LayoutCfg, ch: &'b mut Ch<'a>) -> Self {
        Builder {
            out: String::new(),
            q,
            cfg,
            ch,
            used_comment: false,
            used_ws_kinds: 0,
            alt_spellings: 0,
            closer: false,
        }
    }

    /// Emit trivia; `required` forces at least one separating piece.
    pub fn trivia(&mut self, required: bool) {
        if self.cfg.trivia == 0 {
            if required {
                self.out.push(' ');
            }
            return;
        }
        let n = self.ch.pick(4); // 0..3 extra pieces
        let count = if required { n.max(1) } else { n.saturating_sub(1) };
        for _ in 0..count {
            let allow_comment = self.cfg.trivia >= 2;
            let k = self.ch.pick(if allow_comment { 10 } else { 8 });
            match k {
                0..=6 => {
                    let s = TRIVIA_WS[k as usize];
                    self.used_ws_kinds |= 1 << k;
                    self.out.push_str(s);
                }
                7 => {
                    if self.cfg.ff {
                        self.used_ws_kinds |= 1 << 7;
                        self.out.push('\x0c');
                    } else {
                        self.out.push(' ');
                    }
                }
                _ => {
                    let c = TRIVIA_COMMENT[self.ch.pick(TRIVIA_COMMENT.len() as u32) as usize];
                    self.used_comment = true;
                    self.out.push_str(c);
                }
            }
        }
    }

    fn alt(&mut self, n: u32) -> u32 {
        if !self.cfg.alt {
            return 0;
        }
        let k = self.ch.pick(n);
        if k != 0 {
            self.alt_spellings += 1;
        }
        k
    }

    fn int_text(&mut self, neg: bool, mag: u64) -> String {
        let sign = if neg { "-" } else { "" };
        match self.alt(9) {
            0 => format!("{}{}", sign, mag),
            1 if !neg => format!("+{}", mag),
            2 => format!("{}00{}", sign, mag),
            3 => format!("#d{}{}", sign, mag),
            4 => format!("#x{}{:x}", sign, mag),
            5 => format!("#x{}{:X}", sign, mag),
            6 => format!("#o{}{:o}", sign, mag),
            7 => format!("#b{}{:b}", sign, mag),
            8 if !neg => format!("#x+{:x}", mag),
            _ => format!("{}{}", sign, mag),
        }
    }

    fn float_text(&mut self, x: f64) -> String {
        let base = format!("{:?}", x);
        let base = if base.contains('.') || base.contains('e') { base } else { format!("{}.0", base) };
        match self.alt(6) {
            0 => base,
            1 => format!("{:e}", x),
            2 => format!("{:E}", x),
            3 if x.is_sign_positive() => format!("+{}", base),
            4 => {
                // exponent with explicit plus sign / leading zero
                let e = format!("{:e}", x);
                match e.split_once('e') {
                    Some((m, ex)) if !ex.starts_with('-') => format!("{}e+0{}", m, ex),
                    Some((m, ex)) => format!("{}e-0{}", m, &ex[1..]),
                    None => base,
                }
            }
            5 if base.contains('.') && !base.contains('e') => format!("{}0", base),
            _ => base,
        }
    }

    fn r6rs_char_text(&mut self, c: char) -> String {
        let n = c as u32;
        let name = match n {
            0 => Some("nul"),
            7 => Some("alarm"),
            8 => Some("backspace"),
            9 => Some("tab"),
            10 => Some(if self.ch.pick(2) == 0 { "newline" } else { "linefeed" }),
            11 => Some("vtab"),
            12 => Some("page"),
            13 => Some("return"),
            27 => Some("esc"),
            32 => Some("space"),
            127 => Some("delete"),
            _ => None,
        };
        let canonical = if (0x21..0x7f).contains(&n) {
            format!("#\\{}", c)
        } else {
            format!("#\\x{:x}", n)
        };
        match self.alt(5) {
            0 => canonical,
            1 => format!("#\\x{:X}", n),
            2 => format!("#\\x00{:x}", n),
            3 => match name {
                Some(nm) => format!("#\\{}", nm),
                None => canonical,
            },
            4 if n >= 0x80 => format!("#\\{}", c),
            _ => canonical,
        }
    }

    fn elisp_char_text(&mut self, c: char) -> String {
        let n = c as u32;
        let special = "()[]\\;|'`#.,\"?";
        let canonical = if (0x21..0x7f).contains(&n) {
            if special.contains(c) {
                format!("?\\{}", c)
            } else {
                format!("?{}", c)
            }
        } else {
            format!("?\\x{:x}", n)
        };
        let mnemonic = match n {
            7 => Some("a"),
            8 => Some("b"),
            9 => Some("t"),
            10 => Some("n"),
            11 => Some("v"),
            12 => Some("f"),
            13 => Some("r"),
            27 => Some("e"),
            32 => Some("s"),
            127 => Some("d"),
            _ => None,
        };
        match self.alt(8) {
            0 => canonical,
            1 => format!("?\\x{:X}", n),
            2 => format!("?\\{:o}", n),
            3 if n <= 0xFFFF => format!("?\\u{:04x}", n),
            4 => format!("?\\U{:08X}", n),
            5 => format!("?\\N{{U+{:X}}}", n),
            6 => match mnemonic {
                Some(m) => format!("?\\{}", m),
                None => canonical,
            },
            7 if n >= 0x80 => format!("?{}", c),
            _ => canonical,
        }
    }

    fn r6rs_string_text(&mut self, s: &str) -> String {
        let mut out = String::from("\"");
        for c in s.chars() {
            let n = c as u32;
            let must_escape = c == '"' || c == '\\';
            let mnemonic = match n {
                7 => Some("\\a"),
                8 => Some("\\b"),
                9 => Some("\\t"),
                10 => Some("\\n"),
                11 => Some("\\v"),
                12 => Some("\\f"),
                13 => Some("\\r"),
                0x22 => Some("\\\""),
                0x5c => Some("\\\\"),
                0x7c => Some("\\|"),
                _ => None,
            };
            let k = self.alt(4);
            match (k, must_escape, mnemonic) {
                (0, false, _) | (3, false, _) => out.push(c),
                (1, _, _) => out.push_str(&format!("\\x{:x};", n)),
                (2, _, _) if n > 0 => out.push_str(&format!("\\x0{:X};", n)),
                (_, _, Some(m)) => out.push_str(m),
                (_, true, None) => out.push_str(&format!("\\x{:x};", n)),
                _ => out.push(c),
            }
        }
        out.push('"');
        out
    }

    fn elisp_string_text(&mut self, s: &str) -> String {
        let mut out = String::from("\"");
        for c in s.chars() {
            let n = c as u32;
            let must_escape = c == '"' || c == '\\';
            let mnemonic = match n {
                7 => Some("\\a"),
                8 => Some("\\b"),
                9 => Some("\\t"),
                10 => Some("\\n"),
                11 => Some("\\v"),
                12 => Some("\\f"),
                13 => Some("\\r"),
                27 => Some("\\e"),
                32 => Some("\\s"),
                127 => Some("\\d"),
                0x22 => Some("\\\""),
                0x5c => Some("\\\\"),
                _ => None,
            };
            let k = self.alt(7);
            match (k, must_escape, mnemonic) {
                (0, false, _) => out.push(c),
                (1, _, _) if n <= 0xFFFF => out.push_str(&format!("\\u{:04X}", n)),
                (2, _, _) => out.push_str(&format!("\\U{:08x}", n)),
                (3, _, _) => out.push_str(&format!("\\N{{U+{:x}}}", n)),
                (4, false, _) => {
                    out.push(c);
                    out.push_str("\\ ");
                }
                (_, _, Some(m)) => out.push_str(m),
                (_, true, None) => out.push_str(&format!("\\u{:04X}", n)),
                _ => out.push(c),
            }
        }
        out.push('"');
        out
    }

    fn bytes_text(&mut self, b: &[u8]) -> String {
        if self.q.string == Syn::Elisp && !b.is_empty() && self.alt(3) != 0 {
            // unibyte string: at least one octal/hex escape
            let mut out = String::from("\"");
            let mut escaped = false;
            for (i, &x) in b.iter().enumerate() {
                let printable = (0x20..0x7f).contains(&x) && x != b'"' && x != b'\\';
                let last = i + 1 == b.len();
                let k = self.ch.pick(4);
                if printable && k == 0 && (escaped || !last) {
                    // a raw character must not continue a preceding open-ended hex escape
                    if out.ends_with(|c: char| c.is_ascii_hexdigit()) && out.contains("\\x") && (x as char).is_ascii_hexdigit() {
                        out.push_str(&format!("\\{:03o}", x));
                        escaped = true;
                    } else if out.ends_with(|c: char| ('0'..='7').contains(&c)) && (b'0'..=b'7').contains(&x) {
                        out.push_str(&format!("\\{:03o}", x));
                        escaped = true;
                    } else {
                        out.push(x as char);
                    }
                } else if k == 1 {
                    out.push_str(&format!("\\x{:x}\\ ", x));
                    escaped = true;
                } else {
                    out.push_str(&format!("\\{:03o}", x));
                    escaped = true;
                }
            }
            out.push('"');
            return out;
        }
        let mut out = String::from(if self.alt(2) == 0 { "#u8(" } else { "#vu8(" });
        let save = std::mem::take(&mut self.out);
        self.trivia(false);
        for (i, &x) in b.iter().enumerate() {
            if i > 0 {
                self.trivia(true);
            }
            let t = self.int_text(false, x as u64);
            self.out.push_str(&t);
        }
        self.trivia(false);
        out.push_str(&self.out);
        self.out = save;
        out.push(')');
        out
    }

    fn atom(&mut self, mv: &MV) -> (String, &'static str) {
        match mv {
            MV::Nil => {
                if self.q.nil == QNil::Special && self.alt(2) == 1 {
                    ("nil".into(), "nil-symbol")
                } else {
                    ("#nil".into(), "hash-nil")
                }
            }
            MV::Null => {
                let k = self.alt(5);
                let t = match k {
                    1 => "( )".to_string(),
                    2 if !self.q.brackets_vector => "[]".to_string(),
                    3 if self.q.nil == QNil::EmptyList => "nil".to_string(),
                    4 => "(\n)".to_string(),
                    _ => "()".to_string(),
                };
                (t, "null")
            }
            MV::Bool(b) => {
                if *b && self.q.t_true && self.alt(2) == 1 {
                    ("t".into(), "t-symbol")
                } else {
                    ((if *b { "#t" } else { "#f" }).into(), "hash-bool")
                }
            }
            MV::U(u) => {
                let t = self.int_text(false, *u);
                let tok = if t.starts_with('#') { "radix-int" } else { "int" };
                (t, tok)
            }
            MV::I(i) => {
                let t = self.int_text(true, i.unsigned_abs());
                let tok = if t.starts_with('#') { "radix-int" } else { "int" };
                (t, tok)
            }
            MV::F(b) => {
                let t = self.float_text(f64::from_bits(*b));
                let tok = if t.contains('e') || t.contains('E') { "float-exp" } else { "float" };
                (t, tok)
            }
            MV::Char(c) => {
                let c = char::from_u32(*c).unwrap();
                if self.q.chr == Syn::Elisp {
                    let t = self.elisp_char_text(c);
                    let tok = if t.starts_with("?\\") { "elisp-char-escape" } else { "elisp-char" };
                    (t, tok)
                } else {
                    let t = self.r6rs_char_text(c);
                    let tok = if t.starts_with("#\\x") && t.len() > 3 {
                        "char-hex"
                    } else if t.len() > 4 && t.is_ascii() {
                        "char-name"
                    } else {
                        "char"
                    };
                    (t, tok)
                }
            }
            MV::Str(s) => {
                if self.q.string == Syn::Elisp {
                    (self.elisp_string_text(s), "elisp-string")
                } else {
                    (self.r6rs_string_text(s), "string")
                }
            }
            MV::Sym(s) => (s.clone(), if s.is_ascii() { "symbol" } else { "symbol-non-ascii" }),
            MV::Kw(s) => {
                let mut forms: Vec<String> = Vec::new();
                if self.q.kw_octo {
                    forms.push(format!("#:{}", s));
                }
                if self.q.kw_prefix {
                    forms.push(format!(":{}", s));
                }
                if self.q.kw_postfix {
                    forms.push(format!("{}:", s));
                }
                assert!(!forms.is_empty(), "keyword in a dialect without keyword syntax");
                let k = if self.cfg.alt { self.ch.pick(forms.len() as u32) } else { 0 };
                (forms[k as usize].clone(), "keyword")
            }
            MV::Bytes(b) => {
                let t = self.bytes_text(b);
                let tok = if t.starts_with('"') { "elisp-bytes" } else { "bytes" };
                (t, tok)
            }
            MV::List(..) | MV::Vec(_) => unreachable!(),
        }
    }

    /// Separator between two adjacent elements; may be empty after a closing
    /// delimiter.
    fn separator(&mut self) {
        if self.closer && self.cfg.trivia > 0 && self.ch.pick(4) == 3 {
            return;
        }
        self.trivia(true);
    }

    pub fn datum(&mut self, mv: &MV) -> Node {
        match mv {
            MV::List(xs, tail) => self.list(xs, tail),
            MV::Vec(xs) => {
                let start = self.out.len();
                let brackets = self.q.brackets_vector && self.alt(2) == 1;
                self.out.push_str(if brackets { "[" } else { "#(" });
                let close = if brackets { ']' } else { ')' };
                let mut children = Vec::new();
                self.trivia(false);
                for (i, x) in xs.iter().enumerate() {
                    if i > 0 {
                        self.separator();
                    }
                    children.push(self.datum(x));
                }
                self.trivia(false);
                self.out.push(close);
                self.closer = true;
                Node {
                    start,
                    end: self.out.len(),
                    mv: mv.clone(),
                    kind: NodeKind::Vector,
                    children,
                    tail: None,
                    token: "vector",
                }
            }
            atom => {
                let start = self.out.len();
                let (t, token) = self.atom(atom);
                self.out.push_str(&t);
                self.closer = matches!(token, "string" | "elisp-string" | "bytes" | "elisp-bytes")
                    || (token == "null" && (t.ends_with(')') || t.ends_with(']')));
                Node {
                    start,
                    end: self.out.len(),
                    mv: mv.clone(),
                    kind: NodeKind::Atom,
                    children: Vec::new(),
                    tail: None,
                    token,
                }
            }
        }
    }

    fn list(&mut self, xs: &[MV], tail: &MV) -> Node {
        let mv = MV::List(xs.to_vec(), Box::new(tail.clone()));
        let start = self.out.len();
        // quotation shorthand
        if *tail == MV::Null && xs.len() == 2 {
            if let MV::Sym(h) = &xs[0] {
                let sh = match h.as_str() {
                    "quote" => Some("'"),
                    "quasiquote" => Some("`"),
                    "unquote" => Some(","),
                    "unquote-splicing" => Some(",@"),
                    _ => None,
                };
                if let Some(sh) = sh {
                    if self.alt(3) != 0 {
                        self.out.push_str(sh);
                        let head = Node {
                            start,
                            end: self.out.len(),
                            mv: xs[0].clone(),
                            kind: NodeKind::QuoteHead,
                            children: Vec::new(),
                            tail: None,
                            token: "quote-shorthand",
                        };
                        let before = self.out.len();
                        self.trivia(false);
                        let quoted_pos = self.out.len();
                        let quoted = self.datum(&xs[1]);
                        if sh == "," && before == quoted_pos && self.out[quoted_pos..].starts_with('@') {
                            // `,` directly followed by `@...` would read as `,@`
                            self.out.insert(quoted_pos, ' ');
                            let quoted = shift(quoted, 1);
                            return Node {
                                start,
                                end: quoted.end,
                                mv,
                                kind: NodeKind::Quote,
                                children: vec![head, quoted],
                                tail: None,
                                token: "quotation",
                            };
                        }
                        return Node {
                            start,
                            end: quoted.end,
                            mv,
                            kind: NodeKind::Quote,
                            children: vec![head, quoted],
                            tail: None,
                            token: "quotation",
                        };
                    }
                }
            }
        }
        let dotted = *tail != MV::Null;
        // brackets as list delimiters, for proper and for dotted lists
        let brackets = !self.q.brackets_vector && self.alt(4) == 1;
        let (open, close) = if brackets { ('[', ']') } else { ('(', ')') };
        self.out.push(open);
        self.trivia(false);
        let mut children = Vec::new();
        // how many elements before switching to `. (rest)` spelling
        let split = if !dotted && !brackets && xs.len() >= 2 && self.alt(5) == 1 {
            1 + self.ch.pick(xs.len() as u32 - 1) as usize
        } else {
            xs.len()
        };
        for (i, x) in xs.iter().take(split).enumerate() {
            if i > 0 {
                self.separator();
            }
            children.push(self.datum(x));
        }
        let mut tail_node = None;
        if split < xs.len() {
            // `(a . (b c))`: the rest is written as a nested list after a dot
            self.trivia(true);
            self.out.push('.');
            self.trivia(true);
            let inner_start = self.out.len();
            self.out.push('(');
            self.trivia(false);
            for (i, x) in xs.iter().skip(split).enumerate() {
                if i > 0 {
                    self.separator();
                }
                children.push(self.datum(x));
            }
            self.trivia(false);
            self.out.push(')');
            let _ = inner_start;
            self.trivia(false);
        } else if dotted {
            self.trivia(true);
            self.out.push('.');
            self.trivia(true);
            tail_node = Some(Box::new(self.datum(tail)));
            self.trivia(false);
        } else if !brackets && self.alt(8) == 1 && !xs.is_empty() {
            // `(a b . ())`
            self.trivia(true);
            self.out.push('.');
            self.trivia(true);
            self.out.push_str("()");
            self.trivia(false);
        } else {
            self.trivia(false);
        }
        self.out.push(close);
        self.closer = true;
        Node {
            start,
            end: self.out.len(),
            mv,
            kind: NodeKind::List,
            children,
            tail: tail_node,
            token: "list",
        }
    }
}

fn shift(mut n: Node, by: usize) -> Node {
    n.start += by;
    n.end += by;
    n.children = n.children.into_iter().map(|c| shift(c, by)).collect();
    n.tail = n.tail.map(|t| Box::new(shift(*t, by)));
    n
}

/// Lay out one datum with surrounding trivia.
pub fn layout(mv: &MV, q: &QOpt, cfg: LayoutCfg, choices: &[u32]) -> Layout {
    let mut ch = Ch::new(choices);
    let mut b = Builder::new(*q, cfg, &mut ch);
    b.trivia(false);
    let root = b.datum(&mv.normalize());
    b.trivia(false);
    // a final comment without newline
    if cfg.trivia >= 2 && b.ch.pick(6) == 5 {
        b.out.push_str(" ;end");
    }
    Layout { text: b.out, root }
}

/// (1-based line, 0-based byte column) of a byte offset.
pub fn line_col(text: &str, offset: usize) -> (usize, usize) {
    let before = &text.as_bytes()[..offset];
    let line = 1 + before.iter().filter(|b| **b == b'\n').count();
    let col = match before.iter().rposition(|b| *b == b'\n') {
        Some(i) => offset - i - 1,
        None => offset,
    };
    (line, col)
}

/// Identifier rules for values that are to be *read* under `q`.
pub fn ident_rules_for_q(q: &QOpt) -> IdentRules {
    IdentRules {
        no_leading_question: q.chr == Syn::Elisp,
        no_colon_edges: q.any_colon_kw(),
        no_nil: q.nil != QNil::Default,
        no_t: q.t_true,
        no_sign_dot: false,
    }
}

pub fn self_test() {
    let q = QOpt::default_set();
    let mv = MV::list(vec![MV::sym("a"), MV::U(1), MV::Str("x".into())]);
    let l = layout(&mv, &q, LayoutCfg::canonical(), &[]);
    assert_eq!(l.text, "(a 1 \"x\")");
    assert_eq!((l.root.start, l.root.end), (0, 9));
    assert_eq!(l.root.children.len(), 3);
    assert_eq!((l.root.children[1].start, l.root.children[1].end), (3, 4));
    assert_eq!(line_col("ab\ncd", 4), (2, 1));
    assert_eq!(line_col("ab\ncd", 2), (1, 2));
    // monotone choice mapping
    let mut c = Ch::new(&[0, u32::MAX, 1 << 31]);
    assert_eq!((c.pick(10), c.pick(10), c.pick(10), c.pick(10)), (0, 9, 5, 0));
}
