//! The 576 printer and 1536 parser option sets as index <-> options bijections.

use lexpr::parse::{Brackets, NilSymbol, Options as QOptions, TSymbol};
use lexpr::print::{
    BoolSyntax, BytesSyntax, CharSyntax, KeywordSyntax, NilSyntax, Options as POptions,
    StringSyntax, VectorSyntax,
};
use serde::{Deserialize, Serialize};

#[derive(Clone, Copy, Debug, PartialEq, Eq, Hash, Serialize, Deserialize)]
pub enum Kw {
    Octothorpe,
    ColonPrefix,
    ColonPostfix,
}
#[derive(Clone, Copy, Debug, PartialEq, Eq, Hash, Serialize, Deserialize)]
pub enum PNil {
    Token,
    Symbol,
    EmptyList,
    False,
}
#[derive(Clone, Copy, Debug, PartialEq, Eq, Hash, Serialize, Deserialize)]
pub enum PBool {
    Token,
    Symbol,
}
#[derive(Clone, Copy, Debug, PartialEq, Eq, Hash, Serialize, Deserialize)]
pub enum PVec {
    Octothorpe,
    Brackets,
}
#[derive(Clone, Copy, Debug, PartialEq, Eq, Hash, Serialize, Deserialize)]
pub enum PBytes {
    R7RS,
    R6RS,
    Elisp,
}
#[derive(Clone, Copy, Debug, PartialEq, Eq, Hash, Serialize, Deserialize)]
pub enum Syn {
    R6RS,
    Elisp,
}

#[derive(Clone, Copy, Debug, PartialEq, Eq, Hash, Serialize, Deserialize)]
pub struct POpt {
    pub kw: Kw,
    pub nil: PNil,
    pub boolean: PBool,
    pub vec: PVec,
    pub bytes: PBytes,
    pub string: Syn,
    pub chr: Syn,
}

pub const N_POPT: usize = 576;
pub const N_QOPT: usize = 1536;

const KWS: [Kw; 3] = [Kw::Octothorpe, Kw::ColonPrefix, Kw::ColonPostfix];
const PNILS: [PNil; 4] = [PNil::Token, PNil::Symbol, PNil::EmptyList, PNil::False];
const PBOOLS: [PBool; 2] = [PBool::Token, PBool::Symbol];
const PVECS: [PVec; 2] = [PVec::Octothorpe, PVec::Brackets];
const PBYTES: [PBytes; 3] = [PBytes::R7RS, PBytes::R6RS, PBytes::Elisp];
const SYNS: [Syn; 2] = [Syn::R6RS, Syn::Elisp];

impl POpt {
    /// Index 0 is the default option set.
    pub fn from_index(mut i: usize) -> POpt {
        assert!(i < N_POPT);
        let kw = KWS[i % 3];
        i /= 3;
        let nil = PNILS[i % 4];
        i /= 4;
        let boolean = PBOOLS[i % 2];
        i /= 2;
        let vec = PVECS[i % 2];
        i /= 2;
        let bytes = PBYTES[i % 3];
        i /= 3;
        let string = SYNS[i % 2];
        i /= 2;
        let chr = SYNS[i % 2];
        POpt {
            kw,
            nil,
            boolean,
            vec,
            bytes,
            string,
            chr,
        }
    }
    pub fn index(&self) -> usize {
        let pos = |b: bool| b as usize;
        let kw = KWS.iter().position(|x| *x == self.kw).unwrap();
        let nil = PNILS.iter().position(|x| *x == self.nil).unwrap();
        let bo = pos(self.boolean == PBool::Symbol);
        let ve = pos(self.vec == PVec::Brackets);
        let by = PBYTES.iter().position(|x| *x == self.bytes).unwrap();
        let st = pos(self.string == Syn::Elisp);
        let ch = pos(self.chr == Syn::Elisp);
        kw + 3 * (nil + 4 * (bo + 2 * (ve + 2 * (by + 3 * (st + 2 * ch)))))
    }
    pub fn default_set() -> POpt {
        POpt::from_index(0)
    }
    pub fn elisp() -> POpt {
        POpt {
            kw: Kw::ColonPrefix,
            nil: PNil::Symbol,
            boolean: PBool::Symbol,
            vec: PVec::Brackets,
            bytes: PBytes::Elisp,
            string: Syn::Elisp,
            chr: Syn::Elisp,
        }
    }
    pub fn to_lexpr(&self) -> POptions {
        POptions::default()
            .with_keyword_syntax(match self.kw {
                Kw::Octothorpe => KeywordSyntax::Octothorpe,
                Kw::ColonPrefix => KeywordSyntax::ColonPrefix,
                Kw::ColonPostfix => KeywordSyntax::ColonPostfix,
            })
            .with_nil_syntax(match self.nil {
                PNil::Token => NilSyntax::Token,
                PNil::Symbol => NilSyntax::Symbol,
                PNil::EmptyList => NilSyntax::EmptyList,
                PNil::False => NilSyntax::False,
            })
            .with_bool_syntax(match self.boolean {
                PBool::Token => BoolSyntax::Token,
                PBool::Symbol => BoolSyntax::Symbol,
            })
            .with_vector_syntax(match self.vec {
                PVec::Octothorpe => VectorSyntax::Octothorpe,
                PVec::Brackets => VectorSyntax::Brackets,
            })
            .with_bytes_syntax(match self.bytes {
                PBytes::R7RS => BytesSyntax::R7RS,
                PBytes::R6RS => BytesSyntax::R6RS,
                PBytes::Elisp => BytesSyntax::Elisp,
            })
            .with_string_syntax(match self.string {
                Syn::R6RS => StringSyntax::R6RS,
                Syn::Elisp => StringSyntax::Elisp,
            })
            .with_char_syntax(match self.chr {
                Syn::R6RS => CharSyntax::R6RS,
                Syn::Elisp => CharSyntax::Elisp,
            })
    }
    /// The same option set reached by another route through the builder API:
    /// starting from the Emacs Lisp set and overriding every field.
    pub fn to_lexpr_alt(&self) -> POptions {
        let base = self.to_lexpr();
        let _ = base;
        POptions::elisp()
            .with_char_syntax(match self.chr {
                Syn::R6RS => CharSyntax::R6RS,
                Syn::Elisp => CharSyntax::Elisp,
            })
            .with_string_syntax(match self.string {
                Syn::R6RS => StringSyntax::R6RS,
                Syn::Elisp => StringSyntax::Elisp,
            })
            .with_bytes_syntax(match self.bytes {
                PBytes::R7RS => BytesSyntax::R7RS,
                PBytes::R6RS => BytesSyntax::R6RS,
                PBytes::Elisp => BytesSyntax::Elisp,
            })
            .with_vector_syntax(match self.vec {
                PVec::Octothorpe => VectorSyntax::Octothorpe,
                PVec::Brackets => VectorSyntax::Brackets,
            })
            .with_bool_syntax(match self.boolean {
                PBool::Token => BoolSyntax::Token,
                PBool::Symbol => BoolSyntax::Symbol,
            })
            .with_nil_syntax(match self.nil {
                PNil::Token => NilSyntax::Token,
                PNil::Symbol => NilSyntax::Symbol,
                PNil::EmptyList => NilSyntax::EmptyList,
                PNil::False => NilSyntax::False,
            })
            .with_keyword_syntax(match self.kw {
                Kw::Octothorpe => KeywordSyntax::Octothorpe,
                Kw::ColonPrefix => KeywordSyntax::ColonPrefix,
                Kw::ColonPostfix => KeywordSyntax::ColonPostfix,
            })
    }
    /// true when this printer prints `nil` for Nil or false
    pub fn prints_nil_symbol(&self) -> bool {
        self.nil == PNil::Symbol || self.boolean == PBool::Symbol
    }
}

#[derive(Clone, Copy, Debug, PartialEq, Eq, Hash, Serialize, Deserialize)]
pub enum QNil {
    Default,
    EmptyList,
    Special,
}

#[derive(Clone, Copy, Debug, PartialEq, Eq, Hash, Serialize, Deserialize)]
pub struct QOpt {
    pub kw_prefix: bool,
    pub kw_postfix: bool,
    pub kw_octo: bool,
    pub nil: QNil,
    pub t_true: bool,
    pub brackets_vector: bool,
    pub string: Syn,
    pub chr: Syn,
    pub racket: bool,
    pub digits: bool,
}

const QNILS: [QNil; 3] = [QNil::Default, QNil::EmptyList, QNil::Special];

impl QOpt {
    /// Index 0 is the default option set (only octothorpe keywords).
    pub fn from_index(mut i: usize) -> QOpt {
        assert!(i < N_QOPT);
        // keyword subset: bit pattern XOR 4 so that index 0 = {octothorpe}
        let k = (i % 8) ^ 4;
        i /= 8;
        let nil = QNILS[i % 3];
        i /= 3;
        let t_true = i % 2 == 1;
        i /= 2;
        let brackets_vector = i % 2 == 1;
        i /= 2;
        let string = SYNS[i % 2];
        i /= 2;
        let chr = SYNS[i % 2];
        i /= 2;
        let racket = i % 2 == 1;
        i /= 2;
        let digits = i % 2 == 1;
        QOpt {
            kw_prefix: k & 1 != 0,
            kw_postfix: k & 2 != 0,
            kw_octo: k & 4 != 0,
            nil,
            t_true,
            brackets_vector,
            string,
            chr,
            racket,
            digits,
        }
    }
    pub fn index(&self) -> usize {
        let k = ((self.kw_prefix as usize) | ((self.kw_postfix as usize) << 1) | ((self.kw_octo as usize) << 2)) ^ 4;
        let nil = QNILS.iter().position(|x| *x == self.nil).unwrap();
        k + 8
            * (nil
                + 3 * ((self.t_true as usize)
                    + 2 * ((self.brackets_vector as usize)
                        + 2 * (((self.string == Syn::Elisp) as usize)
                            + 2 * (((self.chr == Syn::Elisp) as usize)
                                + 2 * ((self.racket as usize) + 2 * (self.digits as usize)))))))
    }
    pub fn default_set() -> QOpt {
        QOpt::from_index(0)
    }
    pub fn elisp() -> QOpt {
        QOpt {
            kw_prefix: true,
            kw_postfix: false,
            kw_octo: false,
            nil: QNil::EmptyList,
            t_true: false,
            brackets_vector: true,
            string: Syn::Elisp,
            chr: Syn::Elisp,
            racket: false,
            digits: true,
        }
    }
    pub fn to_lexpr(&self) -> QOptions {
        let mut o = QOptions::new();
        if self.kw_prefix {
            o = o.with_keyword_syntax(KeywordSyntax::ColonPrefix);
        }
        if self.kw_postfix {
            o = o.with_keyword_syntax(KeywordSyntax::ColonPostfix);
        }
        if self.kw_octo {
            o = o.with_keyword_syntax(KeywordSyntax::Octothorpe);
        }
        o.with_nil_symbol(match self.nil {
            QNil::Default => NilSymbol::Default,
            QNil::EmptyList => NilSymbol::EmptyList,
            QNil::Special => NilSymbol::Special,
        })
        .with_t_symbol(if self.t_true {
            TSymbol::True
        } else {
            TSymbol::Default
        })
        .with_brackets(if self.brackets_vector {
            Brackets::Vector
        } else {
            Brackets::List
        })
        .with_string_syntax(match self.string {
            Syn::R6RS => StringSyntax::R6RS,
            Syn::Elisp => StringSyntax::Elisp,
        })
        .with_char_syntax(match self.chr {
            Syn::R6RS => CharSyntax::R6RS,
            Syn::Elisp => CharSyntax::Elisp,
        })
        .with_racket_hash_percent_symbols(self.racket)
        .with_leading_digit_symbols(self.digits)
    }
    /// The same option set reached by another route through the builder API:
    /// starting from the Emacs Lisp set, replacing the keyword syntaxes with
    /// the plural setter and overriding every other field, last to first.
    pub fn to_lexpr_alt(&self) -> QOptions {
        let mut kws = Vec::new();
        if self.kw_octo {
            kws.push(KeywordSyntax::Octothorpe);
        }
        if self.kw_postfix {
            kws.push(KeywordSyntax::ColonPostfix);
        }
        if self.kw_prefix {
            kws.push(KeywordSyntax::ColonPrefix);
        }
        QOptions::elisp()
            .with_leading_digit_symbols(self.digits)
            .with_racket_hash_percent_symbols(self.racket)
            .with_char_syntax(match self.chr {
                Syn::R6RS => CharSyntax::R6RS,
                Syn::Elisp => CharSyntax::Elisp,
            })
            .with_string_syntax(match self.string {
                Syn::R6RS => StringSyntax::R6RS,
                Syn::Elisp => StringSyntax::Elisp,
            })
            .with_brackets(if self.brackets_vector { Brackets::Vector } else { Brackets::List })
            .with_t_symbol(if self.t_true { TSymbol::True } else { TSymbol::Default })
            .with_nil_symbol(match self.nil {
                QNil::Default => NilSymbol::Default,
                QNil::EmptyList => NilSymbol::EmptyList,
                QNil::Special => NilSymbol::Special,
            })
            .with_keyword_syntaxes(kws.iter())
    }
    pub fn kw_enabled(&self, k: Kw) -> bool {
        match k {
            Kw::Octothorpe => self.kw_octo,
            Kw::ColonPrefix => self.kw_prefix,
            Kw::ColonPostfix => self.kw_postfix,
        }
    }
    pub fn any_colon_kw(&self) -> bool {
        self.kw_prefix || self.kw_postfix
    }
}

/// `Q in compat(P)` (DESIGN.md appendix A.1).
pub fn compatible(p: &POpt, q: &QOpt) -> bool {
    q.kw_enabled(p.kw)
        && (p.vec != PVec::Brackets || q.brackets_vector)
        && q.string == p.string
        && q.chr == p.chr
}

/// All parser option sets compatible with `p` (96 or 192).
pub fn compat_sets(p: &POpt) -> Vec<QOpt> {
    (0..N_QOPT)
        .map(QOpt::from_index)
        .filter(|q| compatible(p, q))
        .collect()
}

/// `printer_for(Q)` (DESIGN.md appendix A.3).
pub fn printer_for(q: &QOpt) -> POpt {
    if *q == QOpt::default_set() {
        return POpt::default_set();
    }
    if *q == QOpt::elisp() {
        return POpt::elisp();
    }
    POpt {
        kw: if q.kw_octo {
            Kw::Octothorpe
        } else if q.kw_prefix {
            Kw::ColonPrefix
        } else if q.kw_postfix {
            Kw::ColonPostfix
        } else {
            Kw::Octothorpe
        },
        nil: if q.nil == QNil::Special {
            PNil::Symbol
        } else {
            PNil::Token
        },
        boolean: PBool::Token,
        vec: if q.brackets_vector {
            PVec::Brackets
        } else {
            PVec::Octothorpe
        },
        bytes: if q.string == Syn::Elisp {
            PBytes::Elisp
        } else {
            PBytes::R7RS
        },
        string: q.string,
        chr: q.chr,
    }
}

pub fn self_test() {
    for i in 0..N_POPT {
        assert_eq!(POpt::from_index(i).index(), i);
    }
    for i in 0..N_QOPT {
        assert_eq!(QOpt::from_index(i).index(), i);
    }
    assert!(compatible(&POpt::default_set(), &QOpt::default_set()));
    assert!(compatible(&POpt::elisp(), &QOpt::elisp()));
    for i in 0..N_QOPT {
        let q = QOpt::from_index(i);
        assert!(compatible(&printer_for(&q), &q) || !(q.kw_octo || q.kw_prefix || q.kw_postfix));
    }
    // (that POpt::default_set()/elisp() print like the library's own default/elisp
    // options is asserted by C07 and C02, not here: a self-test must not depend on
    // the code under test)
}
