//! Engine: proptest TestRunner wrapper, counters, evidence, replay files,
//! known-finding suppression.
//!
//! Every oracle execution is reported through [`Ctx::observe`]. A failing
//! case carries a *signature*; signatures listed as `known` in
//! `/verif/known_findings.json` are counted and the search continues, all
//! others become `VIOLATION` lines with a replay file.

use std::cell::RefCell;
use std::collections::{BTreeMap, BTreeSet, HashSet};
use std::hash::{Hash, Hasher};
use std::path::PathBuf;

use proptest::strategy::{Strategy, ValueTree};
use proptest::test_runner::{Config, RngAlgorithm, RngSeed, TestCaseError, TestError, TestRunner};
use serde_json::{json, Value as Json};

pub const BUILD: &str = if cfg!(feature = "ff") { "ff" } else { "noff" };

#[derive(Clone, Copy, PartialEq, Eq, Debug)]
pub enum Tier {
    Quick,
    Thorough,
}

impl Tier {
    pub fn pick<T>(self, quick: T, thorough: T) -> T {
        match self {
            Tier::Quick => quick,
            Tier::Thorough => thorough,
        }
    }
    pub fn name(self) -> &'static str {
        self.pick("quick", "thorough")
    }
}

/// A successful oracle evaluation.
#[derive(Clone, Debug, Default)]
pub struct Eval {
    pub nontrivial: bool,
    pub digest: u64,
    pub classes: Vec<&'static str>,
}

impl Eval {
    pub fn new(nontrivial: bool, digest: u64) -> Self {
        Eval {
            nontrivial,
            digest,
            classes: Vec::new(),
        }
    }
    pub fn class(mut self, c: &'static str) -> Self {
        self.classes.push(c);
        self
    }
    pub fn classes(mut self, cs: &[&'static str]) -> Self {
        self.classes.extend_from_slice(cs);
        self
    }
}

/// A failing oracle evaluation.
#[derive(Clone, Debug)]
pub struct Failure {
    /// Normalised identity of the finding (see DESIGN.md appendix E).
    pub signature: String,
    /// Human readable description (input, expected, observed).
    pub message: String,
    /// Generator-level case, sufficient to re-evaluate through `replay`.
    pub case: Json,
    /// Classes of the generated case (so that generator health is measured on
    /// failing cases too).
    pub classes: Vec<&'static str>,
}

impl Failure {
    pub fn new(signature: impl Into<String>, message: impl Into<String>, case: Json) -> Self {
        Failure {
            signature: signature.into(),
            message: message.into(),
            case,
            classes: Vec::new(),
        }
    }
    pub fn with_classes(mut self, cs: Vec<&'static str>) -> Self {
        self.classes = cs;
        self
    }
}

pub type CaseResult = Result<Eval, Failure>;

pub fn digest_of<T: Hash + ?Sized>(t: &T) -> u64 {
    let mut h = std::collections::hash_map::DefaultHasher::new();
    t.hash(&mut h);
    h.finish()
}

pub fn mix(a: u64, b: u64) -> u64 {
    // splitmix64 finaliser over the pair
    let mut z = a ^ b.wrapping_mul(0x9E37_79B9_7F4A_7C15);
    z = (z ^ (z >> 30)).wrapping_mul(0xBF58_476D_1CE4_E5B9);
    z = (z ^ (z >> 27)).wrapping_mul(0x94D0_49BB_1331_11EB);
    z ^ (z >> 31)
}

#[derive(Clone, Debug)]
pub struct Known {
    pub signature: String,
    pub status: String, // "known" | "fixed"
    pub what: String,
}

/// Mergeable counters (one per worker thread in exhaustive sweeps).
#[derive(Default)]
pub struct Stats {
    pub evals: u64,
    pub nontrivial: HashSet<u64>,
    pub classes: BTreeMap<String, u64>,
    pub known_hits: BTreeMap<String, (u64, Json, String)>,
    pub failures: Vec<(String, Failure)>,
}

impl Stats {
    pub fn merge(&mut self, other: Stats) {
        self.evals += other.evals;
        self.nontrivial.extend(other.nontrivial);
        for (k, v) in other.classes {
            *self.classes.entry(k).or_insert(0) += v;
        }
        for (k, (n, c, m)) in other.known_hits {
            let e = self.known_hits.entry(k).or_insert((0, c, m));
            e.0 += n;
        }
        self.failures.extend(other.failures);
    }
}

pub struct Ctx {
    pub prop: String,
    pub tier: Tier,
    pub seed: u64,
    pub strict: bool,
    known: Vec<Known>,
    pub stats: Stats,
    pub samples: Vec<Json>,
    pub exhaustive: Vec<String>,
    pub excluded: BTreeMap<String, u64>,
    pub notes: Vec<String>,
    pub required_classes: Vec<&'static str>,
    pub inconclusive: Vec<String>,
    violation_sigs: BTreeSet<String>,
    pub violations: Vec<(String, Failure, PathBuf)>,
    sample_budget: BTreeMap<String, u32>,
}

pub const MAX_DISTINCT_PER_SUB: usize = 6;

fn verif_dir() -> PathBuf {
    std::env::var_os("VERIF_DIR")
        .map(PathBuf::from)
        .unwrap_or_else(|| PathBuf::from("/verif"))
}

impl Ctx {
    pub fn new(prop: &str, tier: Tier, seed: u64) -> Self {
        let mut known = Vec::new();
        let path = verif_dir().join("known_findings.json");
        if let Ok(text) = std::fs::read_to_string(&path) {
            let j: Json = serde_json::from_str(&text).expect("known_findings.json is not JSON");
            if let Some(arr) = j.get("findings").and_then(|f| f.as_array()) {
                for f in arr {
                    if f.get("property").and_then(|p| p.as_str()) != Some(prop) {
                        continue;
                    }
                    known.push(Known {
                        signature: f["signature"].as_str().unwrap_or("").to_string(),
                        status: f["status"].as_str().unwrap_or("known").to_string(),
                        what: f["what"].as_str().unwrap_or("").to_string(),
                    });
                }
            }
        }
        Ctx {
            prop: prop.to_string(),
            tier,
            seed,
            strict: false,
            known,
            stats: Stats::default(),
            samples: Vec::new(),
            exhaustive: Vec::new(),
            excluded: BTreeMap::new(),
            notes: Vec::new(),
            required_classes: Vec::new(),
            inconclusive: Vec::new(),
            violation_sigs: BTreeSet::new(),
            violations: Vec::new(),
            sample_budget: BTreeMap::new(),
        }
    }

    pub fn is_known(&self, sig: &str) -> bool {
        !self.strict
            && self
                .known
                .iter()
                .any(|k| k.status == "known" && k.signature == sig)
    }

    pub fn known_list(&self) -> &[Known] {
        &self.known
    }

    pub fn sub_seed(&self, sub: &str, round: u64) -> u64 {
        mix(
            mix(self.seed, digest_of(&(self.prop.as_str(), sub))),
            round,
        )
    }

    pub fn want_sample(&mut self, sub: &str, per_sub: u32) -> bool {
        let e = self.sample_budget.entry(sub.to_string()).or_insert(0);
        if *e < per_sub {
            *e += 1;
            true
        } else {
            false
        }
    }

    pub fn add_sample(&mut self, sub: &str, j: Json) {
        if self.samples.len() < 40 {
            self.samples.push(json!({"sub": sub, "case": j}));
        }
    }

    pub fn exclude(&mut self, what: &str, n: u64) {
        *self.excluded.entry(what.to_string()).or_insert(0) += n;
    }

    /// Record one oracle evaluation into `stats` (thread-local friendly).
    pub fn record(&self, stats: &mut Stats, sub: &str, r: CaseResult) {
        stats.evals += 1;
        match r {
            Ok(ev) => {
                if ev.nontrivial {
                    stats.nontrivial.insert(mix(ev.digest, digest_of(BUILD)));
                }
                for c in ev.classes {
                    *stats.classes.entry(c.to_string()).or_insert(0) += 1;
                }
            }
            Err(f) => {
                for c in &f.classes {
                    *stats.classes.entry(c.to_string()).or_insert(0) += 1;
                }
                if self.is_known(&f.signature) {
                    let e = stats
                        .known_hits
                        .entry(f.signature.clone())
                        .or_insert((0, f.case.clone(), f.message.clone()));
                    e.0 += 1;
                } else {
                    // keep a bounded number per signature
                    let n = stats
                        .failures
                        .iter()
                        .filter(|(_, g)| g.signature == f.signature)
                        .count();
                    if n < 1 {
                        stats.failures.push((sub.to_string(), f));
                    }
                }
            }
        }
    }

    /// Record directly into the context's own stats.
    pub fn observe(&mut self, sub: &str, r: CaseResult) {
        let mut st = std::mem::take(&mut self.stats);
        self.record(&mut st, sub, r);
        self.stats = st;
    }

    pub fn merge(&mut self, st: Stats) {
        self.stats.merge(st);
    }

    /// Turn accumulated unknown failures into violations (replay files).
    pub fn flush_failures(&mut self) {
        let fails = std::mem::take(&mut self.stats.failures);
        for (sub, f) in fails {
            self.add_violation(&sub, f);
        }
    }

    pub fn add_violation(&mut self, sub: &str, f: Failure) {
        if self.is_known(&f.signature) {
            let e = self
                .stats
                .known_hits
                .entry(f.signature.clone())
                .or_insert((0, f.case.clone(), f.message.clone()));
            e.0 += 1;
            return;
        }
        if !self.violation_sigs.insert(f.signature.clone()) {
            return;
        }
        let dir = verif_dir().join("replays").join(&self.prop);
        let _ = std::fs::create_dir_all(&dir);
        let name = format!("{}-{:016x}.json", BUILD, digest_of(&f.signature));
        let path = dir.join(name);
        let j = json!({
            "property": self.prop,
            "build": BUILD,
            "tier": self.tier.name(),
            "seed": self.seed,
            "sub": sub,
            "signature": f.signature,
            "message": f.message,
            "case": f.case,
        });
        let _ = std::fs::write(&path, serde_json::to_string_pretty(&j).unwrap());
        self.violations.push((sub.to_string(), f, path));
    }

    /// Drive `check` over `cases` generated values; shrink failures; continue
    /// after each distinct new signature (bounded).
    pub fn run_prop<S, F>(&mut self, sub: &str, cases: u32, strat: S, check: F)
    where
        S: Strategy,
        S::Value: std::fmt::Debug,
        F: Fn(&S::Value) -> CaseResult,
    {
        let mut remaining = cases;
        let mut round = 0u64;
        let local_suppressed: RefCell<BTreeSet<String>> = RefCell::new(BTreeSet::new());
        while remaining > 0 && (round as usize) < MAX_DISTINCT_PER_SUB {
            let seed = self.sub_seed(sub, round);
            let mut seed_bytes = [0u8; 32];
            for i in 0..4 {
                seed_bytes[i * 8..i * 8 + 8]
                    .copy_from_slice(&mix(seed, i as u64).to_le_bytes());
            }
            let config = Config {
                cases: remaining,
                failure_persistence: None,
                rng_algorithm: RngAlgorithm::ChaCha,
                rng_seed: RngSeed::Fixed(seed),
                max_shrink_iters: 20000,
                max_global_rejects: 1 << 20,
                max_local_rejects: 1 << 20,
                ..Config::default()
            };
            let _ = seed_bytes;
            let mut runner = TestRunner::new(config);
            let stats = RefCell::new(Stats::default());
            let done = RefCell::new(0u32);
            let failed = RefCell::new(false);
            let this = &*self;
            let result = runner.run(&strat, |v| {
                let r = check(&v);
                if *failed.borrow() {
                    // shrinking phase: do not count, only steer
                    return match r {
                        Ok(_) => Ok(()),
                        Err(f) => {
                            if this.is_known(&f.signature)
                                || local_suppressed.borrow().contains(&f.signature)
                            {
                                Ok(())
                            } else {
                                Err(TestCaseError::fail(f.signature))
                            }
                        }
                    };
                }
                *done.borrow_mut() += 1;
                match r {
                    Err(f)
                        if !this.is_known(&f.signature)
                            && !local_suppressed.borrow().contains(&f.signature) =>
                    {
                        stats.borrow_mut().evals += 1;
                        *failed.borrow_mut() = true;
                        Err(TestCaseError::fail(f.signature))
                    }
                    Err(f) if local_suppressed.borrow().contains(&f.signature) => {
                        stats.borrow_mut().evals += 1;
                        Ok(())
                    }
                    r => {
                        this.record(&mut stats.borrow_mut(), sub, r);
                        Ok(())
                    }
                }
            });
            let st = stats.into_inner();
            self.stats.merge(st);
            let d = *done.borrow();
            remaining = remaining.saturating_sub(d.max(1));
            match result {
                Ok(()) => break,
                Err(TestError::Fail(_, minimal)) => {
                    match check(&minimal) {
                        Err(f) => {
                            local_suppressed.borrow_mut().insert(f.signature.clone());
                            self.add_violation(sub, f);
                        }
                        Ok(_) => {
                            self.inconclusive.push(format!(
                                "{}: shrunk case no longer fails (flaky oracle?): {:?}",
                                sub, minimal
                            ));
                            break;
                        }
                    }
                }
                Err(TestError::Abort(why)) => {
                    self.inconclusive
                        .push(format!("{}: generator aborted: {}", sub, why));
                    break;
                }
            }
            round += 1;
        }
    }

    /// Generate one value from a strategy deterministically (for sampling).
    pub fn sample_values<S: Strategy>(&self, sub: &str, strat: &S, n: usize) -> Vec<S::Value> {
        let config = Config {
            failure_persistence: None,
            rng_algorithm: RngAlgorithm::ChaCha,
            rng_seed: RngSeed::Fixed(self.sub_seed(sub, 0xFFFF)),
            ..Config::default()
        };
        let mut runner = TestRunner::new(config);
        (0..n)
            .filter_map(|_| strat.new_tree(&mut runner).ok().map(|t| t.current()))
            .collect()
    }

    pub fn evidence(&self, level: &str, rule: &str, assumptions: &[&str], wall_s: f64) -> Json {
        let known: Vec<Json> = self
            .stats
            .known_hits
            .iter()
            .map(|(sig, (n, case, msg))| json!({"signature": sig, "hits": n, "example": case, "message": msg}))
            .collect();
        json!({
            "property_id": self.prop,
            "tier": self.tier.name(),
            "seed": self.seed,
            "level": level,
            "build": BUILD,
            "coverage": {
                "evaluations": self.stats.evals,
                "distinct_nontrivial": self.stats.nontrivial.len(),
                "rule": rule,
                "samples": self.samples,
                "classes": self.stats.classes,
                "exhaustive_subspaces": self.exhaustive,
                "exhaustive": false,
                "excluded_by_construction": self.excluded,
                "known_excluded": known,
                "notes": self.notes,
            },
            "assumptions": assumptions,
            "wall_s": wall_s,
            "violations": self.violations.len(),
            "inconclusive": self.inconclusive,
        })
    }
}

impl Ctx {
    /// Exhaustive / enumerated sweep on all cores; per-thread counters merged.
    pub fn par_sweep<I, P, F>(&mut self, sub: &str, items: P, f: F)
    where
        I: Send,
        P: rayon::iter::ParallelIterator<Item = I>,
        F: Fn(I) -> CaseResult + Sync + Send,
    {
        use rayon::iter::ParallelIterator as _;
        let this = &*self;
        let st = items
            .fold(Stats::default, |mut st, item| {
                this.record(&mut st, sub, f(item));
                st
            })
            .reduce(Stats::default, |mut a, b| {
                a.merge(b);
                a
            });
        self.stats.merge(st);
        self.flush_failures();
    }
}

impl Ctx {
    /// A worker context for one parallel task: same configuration and known
    /// findings, empty counters. Merge back with [`Ctx::absorb`] in a fixed
    /// order so that the run stays a pure function of (tree, tier, seed).
    pub fn fork(&self) -> Ctx {
        Ctx {
            prop: self.prop.clone(),
            tier: self.tier,
            seed: self.seed,
            strict: self.strict,
            known: self.known.clone(),
            stats: Stats::default(),
            samples: Vec::new(),
            exhaustive: Vec::new(),
            excluded: BTreeMap::new(),
            notes: Vec::new(),
            required_classes: Vec::new(),
            inconclusive: Vec::new(),
            violation_sigs: self.violation_sigs.clone(),
            violations: Vec::new(),
            sample_budget: BTreeMap::new(),
        }
    }

    pub fn absorb(&mut self, mut child: Ctx) {
        child.flush_failures();
        self.stats.merge(std::mem::take(&mut child.stats));
        for s in child.samples {
            if self.samples.len() < 40 {
                self.samples.push(s);
            }
        }
        for (k, v) in child.excluded {
            *self.excluded.entry(k).or_insert(0) += v;
        }
        self.inconclusive.extend(child.inconclusive);
        for (sub, f, path) in child.violations {
            if self.violation_sigs.insert(f.signature.clone()) {
                self.violations.push((sub, f, path));
            }
        }
        for n in child.notes {
            if !self.notes.contains(&n) {
                self.notes.push(n);
            }
        }
    }
}

// ---------------------------------------------------------------------------
// Coverage-guided mode: the same generators and oracles, driven by libFuzzer.

/// One libFuzzer input. `mode` (first byte) selects the sub-generator; the
/// rest is either used verbatim (`raw`, for the byte-level properties) or fed
/// to the proptest strategies as their source of randomness (`draw`), so that
/// libFuzzer's mutations become mutations of the generated case.
pub struct FuzzIn<'a> {
    pub mode: u8,
    pub raw: &'a [u8],
    runner: proptest::test_runner::TestRunner,
}

impl<'a> FuzzIn<'a> {
    pub fn new(data: &'a [u8]) -> FuzzIn<'a> {
        use proptest::test_runner::{Config, RngAlgorithm, TestRng, TestRunner};
        let (mode, raw) = match data.split_first() {
            Some((m, r)) => (*m, r),
            None => (0, data),
        };
        // proptest's pass-through generator (bytes of the input used as the
        // random stream) cannot be used: it halves the remaining stream at
        // every fork and yields zeros once exhausted, on which rand's
        // unbiased range sampler never terminates. The strategies are driven
        // by ChaCha seeded with a digest of the input instead: for them a
        // mutation is a fresh draw, and libFuzzer only contributes corpus
        // retention by coverage. The byte-level and `mv()` modes are the ones
        // where mutations are structure-preserving.
        let mut seed = [0u8; 32];
        for (i, chunk) in seed.chunks_mut(8).enumerate() {
            chunk.copy_from_slice(&mix(digest_of(raw), i as u64 + 1).to_le_bytes());
        }
        let rng = TestRng::from_seed(RngAlgorithm::ChaCha, &seed);
        let cfg = Config { failure_persistence: None, max_local_rejects: 64, max_global_rejects: 64, ..Config::default() };
        FuzzIn { mode, raw, runner: TestRunner::new_with_rng(cfg, rng) }
    }

    /// Draw one value (None when the strategy rejects this byte stream).
    pub fn draw<S: proptest::strategy::Strategy>(&mut self, s: &S) -> Option<S::Value> {
        use proptest::strategy::ValueTree;
        s.new_tree(&mut self.runner).ok().map(|t| t.current())
    }

    /// A model value decoded from the bytes after `skip` header bytes
    /// (structure-preserving under libFuzzer's mutations).
    pub fn mv(&self, skip: usize, cfg: crate::gen::ValueCfg, depth: u32) -> crate::mv::MV {
        let mut c = crate::gen::Cur::new(self.raw.get(skip..).unwrap_or(&[]));
        crate::gen::decode_mv(&mut c, cfg, depth)
    }

    /// Parser option set index and input for the byte-level properties: two
    /// bytes of options (0xFFFF/0xFFFE = default / Emacs Lisp), then the input.
    pub fn raw_q_input(&self) -> (usize, &'a [u8]) {
        if self.raw.len() < 2 {
            return (0, &[]);
        }
        let k = u16::from_le_bytes([self.raw[0], self.raw[1]]) as usize;
        let q = match k {
            0xFFFF | 0x2020 => 0,
            0xFFFE | 0x2121 => crate::opts::QOpt::elisp().index(),
            k => k % crate::opts::N_QOPT,
        };
        (q, &self.raw[2..])
    }
}
