//! M_reader: an independent reader written from the documented grammar
//! (R7RS datum syntax plus `#nil`, `#:kw`, and the documented Emacs Lisp
//! subset), *not* from lexpr's parser. It reads printer output only and is
//! parameterised by the spellings a printer option set selects (DESIGN.md
//! appendix C). `nil` and `t` are reported as symbols.

use crate::mv::MV;
use crate::opts::*;

pub struct Reader<'a> {
    s: &'a [u8],
    text: &'a str,
    i: usize,
    d: POpt,
    depth: usize,
}

pub type RResult<T> = Result<T, String>;

fn is_ws(c: u8) -> bool {
    matches!(c, b' ' | b'\t' | b'\r' | b'\n' | 0x0C)
}

fn is_delim(c: u8) -> bool {
    is_ws(c) || matches!(c, b'(' | b')' | b'[' | b']' | b'"' | b';')
}

pub fn read_one(text: &str, d: &POpt) -> RResult<MV> {
    let mut r = Reader {
        s: text.as_bytes(),
        text,
        i: 0,
        d: *d,
        depth: 0,
    };
    r.skip_ws();
    let v = r.datum()?;
    r.skip_ws();
    if r.i != r.s.len() {
        return Err(format!("trailing text at byte {}", r.i));
    }
    Ok(v)
}

/// Read a whole stream of datums.
pub fn read_all(text: &str, d: &POpt) -> RResult<Vec<MV>> {
    let mut r = Reader {
        s: text.as_bytes(),
        text,
        i: 0,
        d: *d,
        depth: 0,
    };
    let mut out = Vec::new();
    loop {
        r.skip_ws();
        if r.i == r.s.len() {
            return Ok(out);
        }
        out.push(r.datum()?);
    }
}

impl<'a> Reader<'a> {
    fn peek(&self) -> Option<u8> {
        self.s.get(self.i).copied()
    }

    fn skip_ws(&mut self) {
        loop {
            match self.peek() {
                Some(c) if is_ws(c) => self.i += 1,
                Some(b';') => {
                    while let Some(c) = self.peek() {
                        self.i += 1;
                        if c == b'\n' {
                            break;
                        }
                    }
                }
                _ => return,
            }
        }
    }

    fn at_delim(&self) -> bool {
        self.peek().map_or(true, is_delim)
    }

    fn err<T>(&self, what: &str) -> RResult<T> {
        Err(format!("{} at byte {}", what, self.i))
    }

    fn datum(&mut self) -> RResult<MV> {
        self.depth += 1;
        if self.depth > 10_000 {
            return self.err("too deep");
        }
        let r = self.datum_inner();
        self.depth -= 1;
        r
    }

    fn datum_inner(&mut self) -> RResult<MV> {
        let c = match self.peek() {
            Some(c) => c,
            None => return self.err("unexpected end of input"),
        };
        match c {
            b'(' => {
                self.i += 1;
                self.list_tail(b')')
            }
            b'[' => {
                if self.d.vec == PVec::Brackets {
                    self.i += 1;
                    let xs = self.seq(b']')?;
                    Ok(MV::Vec(xs))
                } else {
                    self.err("unexpected '[' (printer does not use bracket vectors)")
                }
            }
            b')' | b']' => self.err("unexpected closing delimiter"),
            b'"' => {
                self.i += 1;
                match self.d.string {
                    Syn::R6RS => self.r6rs_string(),
                    Syn::Elisp => self.elisp_string(),
                }
            }
            b'#' => self.hash(),
            b'?' if self.d.chr == Syn::Elisp => {
                self.i += 1;
                self.elisp_char()
            }
            _ => self.bare_token(),
        }
    }

    fn seq(&mut self, close: u8) -> RResult<Vec<MV>> {
        let mut xs = Vec::new();
        loop {
            self.skip_ws();
            match self.peek() {
                None => return self.err("unterminated sequence"),
                Some(c) if c == close => {
                    self.i += 1;
                    return Ok(xs);
                }
                Some(_) => xs.push(self.datum()?),
            }
        }
    }

    fn list_tail(&mut self, close: u8) -> RResult<MV> {
        let mut xs = Vec::new();
        loop {
            self.skip_ws();
            match self.peek() {
                None => return self.err("unterminated list"),
                Some(c) if c == close => {
                    self.i += 1;
                    return Ok(MV::list(xs));
                }
                Some(b'.') if self.s.get(self.i + 1).map_or(true, |&c| is_delim(c)) => {
                    if xs.is_empty() {
                        return self.err("dot at list start");
                    }
                    self.i += 1;
                    self.skip_ws();
                    let tail = self.datum()?;
                    self.skip_ws();
                    if self.peek() != Some(close) {
                        return self.err("expected close after dotted tail");
                    }
                    self.i += 1;
                    return Ok(MV::List(xs, Box::new(tail)).normalize());
                }
                Some(_) => xs.push(self.datum()?),
            }
        }
    }

    fn take_token(&mut self) -> &'a str {
        let start = self.i;
        while !self.at_delim() {
            self.i += 1;
        }
        &self.text[start..self.i]
    }

    fn hash(&mut self) -> RResult<MV> {
        // self.peek() == '#'
        let rest = &self.s[self.i..];
        if rest.starts_with(b"#(") {
            if self.d.vec != PVec::Octothorpe {
                return self.err("unexpected #( (printer uses bracket vectors)");
            }
            self.i += 2;
            return Ok(MV::Vec(self.seq(b')')?));
        }
        if rest.starts_with(b"#u8(") || rest.starts_with(b"#vu8(") {
            let r7 = rest.starts_with(b"#u8(");
            let want = if r7 { PBytes::R7RS } else { PBytes::R6RS };
            if self.d.bytes != want {
                return self.err("byte vector prefix not the one selected by the options");
            }
            self.i += if r7 { 4 } else { 5 };
            let xs = self.seq(b')')?;
            let mut out = Vec::new();
            for x in xs {
                match x {
                    MV::U(u) if u <= 255 => out.push(u as u8),
                    _ => return self.err("byte vector element is not an octet"),
                }
            }
            return Ok(MV::Bytes(out));
        }
        if rest.starts_with(b"#\\") {
            if self.d.chr != Syn::R6RS {
                return self.err("#\\ character under Emacs character syntax");
            }
            self.i += 2;
            return self.r6rs_char();
        }
        let tok = self.take_token();
        match tok {
            "#nil" => Ok(MV::Nil),
            "#t" | "#true" => Ok(MV::Bool(true)),
            "#f" | "#false" => Ok(MV::Bool(false)),
            _ => {
                if let Some(name) = tok.strip_prefix("#:") {
                    if self.d.kw != Kw::Octothorpe {
                        return self.err("#: keyword but printer selects another spelling");
                    }
                    if is_identifier(name) {
                        return Ok(MV::Kw(name.to_string()));
                    }
                    return self.err("#: not followed by an identifier");
                }
                Err(format!("unknown # syntax {:?} at byte {}", tok, self.i))
            }
        }
    }

    fn next_char(&mut self) -> RResult<char> {
        match self.text[self.i..].chars().next() {
            Some(c) => {
                self.i += c.len_utf8();
                Ok(c)
            }
            None => self.err("unexpected end of input"),
        }
    }

    fn r6rs_char(&mut self) -> RResult<MV> {
        let c = self.next_char()?;
        if self.at_delim() {
            return Ok(MV::Char(c as u32));
        }
        // more characters follow: `x<hex>` or a character name
        let start = self.i;
        let rest = self.take_token();
        if c == 'x' && rest.chars().all(|h| h.is_ascii_hexdigit()) {
            let n = u32::from_str_radix(rest, 16).map_err(|_| "hex char too large".to_string())?;
            return match char::from_u32(n) {
                Some(ch) => Ok(MV::Char(ch as u32)),
                None => self.err("hex char is not a scalar value"),
            };
        }
        let name = format!("{}{}", c, rest);
        let named = match name.as_str() {
            "alarm" => 7,
            "backspace" => 8,
            "delete" => 0x7f,
            "escape" | "esc" => 0x1b,
            "newline" | "linefeed" => 10,
            "null" | "nul" => 0,
            "return" => 13,
            "space" => 32,
            "tab" => 9,
            "vtab" => 11,
            "page" => 12,
            _ => {
                self.i = start;
                return self.err("unknown character name");
            }
        };
        Ok(MV::Char(named))
    }

    fn elisp_char(&mut self) -> RResult<MV> {
        let c = self.next_char()?;
        let ch = if c == '\\' {
            let e = self.next_char()?;
            match e {
                'x' => {
                    let start = self.i;
                    while self.peek().map_or(false, |h| h.is_ascii_hexdigit()) {
                        self.i += 1;
                    }
                    if start == self.i {
                        return self.err("?\\x without digits");
                    }
                    let n = u32::from_str_radix(&self.text[start..self.i], 16)
                        .map_err(|_| "hex char too large".to_string())?;
                    match char::from_u32(n) {
                        Some(ch) => ch,
                        None => return self.err("?\\x not a scalar"),
                    }
                }
                'a' => '\x07',
                'b' => '\x08',
                't' => '\t',
                'n' => '\n',
                'v' => '\x0b',
                'f' => '\x0c',
                'r' => '\r',
                'e' => '\x1b',
                's' => ' ',
                'd' => '\x7f',
                // a backslash before any other punctuation character stands for
                // that character; `\^` starts the control-character syntax
                p if (p.is_ascii_punctuation() || p == ' ') && p != '^' => p,
                _ => return self.err("unsupported character escape"),
            }
        } else {
            if matches!(c, '(' | ')' | '[' | ']' | '\\' | ';') {
                return self.err("character that must be escaped after ?");
            }
            if (c as u32) < 0x20 || c as u32 == 0x7f {
                return self.err("raw control character after ?");
            }
            c
        };
        if !self.at_delim() {
            return self.err("junk after character literal");
        }
        Ok(MV::Char(ch as u32))
    }

    fn r6rs_string(&mut self) -> RResult<MV> {
        let mut out = String::new();
        loop {
            let c = self.next_char().map_err(|_| "unterminated string".to_string())?;
            match c {
                '"' => return Ok(MV::Str(out)),
                '\\' => {
                    let e = self.next_char()?;
                    match e {
                        'a' => out.push('\x07'),
                        'b' => out.push('\x08'),
                        't' => out.push('\t'),
                        'n' => out.push('\n'),
                        'r' => out.push('\r'),
                        '"' => out.push('"'),
                        '\\' => out.push('\\'),
                        '|' => out.push('|'),
                        'x' | 'X' => {
                            let start = self.i;
                            while self.peek().map_or(false, |h| h.is_ascii_hexdigit()) {
                                self.i += 1;
                            }
                            if start == self.i || self.peek() != Some(b';') {
                                return self.err("malformed \\x escape");
                            }
                            let n = u32::from_str_radix(&self.text[start..self.i], 16)
                                .map_err(|_| "hex escape too large".to_string())?;
                            self.i += 1;
                            match char::from_u32(n) {
                                Some(ch) => out.push(ch),
                                None => return self.err("\\x escape is not a scalar"),
                            }
                        }
                        _ => return self.err("unknown string escape"),
                    }
                }
                c => out.push(c),
            }
        }
    }

    fn elisp_string(&mut self) -> RResult<MV> {
        // chars are kept as u32 so that raw bytes (octal escapes) can be told apart
        let mut chars: Vec<u32> = Vec::new();
        let mut saw_byte_escape = false;
        let mut saw_multibyte = false;
        loop {
            let c = self.next_char().map_err(|_| "unterminated string".to_string())?;
            match c {
                '"' => break,
                '\\' => {
                    let e = self.next_char()?;
                    match e {
                        'a' => chars.push(7),
                        'b' => chars.push(8),
                        't' => chars.push(9),
                        'n' => chars.push(10),
                        'r' => chars.push(13),
                        'v' => chars.push(11),
                        'f' => chars.push(12),
                        'e' => chars.push(27),
                        'd' => chars.push(127),
                        '"' => chars.push('"' as u32),
                        '\\' => chars.push('\\' as u32),
                        'u' => {
                            let h = self
                                .text
                                .get(self.i..self.i + 4)
                                .ok_or_else(|| "short \\u escape".to_string())?;
                            if !h.chars().all(|x| x.is_ascii_hexdigit()) {
                                return self.err("malformed \\u escape");
                            }
                            self.i += 4;
                            let n = u32::from_str_radix(h, 16).unwrap();
                            if char::from_u32(n).is_none() {
                                return self.err("\\u escape is not a scalar");
                            }
                            chars.push(n);
                            saw_multibyte = true;
                        }
                        '0'..='7' => {
                            let mut n = e as u32 - '0' as u32;
                            let mut k = 1;
                            while k < 3 {
                                match self.peek() {
                                    Some(d @ b'0'..=b'7') => {
                                        n = n * 8 + (d - b'0') as u32;
                                        self.i += 1;
                                        k += 1;
                                    }
                                    _ => break,
                                }
                            }
                            if n > 255 {
                                return self.err("octal escape above 255");
                            }
                            chars.push(n);
                            saw_byte_escape = true;
                        }
                        _ => return self.err("unsupported string escape"),
                    }
                }
                c => {
                    if !c.is_ascii() {
                        saw_multibyte = true;
                    }
                    chars.push(c as u32);
                }
            }
        }
        if saw_byte_escape && !saw_multibyte {
            Ok(MV::Bytes(chars.into_iter().map(|c| c as u8).collect()))
        } else if saw_byte_escape {
            // raw bytes >= 0x80 inside a multibyte string are not characters
            if chars.iter().any(|&c| c >= 0x80 && c <= 0xff) {
                return self.err("byte escape inside a multibyte string");
            }
            Ok(MV::Str(chars.into_iter().map(|c| char::from_u32(c).unwrap()).collect()))
        } else {
            Ok(MV::Str(chars.into_iter().map(|c| char::from_u32(c).unwrap()).collect()))
        }
    }

    fn bare_token(&mut self) -> RResult<MV> {
        let start = self.i;
        let tok = self.take_token();
        if tok.is_empty() {
            self.i = start;
            return self.err("empty token");
        }
        if let Some(n) = read_number(tok)? {
            return Ok(n);
        }
        match self.d.kw {
            Kw::ColonPrefix => {
                if let Some(name) = tok.strip_prefix(':') {
                    return if is_identifier(name) {
                        Ok(MV::Kw(name.to_string()))
                    } else {
                        Err(format!("':' not followed by an identifier in {:?}", tok))
                    };
                }
            }
            Kw::ColonPostfix => {
                if let Some(name) = tok.strip_suffix(':') {
                    return if is_identifier(name) {
                        Ok(MV::Kw(name.to_string()))
                    } else {
                        Err(format!("':' not preceded by an identifier in {:?}", tok))
                    };
                }
            }
            Kw::Octothorpe => {}
        }
        if is_identifier(tok) {
            Ok(MV::Sym(tok.to_string()))
        } else {
            Err(format!("token {:?} is neither a number nor an identifier", tok))
        }
    }
}

/// `[-] digits` -> exact integer; `[-] digits [. digits] [e [sign] digits]`
/// with at least one optional part -> `str::parse::<f64>`.
pub fn read_number(tok: &str) -> RResult<Option<MV>> {
    let body = tok.strip_prefix('-').unwrap_or(tok);
    if body.is_empty() || !body.as_bytes()[0].is_ascii_digit() {
        return Ok(None);
    }
    if tok.starts_with('+') {
        return Ok(None);
    }
    if body.bytes().all(|c| c.is_ascii_digit()) {
        // exact integer
        let neg = tok.starts_with('-');
        let mag: u128 = body.parse().map_err(|_| format!("integer literal too long: {}", tok))?;
        return if neg {
            if mag == 0 {
                Ok(Some(MV::U(0)))
            } else if mag <= 1u128 << 63 {
                Ok(Some(MV::I((-(mag as i128)) as i64)))
            } else {
                Err(format!("integer {} below i64::MIN printed as an exact integer", tok))
            }
        } else if mag <= u64::MAX as u128 {
            Ok(Some(MV::U(mag as u64)))
        } else {
            Err(format!("integer {} above u64::MAX printed as an exact integer", tok))
        };
    }
    match crate::model::parse_dec_lit(tok) {
        Some(l) if l.has_frac || l.has_exp => {
            let f: f64 = tok.parse().map_err(|_| format!("unparsable decimal {}", tok))?;
            Ok(Some(MV::F(f.to_bits())))
        }
        _ => Err(format!("digit-initial token {:?} is not a number", tok)),
    }
}

fn is_initial(c: char) -> bool {
    c.is_ascii_alphabetic() || "!$%&*/:<=>?^_~".contains(c) || (!c.is_ascii() && c.is_alphabetic())
}

fn is_subsequent(c: char) -> bool {
    is_initial(c)
        || c.is_ascii_digit()
        || "+-.@".contains(c)
        || (!c.is_ascii() && (c.is_alphabetic() || c.is_numeric()))
}

fn is_sign_subsequent(c: char) -> bool {
    is_initial(c) || c == '+' || c == '-' || c == '@'
}

/// R7RS 7.1.1 <identifier> without the |...| form.
pub fn is_identifier(s: &str) -> bool {
    let cs: Vec<char> = s.chars().collect();
    if cs.is_empty() {
        return false;
    }
    let lower = s.to_ascii_lowercase();
    if ["+inf.0", "-inf.0", "+nan.0", "-nan.0", "+i", "-i"].contains(&lower.as_str()) {
        return false;
    }
    let rest_ok = |from: usize| cs[from..].iter().all(|&c| is_subsequent(c));
    if is_initial(cs[0]) {
        return rest_ok(1);
    }
    if cs[0] == '+' || cs[0] == '-' {
        if cs.len() == 1 {
            return true;
        }
        if is_sign_subsequent(cs[1]) {
            return rest_ok(2);
        }
        if cs[1] == '.' && cs.len() >= 3 && (is_sign_subsequent(cs[2]) || cs[2] == '.') {
            return rest_ok(3);
        }
        return false;
    }
    if cs[0] == '.' {
        if cs.len() >= 2 && (is_sign_subsequent(cs[1]) || cs[1] == '.') {
            return rest_ok(2);
        }
        return false;
    }
    false
}

pub fn self_test() {
    let d = POpt::default_set();
    let ok = |t: &str, v: MV| {
        assert_eq!(read_one(t, &d), Ok(v), "reader fixture {:?}", t);
    };
    ok("()", MV::Null);
    ok("(a . b)", MV::List(vec![MV::sym("a")], Box::new(MV::sym("b"))));
    ok("(a b)", MV::list(vec![MV::sym("a"), MV::sym("b")]));
    ok("#(1 -2 1.5)", MV::Vec(vec![MV::U(1), MV::I(-2), MV::f(1.5)]));
    ok("#u8(1 255)", MV::Bytes(vec![1, 255]));
    ok("\"a\\x41;\\n\\\"\"", MV::Str("aA\n\"".into()));
    ok("#\\a", MV::Char('a' as u32));
    ok("#\\x41", MV::Char('A' as u32));
    ok("#\\x", MV::Char('x' as u32));
    ok("(#\\  1)", MV::list(vec![MV::Char(32), MV::U(1)]));
    ok("#\\(", MV::Char('(' as u32));
    ok("#:kw", MV::Kw("kw".into()));
    ok("#nil", MV::Nil);
    ok("1e21", MV::f(1e21));
    ok("5e-324", MV::f(5e-324));
    ok("-0.0", MV::f(-0.0));
    ok("18446744073709551615", MV::U(u64::MAX));
    ok("-9223372036854775808", MV::I(i64::MIN));
    ok("...", MV::sym("..."));
    ok("+", MV::sym("+"));
    ok("->x", MV::sym("->x"));
    ok("(a ;c\n b)", MV::list(vec![MV::sym("a"), MV::sym("b")]));
    for bad in ["1+", "1.5.6", "#\\ab", "(a . )", "(. a)", "#u8(256)", "[a]", "a\"b", "#:1", "+5x", "1e", "#%a"] {
        assert!(read_one(bad, &d).is_err(), "reader must reject {:?}", bad);
    }
    let e = POpt::elisp();
    let oke = |t: &str, v: MV| {
        assert_eq!(read_one(t, &e), Ok(v), "elisp reader fixture {:?}", t);
    };
    oke("[a :k ?a ?\\( ?\\x7f]", MV::Vec(vec![MV::sym("a"), MV::Kw("k".into()), MV::Char(97), MV::Char(40), MV::Char(127)]));
    oke("\"\\001\\377\"", MV::Bytes(vec![1, 255]));
    oke("\"\"", MV::Str("".into()));
    oke("\"a\\u0001é\"", MV::Str("a\u{1}é".into()));
    oke("nil", MV::sym("nil"));
    assert!(read_one("#(1)", &e).is_err());
    assert!(read_one("#\\a", &e).is_err());
    assert!(is_identifier("+.a") && is_identifier("-..") && !is_identifier("+.") && !is_identifier("+5"));
}
