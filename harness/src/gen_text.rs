//! Input-side generators: token-alphabet sequences, mutations of well-formed
//! text, printed values in several dialects, arbitrary bytes.

use proptest::collection::vec;
use proptest::prelude::*;

use crate::gen::*;
use crate::mv::MV;
use crate::opts::*;

/// The lexeme-fragment alphabet of G_tokens (DESIGN.md section 2).
pub const FRAGMENTS: &[&[u8]] = &[
    b".\"b\"", b"'.\"b\"", b"a\"b\"", b".\"", b".|x|", b".'a", b"`.\"x\"", b",@.\"\"", b"[a . b]", b"[a . [b]]", b"(a . b]",
    b"(", b")", b"[", b"]", b"#(", b"#u8(", b"#vu8(", b"'", b"`", b",", b",@", b".", b" . ", b" ", b"\n", b"\t", b"\r", b"\x0c",
    b";", b";c\n", b";x", b"#", b"#t", b"#f", b"#nil", b"#n", b"#ni", b"#:", b"#:k", b"#%", b"#%a", b"#\\", b"#\\a", b"#\\x", b"#\\x41",
    b"#\\space", b"#\\spa", b"#\\(", b"#\\xD800", b"#\\x110000", b"#\\x1000000", b"#b", b"#b101", b"#o17", b"#x", b"#xFf", b"#d", b"#d1", b"#e", b"#b2",
    b"0", b"1", b"9", b"12", b"007", b"-", b"+", b"-1", b"+1", b"1.", b".5", b"1.5", b"1e", b"1e3", b"1e+", b"1.5e-3", b"1e400",
    b"18446744073709551615", b"18446744073709551616", b"-9223372036854775808", b"-9223372036854775809", b"1+", b"1/2", b"0x10", b"12ab",
    b".a:", b"-a:", b"+.a:", b"\xce\xbb:", b":.a", b"#:.a", b"#%a:", b".a", b"+.a", b"-..", b"\xe2\x82\xac(", b"-x",
    b"a", b"b", b"ab", b"nil", b"t", b"x", b"e", b"...", b"..", b"->", b"a.b", b":", b":a", b"a:", b":a:", b"::", b"?", b"?a", b"?\\(", b"?\\", b"?\\x41",
    b"?\\^a", b"?\\N{U+41}", b"?\\u0041", b"?\\U00000041", b"?\\101", b"!", b"$", b"%", b"&", b"*", b"/", b"<", b"=", b">", b"@", b"^", b"_", b"~", b"|", b"{", b"}",
    b"\"", b"\"a\"", b"\"\"", b"\\", b"\\\"", b"\\\\", b"\\n", b"\\x", b"\\x41;", b"\\x41", b"\\xD800;", b"\\x110000;", b"\\u0041", b"\\u", b"\\U00000041",
    b"\\N{U+41}", b"\\N{", b"\\101", b"\\377", b"\\400", b"\\ ", b"\\^a", b"\\^", b"\\q",
    b"\xce\xbb", b"\xce", b"\xbb", b"\xe2\x82\xac", b"\xe2\x82", b"\xf0\x9f\x98\x80", b"\xf0\x9f", b"\xc0\x80", b"\xed\xa0\x80", b"\xf4\x90\x80\x80", b"\xff", b"\x80", b"\x00", b"\x7f", b"\xc2\x85",
];

pub fn g_tokens(max: usize) -> BS<Vec<u8>> {
    vec(0..FRAGMENTS.len(), 0..=max)
        .prop_map(|ix| {
            let mut out = Vec::new();
            for i in ix {
                out.extend_from_slice(FRAGMENTS[i]);
            }
            out
        })
        .boxed()
}

/// A token sequence with separators between most fragments (so that more
/// inputs get past the first token).
pub fn g_tokens_spaced(max: usize) -> BS<Vec<u8>> {
    vec((0..FRAGMENTS.len(), 0u8..4), 0..=max)
        .prop_map(|ix| {
            let mut out = Vec::new();
            for (i, sep) in ix {
                out.extend_from_slice(FRAGMENTS[i]);
                if sep > 0 {
                    out.push(b' ');
                }
            }
            out
        })
        .boxed()
}

#[derive(Clone, Debug)]
pub enum Mutation {
    Flip(usize, u8),
    Insert(usize, u8),
    Delete(usize),
    Truncate(usize),
    Duplicate(usize, usize),
    ReplaceDelim(usize, u8),
}

pub fn g_mutations(max: usize) -> BS<Vec<Mutation>> {
    let one = prop_oneof![
        (any::<usize>(), any::<u8>()).prop_map(|(p, b)| Mutation::Flip(p, b)),
        (any::<usize>(), prop_oneof![3 => any::<u8>(), 5 => prop_oneof![Just(b'('), Just(b')'), Just(b'['), Just(b']'), Just(b'"'), Just(b'\\'), Just(b'#'), Just(b'.'), Just(b';'), Just(b'\''), Just(b' '), Just(b'\n'), Just(0x80u8), Just(0xffu8), Just(0u8)]]).prop_map(|(p, b)| Mutation::Insert(p, b)),
        any::<usize>().prop_map(Mutation::Delete),
        any::<usize>().prop_map(Mutation::Truncate),
        (any::<usize>(), 1usize..12).prop_map(|(p, n)| Mutation::Duplicate(p, n)),
        (any::<usize>(), prop_oneof![Just(b'('), Just(b')'), Just(b'['), Just(b']'), Just(b'"'), Just(b' ')]).prop_map(|(p, b)| Mutation::ReplaceDelim(p, b)),
    ];
    vec(one, 0..=max).boxed()
}

pub fn apply_mutations(base: &[u8], ms: &[Mutation]) -> Vec<u8> {
    let mut t = base.to_vec();
    for m in ms {
        match m {
            Mutation::Flip(p, b) => {
                if !t.is_empty() {
                    let i = p % t.len();
                    t[i] = *b;
                }
            }
            Mutation::Insert(p, b) => {
                let i = p % (t.len() + 1);
                t.insert(i, *b);
            }
            Mutation::Delete(p) => {
                if !t.is_empty() {
                    let i = p % t.len();
                    t.remove(i);
                }
            }
            Mutation::Truncate(p) => {
                let i = p % (t.len() + 1);
                t.truncate(i);
            }
            Mutation::Duplicate(p, n) => {
                if !t.is_empty() {
                    let i = p % t.len();
                    let j = (i + n).min(t.len());
                    let seg: Vec<u8> = t[i..j].to_vec();
                    for (k, b) in seg.into_iter().enumerate() {
                        t.insert(j + k, b);
                    }
                }
            }
            Mutation::ReplaceDelim(p, b) => {
                let delims: Vec<usize> = t
                    .iter()
                    .enumerate()
                    .filter(|(_, c)| b"()[]\" ".contains(c))
                    .map(|(i, _)| i)
                    .collect();
                if !delims.is_empty() {
                    t[delims[p % delims.len()]] = *b;
                }
            }
        }
    }
    t
}

/// Printed text of generated values under a few printer option sets.
pub fn g_printed(depth: u32, nodes: u32) -> BS<(Vec<u8>, usize)> {
    let pidx = prop_oneof![3 => Just(0usize), 2 => Just(POpt::elisp().index()), 2 => 0usize..N_POPT];
    pidx.prop_flat_map(move |pi| {
        let cfg = ValueCfg {
            ident: IdentRules::default(),
            bytes: true,
            keywords: true,
            depth,
            nodes,
            branch: 5,
            str_max: 12,
        };
        vec(g_value(cfg), 1..4).prop_map(move |vs| {
            let p = POpt::from_index(pi);
            let mut out = Vec::new();
            for (i, v) in vs.iter().enumerate() {
                if i > 0 {
                    out.push(b' ');
                }
                out.extend_from_slice(
                    &lexpr::to_vec_custom(&v.to_value(), p.to_lexpr()).unwrap_or_default(),
                );
            }
            (out, pi)
        })
    })
    .boxed()
}

/// Code points for numeric escapes: every boundary of the scalar-value range
/// and of the UTF-8 length classes, values just outside, and uniform draws.
pub fn g_code_point() -> BS<u32> {
    prop_oneof![
        6 => proptest::sample::select(vec![
            0u32, 0x41, 0x7f, 0x80, 0xff, 0x100, 0x7ff, 0x800, 0xd7ff, 0xd800, 0xd801, 0xdbff, 0xdc00, 0xdfff, 0xe000, 0xfffd, 0xffff, 0x10000,
            0x10ffff, 0x110000, 0x1fffff, 0x200000, 0xffffff, 0x1000000, 0x7fffffff, 0xffffffff,
        ]),
        3 => 0u32..0x300,
        2 => 0u32..0x110100,
        1 => any::<u32>(),
    ]
    .boxed()
}

/// Character literals of both character syntaxes in every escape spelling,
/// complete, truncated and with trailing junk, alone and inside a list.
pub fn g_char_literal() -> BS<Vec<u8>> {
    let names = proptest::sample::select(vec![
        "space", "newline", "nul", "null", "alarm", "backspace", "delete", "escape", "return", "tab", "altmode", "linefeed", "page", "rubout", "spac", "newlinex", "x", "xx", "U",
    ]);
    let lit = prop_oneof![
        3 => g_code_point().prop_map(|n| format!("#\\x{:x}", n)),
        1 => g_code_point().prop_map(|n| format!("#\\x{:X};", n)),
        2 => names.prop_map(|n| format!("#\\{}", n)),
        2 => unicode_alpha().prop_map(|c| format!("#\\{}", c)),
        2 => "[ -~]".prop_map(|c| format!("#\\{}", c)),
        2 => "[ -~]".prop_map(|c| format!("?{}", c)),
        2 => "[ -~]".prop_map(|c| format!("?\\{}", c)),
        2 => unicode_alpha().prop_map(|c| format!("?{}", c)),
        2 => g_code_point().prop_map(|n| format!("?\\x{:x}", n)),
        2 => g_code_point().prop_map(|n| format!("?\\u{:04x}", n & 0xffff)),
        2 => g_code_point().prop_map(|n| format!("?\\U{:08x}", n)),
        3 => g_code_point().prop_map(|n| format!("?\\N{{U+{:X}}}", n)),
        1 => g_code_point().prop_map(|n| format!("?\\N{{U+{:x}", n)),
        2 => (0u32..0o1000).prop_map(|n| format!("?\\{:o}", n)),
        2 => "[@-_a-z?]".prop_map(|c| format!("?\\^{}", c)),
        2 => ("[CMSHAs]", "[ -~]").prop_map(|(m, c)| format!("?\\{}-{}", m, c)),
        1 => ("[CMS]", "[CMS]", "[a-z]").prop_map(|(m, n, c)| format!("?\\{}-\\{}-{}", m, n, c)),
    ];
    // what directly follows the literal: nothing, ASCII, characters whose
    // UTF-8 form ends in 0x80 or 0xBF, lone continuation and lead bytes
    let junk = prop_oneof![
        6 => Just(&b""[..]),
        2 => Just(&b"a"[..]),
        2 => Just(&b"1"[..]),
        2 => Just(&b";"[..]),
        1 => Just("\u{c0}".as_bytes()),
        1 => Just("\u{100}".as_bytes()),
        1 => Just("\u{1000}".as_bytes()),
        1 => Just("\u{1F600}".as_bytes()),
        1 => Just("\u{7ff}".as_bytes()),
        1 => Just("\u{ffff}".as_bytes()),
        1 => Just("\u{3bb}".as_bytes()),
        1 => Just(&b"\x80"[..]),
        1 => Just(&b"\xbf"[..]),
        1 => Just(&b"\xc3"[..]),
        1 => Just(&b"\xff"[..]),
        1 => Just(&b"\x00"[..]),
    ];
    (lit, 0u8..6, junk)
        .prop_map(|(l, wrap, junk)| {
            let mut lj = l.clone().into_bytes();
            lj.extend_from_slice(junk);
            let mut t: Vec<u8> = Vec::new();
            match wrap {
                0 => {
                    t.push(b'(');
                    t.extend_from_slice(&lj);
                    t.extend_from_slice(b" x)");
                }
                1 => {
                    t.extend_from_slice(b"#(");
                    t.extend_from_slice(&lj);
                    t.push(b')');
                }
                2 => {
                    t.extend_from_slice(b"[x ");
                    t.extend_from_slice(&lj);
                    t.push(b']');
                }
                3 => {
                    t.extend_from_slice(&lj);
                    t.push(b' ');
                    t.extend_from_slice(l.as_bytes());
                }
                _ => t.extend_from_slice(&lj),
            }
            t
        })
        .boxed()
}

/// String (and character) literals assembled from escape pieces of both
/// string syntaxes, raw ASCII, raw multi-byte characters and stray bytes.
pub fn g_string_literal() -> BS<Vec<u8>> {
    let piece = prop_oneof![
        6 => "[a-z0-9 ]{1,3}".prop_map(|s| s.into_bytes()),
        3 => unicode_alpha().prop_map(|c| c.to_string().into_bytes()),
        1 => Just("\u{1F600}".as_bytes().to_vec()),
        2 => prop_oneof![Just("\\n"), Just("\\t"), Just("\\a"), Just("\\\\"), Just("\\\""), Just("\\e"), Just("\\d"), Just("\\s"), Just("\\ "), Just("\\|"), Just("\\v"), Just("\\f")].prop_map(|s| s.as_bytes().to_vec()),
        3 => (0u32..0x300).prop_map(|n| format!("\\x{:x};", n).into_bytes()),
        2 => (0u32..0x300).prop_map(|n| format!("\\x{:X}", n).into_bytes()),
        3 => (0u32..0o1000).prop_map(|n| format!("\\{:o}", n).into_bytes()),
        2 => (0u32..0x3000).prop_map(|n| format!("\\u{:04x}", n).into_bytes()),
        1 => g_code_point().prop_map(|n| format!("\\u{:04x}", n & 0xffff).into_bytes()),
        2 => g_code_point().prop_map(|n| format!("\\U{:08x}", n).into_bytes()),
        2 => g_code_point().prop_map(|n| format!("\\N{{U+{:X}}}", n).into_bytes()),
        2 => g_code_point().prop_map(|n| format!("\\x{:x};", n).into_bytes()),
        1 => g_code_point().prop_map(|n| format!("\\x{:x}", n).into_bytes()),
        1 => prop_oneof![Just(vec![0x80u8]), Just(vec![0xffu8]), Just(vec![0xc3u8]), Just(vec![0xe2u8, 0x82]), Just(vec![0xedu8, 0xa0, 0x80]), Just(vec![0u8]), Just(vec![0x7fu8])],
    ];
    (vec(piece, 0..7), 0u8..6)
        .prop_map(|(ps, wrap)| {
            let mut out = Vec::new();
            match wrap {
                0 => out.extend_from_slice(b"("),
                1 => out.extend_from_slice(b"#("),
                _ => {}
            }
            out.push(b'"');
            for p in ps {
                out.extend_from_slice(&p);
            }
            out.push(b'"');
            match wrap {
                0 | 1 => out.extend_from_slice(b" x)"),
                2 => out.extend_from_slice(b" \"b\""),
                _ => {}
            }
            out
        })
        .boxed()
}

/// The mixed input generator used by the byte-level properties. The label
/// says where the bytes came from.
pub fn g_input(max_len: usize) -> BS<(Vec<u8>, &'static str)> {
    let base = prop_oneof![
        3 => g_tokens(24).prop_map(|b| (b, "tokens")),
        3 => g_tokens_spaced(24).prop_map(|b| (b, "tokens-spaced")),
        3 => g_printed(4, 30).prop_map(|(b, _)| (b, "printed")),
        4 => (g_printed(4, 30), g_mutations(3)).prop_map(|((b, _), ms)| (apply_mutations(&b, &ms), "mutated")),
        2 => g_anybytes(64).prop_map(|b| (b, "anybytes")),
        3 => g_string_literal().prop_map(|b| (b, "string-literal")),
        2 => g_char_literal().prop_map(|b| (b, "char-literal")),
        // numeric literals of C05's grammars (radix prefixes, hundreds of
        // digits, exponents at the i32 boundaries), bare and inside a list
        2 => (crate::props::c05::g_lit(), any::<bool>()).prop_map(|((l, _), wrap)| ((if wrap { format!("(a {} . {})", l.text(), l.text()) } else { l.text() }).into_bytes(), "numeric-literal")),
    ]
    .prop_map(move |(mut b, l)| {
        b.truncate(max_len);
        (b, l)
    })
    .boxed();
    // now and then one character that text-processing code likes to treat
    // specially, at the very start, at the very end or after the first blank
    (base, any::<u8>())
        .prop_map(|((mut b, l), d)| {
            if (d as usize) < 3 * EDGE_CHARS.len() {
                let c = EDGE_CHARS[d as usize % EDGE_CHARS.len()].as_bytes();
                match d as usize / EDGE_CHARS.len() {
                    0 => {
                        let mut n = c.to_vec();
                        n.extend_from_slice(&b);
                        b = n;
                    }
                    1 => b.extend_from_slice(c),
                    _ => {
                        let at = b.iter().position(|x| *x == b' ').map_or(b.len(), |i| i + 1);
                        let tail = b.split_off(at);
                        b.extend_from_slice(c);
                        b.extend_from_slice(&tail);
                    }
                }
            }
            // a NUL byte somewhere inside: it is a byte like any other, not the end of anything
            if (200..232).contains(&d) {
                let at = (d as usize - 200) * (b.len() + 1) / 32;
                b.insert(at.min(b.len()), 0);
            }
            (b, l)
        })
        .boxed()
}

/// Byte order mark, no-break and other Unicode spaces, line and paragraph
/// separators, NEL, zero-width space, a noncharacter, the replacement
/// character, Ctrl-Z, NUL, a lone CR, a shebang.
pub const EDGE_CHARS: &[&str] = &["\u{feff}", "\u{a0}", "\u{2028}", "\u{2029}", "\u{85}", "\u{200b}", "\u{3000}", "\u{fffe}", "\u{fffd}", "\u{1a}", "\u{0}", "\r", "#!", "\u{feff}\u{feff}", "\u{1680}", "\u{2003}"];

pub fn g_qopt_index() -> BS<usize> {
    prop_oneof![3 => Just(0usize), 2 => Just(QOpt::elisp().index()), 4 => 0usize..N_QOPT].boxed()
}

#[allow(dead_code)]
pub fn unused(_: MV) {}
