//! libFuzzer target for every property that has a coverage-guided mode: the
//! property is chosen by VP_FUZZ_PROP, the oracle is the property's own check
//! function (harness/src/fuzz_entry.rs).
#![no_main]

use libfuzzer_sys::fuzz_target;

fuzz_target!(|data: &[u8]| {
    vp::fuzz_entry::fuzz_one(data);
});
